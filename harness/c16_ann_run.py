"""Stand-alone run of C16 part B:  /venv/bin/python -m harness.c16_ann_run [quick|thorough]

Uses the pseudo property id `C16Ann` (evidence/C16Ann.json, Audit/C16Ann.lean, exe drv_c16ann) so
that it never clobbers the files of part A's `./check C16`.
"""
from __future__ import annotations

import os
import sys

from . import c16_ann, common


def main() -> int:
    tier = sys.argv[1] if len(sys.argv) > 1 else os.environ.get("VERIF_TIER", "quick")
    common.setup_env()
    ck = common.Check("C16Ann", tier, int(os.environ.get("VERIF_SEED", "0") or 0))
    c16_ann.check(ck)
    return ck.finish()


if __name__ == "__main__":
    sys.exit(main())
