"""C01 — every decoded packing is feasible (both IBL encodings); also the streams of C14."""
from __future__ import annotations

import itertools
import os

from .common import Check, cmat, fmt_ints, fmt_matrix, kv

THEOREMS: list[str] = []  # filled below once Props/C01.lean exists


def fmt_inst(W, H, items) -> str:
    return f"{W} {H} ; {fmt_matrix(items)}"


def signed_perm(rng, items):
    x = [i + 1 for i, it in enumerate(items) for _ in range(it[2])]
    rng.shuffle(x)
    return [v if rng.random() < 0.5 else -v for v in x]


def all_signed_perms(items):
    base = [i + 1 for i, it in enumerate(items) for _ in range(it[2])]
    seen = set()
    for p in itertools.permutations(base):
        if p in seen:
            continue
        seen.add(p)
        for signs in itertools.product((1, -1), repeat=len(p)):
            yield [a * s for a, s in zip(p, signs)]


def rand_item(rng, W, H):
    lo, hi = min(W, H), max(W, H)
    if rng.random() < 0.5:
        return rng.randint(1, lo), rng.randint(1, hi)
    return rng.randint(1, hi), rng.randint(1, lo)


def gen_instances(ck: Check):
    """Yield (stream, W, H, items, list of x)."""
    rng = ck.rng
    q = ck.quick
    # (2) exhaustive small scope: bins up to 3x3 (quick) / 4x4, up to 2 (quick) / 3 item types, multiplicity <= 2,
    # ALL signed permutations
    lim = 3 if q else 4
    dims = [(W, H) for W in range(1, lim + 1) for H in range(1, lim + 1)]
    small = []
    for W, H in dims:
        lo, hi = min(W, H), max(W, H)
        cand = [(w, h) for w in range(1, hi + 1) for h in range(1, hi + 1) if not (w > lo and h > lo)]
        for nt in (1, 2) if q else (1, 2, 3):
            for combo in itertools.combinations(cand, nt):
                for reps in itertools.product((1, 2), repeat=nt):
                    if sum(reps) <= (3 if q else 4):
                        small.append((W, H, [[w, h, r] for (w, h), r in zip(combo, reps)]))
    if q:
        small = rng.sample(small, min(len(small), 140))
    else:
        small = rng.sample(small, min(len(small), 4000))
    for W, H, items in small:
        yield "exhaustive", W, H, items, list(all_signed_perms(items))
    # (4) boundary: 1x1 bins, item = bin, only-rotated items, dtype thresholds, huge bins
    yield "boundary", 1, 1, [[1, 1, 3]], [[1, 1, 1], [-1, 1, -1]]
    yield "boundary", 5, 3, [[5, 3, 2], [3, 5, 1]], [[1, 2, 1], [-1, -2, -1], [2, -1, 1]]
    yield "boundary", 10, 2, [[2, 10, 2], [1, 7, 1], [10, 1, 1]], [[1, 2, 3, 1], [-1, -2, -3, -1], [3, -1, 2, 1]]
    # The real constructor's lower bound costs O(min(W,H)) iterations and expands an item into (long side / short side)
    # squares, so huge bins are only constructible when they are thin and hold small items: dtype = f(max_dim + max_size + 1)
    for m in (60, 61, 123, 124, 16380, 16381, 32763, 32764, 2**30, 2**31 - 5, 2**31 - 4, 10**12):
        for (W, H) in ((m, 3), (2, m)):
            lo = min(W, H)
            for it in ([[lo, lo, 2], [1, 2, 2], [2, 1, 1]], [[1, 1, 3], [lo, 1, 2]]):
                xs = [signed_perm(rng, it) for _ in range(3)]
                yield "dtype-threshold", W, H, it, xs
    for m in (63, 64, 125, 126, 200):    # small enough for square bins with bin-sized items
        it = [[m, m, 1], [m - 1, 1, 2], [1, m, 1], [m // 2, m // 2 + 1, 2]]
        yield "dtype-threshold", m, m, it, [signed_perm(rng, it) for _ in range(3)]
    # tall / wide bins whose largest item is much longer than the smaller bin side: the transient top edge H + h (or the
    # right edge) comes close to max_dim + max_size, i.e. to the limit the storage type was chosen for; several copies so
    # that columns are already occupied when the next one comes down (found missing by seeded change C01-dtype-tall)
    for base in (127, 32767):
        for (small, frac) in ((10, 0.9), (3, 0.97), (base // 4, 0.75), (1, 1.0)):
            for delta in (-2, -1, 0, 1, 2):
                big = (base - 1 + delta) // 2          # big + h + 1 straddles `base` when h ~ big
                if big <= small:
                    continue
                h = max(small + 1, int(big * frac))
                for (W, H) in ((small, big), (big, small)):
                    it = [[min(small, max(1, small // 2)), h, 3], [small, big, 1], [1, 1, 2]] if W < H \
                        else [[h, min(small, max(1, small // 2)), 3], [big, small, 1], [1, 1, 2]]
                    xs = [signed_perm(rng, it) for _ in range(3)] + [[1, 1, 1, 2, 3, 3], [-1, 1, -1, 3, 2, 3]]
                    yield "dtype-tall", W, H, it, xs
    for n in (126, 127, 128):   # n_items + 1 at the int8 edge
        yield "dtype-nitems", 4, 4, [[1, 1, n]], [[1] * n, [-1] * n]
    # the same edge reached by SEVERAL item types, none of which alone has that many copies (bin ids and the second
    # encoding's bin_starts/bin_ends hold values up to the TOTAL number of items; found missing by seeded change
    # C01-dtype-by-distinct-count): many small items in few bins, and one item per bin
    for (W, H, types) in ((20, 20, [[7, 6], [5, 9], [4, 4]]), (10, 10, [[6, 6], [7, 7]]), (12, 5, [[5, 3], [2, 4], [6, 1], [3, 3]])):
        for total in (126, 127, 128, 129, 180, 260):
            k = len(types)
            reps = [total // k + (1 if t < total % k else 0) for t in range(k)]
            it = [[w, h, r] for (w, h), r in zip(types, reps)]
            yield "dtype-nitems-multi", W, H, it, [signed_perm(rng, it) for _ in range(2 if q else 4)]
    yield "boundary", 10**12, 7, [[7, 5, 1], [7, 7, 2], [3, 3, 3]], \
        [signed_perm(rng, [[1, 1, 1], [1, 1, 2], [1, 1, 3]]) for _ in range(3)]
    # (3) structured random
    for _ in range(120 if q else 3000):
        W, H = rng.choice([(rng.randint(2, 12), rng.randint(2, 12)), (rng.randint(5, 60), rng.randint(5, 60)),
                           (rng.randint(1, 4), rng.randint(20, 40))])
        nt = rng.randint(1, 6)
        items = []
        for _ in range(nt):
            w, h = rand_item(rng, W, H)
            if rng.random() < 0.6:   # small items so that bins fill up with many of them
                w, h = max(1, w // rng.randint(1, 4)), max(1, h // rng.randint(1, 4))
            items.append([w, h, rng.randint(1, 3)])
        yield "random", W, H, items, [signed_perm(rng, items) for _ in range(4)]
    # shipped instances
    if True:
        from moptipyapps.binpacking2d.instance import Instance
        names = list(Instance.list_resources())
        for nm in rng.sample(names, 6 if q else 60):
            inst = Instance.from_resource(nm)
            if inst.n_items > (60 if q else 200):
                continue
            items = [[int(a) for a in r] for r in inst]
            yield "shipped", int(inst.bin_width), int(inst.bin_height), items, [signed_perm(rng, items) for _ in range(2)]


def dirty_rows(rng, n, W, H, nb):
    return [[rng.randint(1, 3), rng.randint(1, max(1, nb)), rng.randint(0, min(W, 50)), rng.randint(0, min(H, 50)),
             rng.randint(0, min(W, 50)), rng.randint(0, min(H, 50))] for _ in range(n)]


def streams(ck: Check, prop: str = "C01") -> None:
    """implementation phase in a child process (a decoder that never returns is reported, not waited for), then
    model run, correspondence and spec oracle in the parent"""
    from .common import run_in_child
    limit = int(os.environ.get("VERIF_IMPL_LIMIT", "900" if ck.quick else "7200"))
    done, res = run_in_child(lambda: _impl_phase(ck), limit)
    if not done:
        ck.spec(False, "decode_does_not_return", f"a decode call did not return within {limit} s of stream time: the "
                "model terminates on every input (theorem settle_terminates), the decoder must too", ck.read_in_flight())
        return
    ops, ctx, ck.evaluations, ck.distinct, ck.hist, ck.samples = res
    _judge(ck, ops, ctx)


def _impl_phase(ck: Check):
    import numpy as np
    from moptipyapps.binpacking2d.encodings.ibl_encoding_1 import ImprovedBottomLeftEncoding1
    from moptipyapps.binpacking2d.encodings.ibl_encoding_2 import ImprovedBottomLeftEncoding2
    from moptipyapps.binpacking2d.instance import Instance
    from moptipyapps.binpacking2d.packing import Packing
    rng = ck.rng
    ops, ctx = [], []
    for stream, W, H, items, xs in gen_instances(ck):
        ck.count(stream)
        try:
            inst = Instance("i", W, H, items)
        except (ValueError, TypeError):
            inst = None
        ops.append(f"inst {fmt_inst(W, H, items)}")
        ctx.append(("inst", stream, None if inst is None else
                    (str(inst.dtype), int(inst.n_items), int(inst.total_item_area)), None))
        if inst is None:
            ck.count("ctor_err")
            continue
        n = inst.n_items
        ck.count(f"dtype_{inst.dtype}")
        encs = [ImprovedBottomLeftEncoding1(inst), ImprovedBottomLeftEncoding2(inst)]
        y = Packing(inst)           # ONE destination reused for all decodings of this instance
        for x in xs:
            for ei, enc in enumerate(encs):
                # dirty destination (and whatever the encoder object remembers from earlier decodings)
                dirty = dirty_rows(rng, n, W, H, rng.randint(1, n))
                y[:, :] = np.array(dirty, dtype=np.int64).astype(inst.dtype)
                y0 = [[int(v) for v in r] for r in y]
                s0 = e0 = None
                if ei == 1:
                    bs = enc._ImprovedBottomLeftEncoding2__bin_starts
                    be = enc._ImprovedBottomLeftEncoding2__bin_ends
                    if rng.random() < 0.7:
                        bs[:] = np.array([rng.randint(0, n) for _ in range(n)]).astype(inst.dtype)
                        be[:] = np.array([rng.randint(0, n) for _ in range(n)]).astype(inst.dtype)
                    else:
                        bs[:] = 0   # np.empty content is arbitrary; make it defined for the model's input
                        be[:] = 0
                    s0, e0 = [int(v) for v in bs], [int(v) for v in be]
                ck.in_flight({"W": W, "H": H, "items": items, "x": x, "encoding": ei + 1, "y0": y0 if n <= 40 else "<dirty>",
                              "bin_starts": s0, "bin_ends": e0})
                enc.decode(np.array(x, dtype=inst.dtype if rng.random() < 0.5 else np.int64), y)
                rows = [[int(v) for v in r] for r in y]
                if ei == 0:
                    line = f"dec1 {fmt_inst(W, H, items)} ; {fmt_ints(x)} ; {fmt_matrix(y0)}"
                else:
                    line = f"dec2 {fmt_inst(W, H, items)} ; {fmt_ints(x)} ; {fmt_matrix(y0)} ; {fmt_ints(s0)} ; {fmt_ints(e0)}"
                ops.append(line)
                ctx.append(("dec", stream, (W, H, items, x, ei + 1), (rows, int(y.n_bins))))
                ck.case(line, nontrivial=len(x) > 1)
                ops.append(f"feas {fmt_inst(W, H, items)} ; {int(y.n_bins)} ; {fmt_matrix(rows)}")
                ctx.append(("feas", stream, (W, H, items, x, ei + 1), (rows, int(y.n_bins))))
                ck.count(f"bins_{min(int(y.n_bins), 5)}{'+' if y.n_bins >= 5 else ''}")
    return ops, ctx, ck.evaluations, ck.distinct, ck.hist, ck.samples


def _judge(ck: Check, ops, ctx) -> None:
    from .common import cmat   # noqa: F401  (used below)
    outs = ck.model(ops, drv="drv_c01")
    seen_dec = {}
    for line, (kind, stream, a, b), mout in zip(ops, ctx, outs):
        d = kv(mout)
        if kind == "inst":
            inst = a
            if inst is None:
                ck.compare(stream, line, d.get("valid", mout), "false")
            else:
                ck.compare(stream, line, f"{d.get('valid')} {d.get('dtype')} {d.get('nitems')} {d.get('area')}",
                           f"true {inst[0]} {inst[1]} {inst[2]}")
        elif kind == "dec":
            rows, nb = b
            ck.compare(stream, line[:400], f"{d.get('rows', mout)} {d.get('nbins')}", f"{cmat(rows)} {nb}")
            # statelessness on the implementation: same (instance, x, encoding) => same packing
            key = (a[0], a[1], str(a[2]), str(a[3]), a[4])
            if key in seen_dec:
                ck.spec(seen_dec[key] == (rows, nb), "stateless",
                        "two decodings of the same permutation with the same encoder differ", {"case": a})
            seen_dec[key] = (rows, nb)
        else:
            rows, nb = b
            W, H, items, x, e = a
            ck.spec(d.get("feas") == "true", f"infeasible_enc{e}",
                    f"encoding {e} produced an infeasible packing (Lean spec Pack.Feasible = {d.get('feas', mout)})",
                    {"W": W, "H": H, "items": items, "x": x, "rows": rows, "n_bins": nb})


def check(ck: Check) -> None:
    ck.rule = ("exhaustive: sampled instances with bins <= 3x3 (quick) / 4x4 and <= 2/3 item types x ALL signed permutations; boundary "
               "(1x1 bins, item = bin, rotate-only items, thin bins at the dtype thresholds 63/64, 125/126, 16383/16384, 2^30, 2^31, 10^12, n_items 126..128); "
               "structured random; shipped instances; every decode with a dirty destination, dirty scratch arrays and a reused "
               "encoder object; non-trivial = more than one item; distinct by protocol line")
    ck.assumptions += ["numba compiles the kernels as written (int64 arithmetic on loaded values, no wrap: proved range theorems)",
                       "rows >= i of the destination are never read by the kernels (visible in the loop bounds; exercised by the dirty destination)",
                       "moptipy int_range_to_dtype as modelled by Base.dtypeFor"]
    from . import c01_theorems
    ck.lean(["Props.C01"], c01_theorems.THEOREMS)
    streams(ck)
