"""Run ONE property's correspondence/spec streams under NUMBA_BOUNDSCHECK=1 and dump a JSON summary.

usage: python -m harness.c13_worker <prop> <tier> <seed> <out.json>     (environment prepared by c13.py)
"""
from __future__ import annotations

import importlib
import json
import sys
import traceback

from . import common


def main() -> int:
    prop, tier, seed, out = sys.argv[1], sys.argv[2], int(sys.argv[3]), sys.argv[4]
    common.setup_env("bc")                      # separate numba cache: the on-disk cache ignores NUMBA_BOUNDSCHECK
    mod = importlib.import_module(f"harness.{prop.lower()}")
    ck = common.Check(prop, tier, seed)
    ck.work = common.WORK / "C13" / prop
    ck.work.mkdir(parents=True, exist_ok=True)
    err = None
    try:
        mod.streams(ck)
        if prop == "C16":   # part B of C16 (ANN generator, min-ANN kernels) has its own stream set and driver
            ann = importlib.import_module("harness.c16_ann")
            ann.streams(ck)
    except IndexError:
        err = "IndexError escaped the stream: " + traceback.format_exc()[-1500:]
    except Exception:  # noqa: BLE001
        err = "stream crashed: " + traceback.format_exc()[-1500:]
    json.dump({"prop": prop, "evaluations": ck.evaluations, "compared": ck.corr_compared,
               "distinct": len(ck.distinct), "spec_checked": ck.spec_checked,
               "mismatch": ck.corr_mismatch, "spec_violations": ck.spec_violations,
               "known": ck.known, "proof_failures": ck.proof_failures, "hist": ck.hist,
               "samples": ck.samples[:2], "error": err}, open(out, "w"), default=str)
    return 0


if __name__ == "__main__":
    sys.exit(main())
