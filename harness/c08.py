"""C08 — TTP travel length, bye penalty, bounds, four-team optima (DESIGN.md section 6)."""
from __future__ import annotations

import itertools
import os

from . import common
from .common import Check, fmt_ints, fmt_matrix, kv

THEOREMS = [
    "TtpLength.planLength_eq_walk", "TtpLength.planLength?_noOOB", "TtpLength.planLength?_eq_walk",
    "TtpLength.mkTtp_spec", "TtpLength.planLength_le_upper", "TtpLength.planLength_nonneg",
    "TtpLength.planLength_bounds", "TtpLength.allBye_attains_upper", "TtpLength.bye_increases_total",
    "TtpLength.setBye_inSpace", "TtpLength.bye_strictly_increases", "TtpLength.planLength_no_overflow",
]

FOUR_TEAM = ("circ4", "con4", "gal4", "incr4", "line4", "nl4", "sup4")
I64 = 2 ** 63


def wrap64(v: int) -> int:
    return (v + I64) % (2 * I64) - I64


# ------------------------------------------------------------------ generators
def rand_matrix(rng, n, hi, sym, zero_frac=0.0, heavy=False):
    """zero diagonal, non-negative; `heavy`: most entries equal to the maximum (ties at 2*max)."""
    M = [[0] * n for _ in range(n)]
    for i in range(n):
        for j in range(n):
            if i == j or (sym and j < i):
                continue
            if heavy and rng.random() < 0.7:
                v = hi
            elif rng.random() < zero_frac:
                v = 0
            else:
                v = rng.randint(0 if zero_frac > 0 else 1, hi)
            M[i][j] = v
            if sym:
                M[j][i] = v
    for i in range(n):  # the constructor wants a positive entry in every row
        if max(M[i]) <= 0:
            j = (i + 1) % n
            M[i][j] = hi
            if sym:
                M[j][i] = hi
    return M


def day_rows(n):
    """all day-wise consistent assignments of n teams (perfect matchings x orientations), 1-based ids"""
    def matchings(teams):
        if not teams:
            yield []
            return
        a = teams[0]
        for k in range(1, len(teams)):
            b = teams[k]
            for m in matchings(teams[1:k] + teams[k + 1:]):
                yield [(a, b)] + m
    rows = []
    for m in matchings(list(range(1, n + 1))):
        for orient in itertools.product((0, 1), repeat=len(m)):
            r = [0] * n
            for (a, b), o in zip(m, orient):
                h, w = (a, b) if o == 0 else (b, a)
                r[h - 1] = w
                r[w - 1] = -h
            rows.append(r)
    return rows


_ROWS_CACHE: dict[int, list] = {}


def rand_plan(rng, n, days, kind):
    if kind == "consistent":
        rows = _ROWS_CACHE.setdefault(n, day_rows(n) if n <= 6 else None)
        if rows is None:  # n = 8: build a random consistent day directly
            out = []
            for _ in range(days):
                t = list(range(1, n + 1))
                rng.shuffle(t)
                r = [0] * n
                for k in range(0, n, 2):
                    r[t[k] - 1] = t[k + 1]
                    r[t[k + 1] - 1] = -t[k]
                out.append(r)
            return out
        return [list(rng.choice(rows)) for _ in range(days)]
    if kind == "consistent+byes":
        y = rand_plan(rng, n, days, "consistent")
        for r in y:
            for t in range(n):
                if rng.random() < 0.2:
                    r[t] = 0
        return y
    if kind == "selfplay":
        return [[rng.choice([t + 1, -(t + 1), rng.randint(-n, n)]) for t in range(n)] for _ in range(days)]
    if kind == "sparse":   # mostly byes
        return [[rng.randint(-n, n) if rng.random() < 0.15 else 0 for _ in range(n)] for _ in range(days)]
    if kind == "away":     # mostly away games: long chains of moves
        return [[-rng.randint(1, n) if rng.random() < 0.85 else rng.randint(0, n) for _ in range(n)] for _ in range(days)]
    return [[rng.randint(-n, n) for _ in range(n)] for _ in range(days)]


PLAN_KINDS = ("uniform", "consistent", "consistent+byes", "selfplay", "sparse", "away")


# ------------------------------------------------------------------ implementation adapters
def impl_kernel(y, d, pen):
    import numpy as np
    from moptipyapps.ttp.plan_length import game_plan_length
    try:
        return int(game_plan_length(np.array(y, dtype=np.int64), np.array(d, dtype=np.int64), int(pen)))
    except IndexError:
        return "OOB"


_COUNTER = [0]


def impl_instance(M, cfg):
    """cfg = (rounds, hmin, hmax, amin, amax, smin, smax); returns (instance | None, canonical string)"""
    import numpy as np
    from moptipyapps.ttp.instance import Instance
    from moptipyapps.ttp.plan_length import GamePlanLength
    _COUNTER[0] += 1
    n = len(M)
    try:
        a = np.array(M, dtype=np.int64)
        if a.ndim == 2 and a.size:     # same values in another memory layout, by turns (an instance is a function of the values)
            k = _COUNTER[0] % 4
            a = np.asfortranarray(a) if k == 1 else (a.T.copy().T if k == 2 else a)
        inst = Instance(f"v{_COUNTER[0]}", a, [f"t{i}" for i in range(n)], *cfg)
    except (ValueError, TypeError):
        return None, None, "ERR"
    f = GamePlanLength(inst)
    return inst, f, (f"n={inst.n_cities} rounds={inst.rounds} max={int(inst.max())} pen={f.bye_penalty} "
                     f"lower={f.lower_bound()} upper={f.upper_bound()} pdtype={inst.game_plan_dtype} dtype={inst.dtype}")


def default_cfg(n, rounds):
    ll = rounds * n - 1
    return (rounds, 1, min(3, ll), 1, min(3, ll), 1, ll)


class Obj:
    """GamePlanLength on a real Instance with a reusable GamePlan from the real space"""

    def __init__(self, inst, f):
        from moptipyapps.ttp.game_plan_space import GamePlanSpace
        self.inst, self.f = inst, f
        self.space = GamePlanSpace(inst)
        self.x = self.space.create()

    def value(self, y, validate=True):
        self.x[:] = y
        if validate:
            self.space.validate(self.x)
        return int(self.f.evaluate(self.x))

    def bye_values(self, y):
        self.x[:] = y
        out = []
        for day in range(len(y)):
            for team in range(len(y[0])):
                old = self.x[day, team]
                self.x[day, team] = 0
                out.append(int(self.f.evaluate(self.x)))
                self.x[day, team] = old
        return out


# ------------------------------------------------------------------ streams
def streams(ck: Check) -> None:
    """Correspondence (B) and spec oracle (C) for game_plan_length / GamePlanLength / the constructor."""
    ops: list[str] = []
    post: list = []   # per op: callable(model_out_dict, model_out_raw)

    def add(line, fn, nontrivial=True):
        ops.append(line)
        post.append(fn)
        ck.case(line, nontrivial=nontrivial)

    rng = ck.rng
    quick = ck.quick
    boundscheck = os.environ.get("NUMBA_BOUNDSCHECK", "0") == "1"

    # ---- helpers that register one op of each kind -------------------------------------------
    def op_kernel(stream, n, d, y, pen, impl_val, bounds=None, wrap=False):
        line = f"ttpL {n} {pen} ; {fmt_matrix(d)} ; {fmt_matrix(y)}"

        def fn(m, raw, stream=stream, line=line, impl_val=impl_val, bounds=bounds, y=y, d=d, pen=pen, n=n, wrap=wrap):
            mv = m.get("val", raw)
            if wrap and mv != "OOB":
                mv = str(wrap64(int(mv)))
            ck.compare(stream, line, mv, str(impl_val))
            if impl_val == "OOB":
                return
            case = {"n": n, "pen": pen, "d": d if n <= 8 else "<big>", "plan": y if len(y) <= 24 else f"<{len(y)} days>"}
            # C: the documented walk length (Lean spec `walkLength`, evaluated by the driver)
            over = bounds is not None and bounds[1] >= I64   # declared upper bound does not fit int64 (known finding)
            ck.spec(m.get("spec") == str(impl_val), "walk" if not over else "overflow_int64",
                    f"plan length {impl_val} but documented travel model gives {m.get('spec')}", case)
            if bounds is not None:
                lo, hi = bounds
                ck.spec(lo <= impl_val <= hi, "bounds" if not over else "overflow_int64",
                        f"GamePlanLength.evaluate = {impl_val} outside [lower_bound, upper_bound] = [{lo}, {hi}]", case)
        add(line, fn)

    def op_bye(stream, n, d, y, pen, v0, vals):
        line = f"ttpB {n} {pen} ; {fmt_matrix(d)} ; {fmt_matrix(y)}"

        def fn(m, raw, stream=stream, line=line, v0=v0, vals=vals, y=y, d=d, pen=pen, n=n):
            ck.compare(stream, line, f"{m.get('val', raw)} {m.get('byes', '')}", f"{v0} {','.join(map(str, vals))}")
            specs = m.get("specbyes", "").split(",")
            k = 0
            for day in range(len(y)):
                for team in range(n):
                    v1 = vals[k]
                    case = {"n": n, "pen": pen, "d": d, "plan": y, "day": day, "team": team, "value": v0, "value_with_bye": v1}
                    if y[day][team] != 0:
                        # C: the bye clause on the implementation's own outputs
                        ck.spec(v1 > v0, "bye", f"replacing game ({day},{team}) by a bye changes the plan length "
                                                f"{v0} -> {v1} (must strictly increase)", case)
                        ck.count("bye_positions")
                    if k < len(specs):
                        ck.spec(specs[k] == str(v1), "walk_bye", f"plan with bye at ({day},{team}): length {v1}, "
                                                                 f"documented travel model {specs[k]}", case)
                    k += 1
        add(line, fn)

    def op_inst(stream, M, cfg, iout, nontrivial=True):
        line = f"ttpI {fmt_ints(cfg)} ; {fmt_matrix(M)}"
        add(line, lambda m, raw, stream=stream, line=line, iout=iout: ck.compare(stream, line, raw, iout), nontrivial)

    def objective_cases(stream, M, cfg, plans, bye_every=True):
        """constructor + GamePlanLength on a real Instance; plans are lists of rows in the space"""
        inst, f, iout = impl_instance(M, cfg)
        op_inst(stream, M, cfg, iout, nontrivial=inst is not None)
        ck.count("ctor_ok" if inst is not None else "ctor_err")
        if inst is None:
            return None
        n = len(M)
        obj = Obj(inst, f)
        lo, hi = f.lower_bound(), f.upper_bound()
        for y in plans:
            v0 = obj.value(y)
            op_kernel(stream, n, M, y, f.bye_penalty, v0, bounds=(lo, hi))
            if bye_every:
                op_bye(stream, n, M, y, f.bye_penalty, v0, obj.bye_values(y))
        return obj

    # ---- (2) exhaustive small scope: n = 2 -----------------------------------------------------
    # all 2-team matrices over 1..3 (a 2-team instance needs positive entries), rounds 1 and 2
    # (thorough: rounds 3 for one asymmetric matrix), *every* plan of the space, *every* position
    for a, b in itertools.product((1, 2, 3), repeat=2):
        for rounds in (1, 2):
            plans = [[list(p[2 * k:2 * k + 2]) for k in range(rounds)]
                     for p in itertools.product(range(-2, 3), repeat=2 * rounds)]
            if quick and rounds == 2 and (a, b) not in ((1, 1), (3, 3), (1, 3), (2, 3)):
                plans = rng.sample(plans, 60)
            ck.count(f"exh2_r{rounds}", len(plans))
            objective_cases("exh2", [[0, a], [b, 0]], default_cfg(2, rounds), plans)
    if not quick:
        plans = [[list(p[2 * k:2 * k + 2]) for k in range(3)] for p in itertools.product(range(-2, 3), repeat=6)]
        for a, b in ((2, 3), (3, 3), (1, 1), (3, 1)):
            ck.count("exh2_r3", len(plans))
            objective_cases("exh2", [[0, a], [b, 0]], default_cfg(2, 3), plans)

    # ---- (4) boundary stream ------------------------------------------------------------------
    # doctest of game_plan_length
    dd = [[0, 1, 2, 3], [7, 0, 4, 5], [8, 10, 0, 6], [9, 11, 12, 0]]
    yy = [[2, -1, 4, -3], [-2, 1, -4, 3], [3, 4, -1, -2], [-3, -4, 1, 2], [4, 3, -2, -1], [-4, -3, 2, 1]]
    op_kernel("boundary", 4, dd, yy, 0, impl_kernel(yy, dd, 0))
    objective_cases("boundary", dd, default_cfg(4, 2), [yy])
    for n in (2, 4, 6):
        for rounds in (1, 2):
            days = (n - 1) * rounds
            for M in ([[0 if i == j else 1 for j in range(n)] for i in range(n)],          # constant
                      [[0 if i == j else (7 if (i, j) == (0, 1) else 0) for j in range(n)] for i in range(n)][:1]
                      + [[0 if i == j else (5 if j == 0 else 0) for j in range(n)] for i in range(1, n)],  # mostly zero
                      rand_matrix(rng, n, 10 ** 6, False, heavy=True)):
                plans = [[[0] * n for _ in range(days)],                                    # no game at all
                         [[t + 1 for t in range(n)] for _ in range(days)],                 # everybody "plays itself" at home
                         [[-(t + 1) for t in range(n)] for _ in range(days)],              # ... away at itself: never moves
                         [[-(((t + 1) % n) + 1) for t in range(n)] for _ in range(days)],  # always away at the same team
                         [[-n] * n for _ in range(days)], [[n] * n for _ in range(days)],
                         [[-1] * n for _ in range(days)],
                         [[-(((t + day) % n) + 1) for t in range(n)] for day in range(days)]]  # away every day, moving on
                objective_cases("boundary", M, default_cfg(n, rounds), plans)
    # storage types: distances up to 1e12 / tour bound near 1e15, game-plan dtype int8
    for hi in (127, 128, 32767, 32768, 2 ** 31 - 1, 2 ** 31, 10 ** 12):
        n = rng.choice((2, 4))
        M = rand_matrix(rng, n, hi, rng.random() < 0.5)
        M[0][1] = hi
        rounds = rng.randint(1, 3)
        objective_cases("boundary", M, default_cfg(n, rounds),
                        [rand_plan(rng, n, (n - 1) * rounds, k) for k in ("uniform", "away", "sparse")])

    # ---- (5) malformed stream: what the constructor must reject --------------------------------
    base = [[0, 5, 3, 5], [1, 0, 5, 1], [1, 1, 0, 1], [1, 1, 1, 0]]
    for cfg in ((0, 1, 3, 1, 3, 1, 3), (101, 1, 3, 1, 3, 1, 3), (100, 1, 3, 1, 3, 1, 3), (1, 0, 3, 1, 3, 1, 3),
                (1, 1, 4, 1, 3, 1, 3), (1, 2, 1, 1, 3, 1, 3), (1, 1, 3, 0, 3, 1, 3), (1, 1, 3, 2, 1, 1, 3),
                (1, 1, 3, 1, 4, 1, 3), (1, 1, 3, 1, 3, -1, 3), (1, 1, 3, 1, 3, 2, 1), (1, 1, 3, 1, 3, 0, 4),
                (1, 1, 3, 1, 3, 0, 0), (2, 7, 7, 7, 7, 7, 7), (2, 8, 8, 1, 3, 1, 3)):
        objective_cases("malformed", base, cfg, [rand_plan(rng, 4, 3 * cfg[0], "uniform")] if 1 <= cfg[0] <= 100 else [],
                        bye_every=False)
    objective_cases("malformed", [[0, 1, 2], [1, 0, 3], [2, 3, 0]], default_cfg(3, 1), [])       # odd number of teams
    objective_cases("malformed", [[0, 1], [1, 1]], default_cfg(2, 1), [])                         # non-zero diagonal
    objective_cases("malformed", [[0, 0], [1, 0]], default_cfg(2, 1), [])                         # row without positive entry
    # negative distances: the constructor must reject them; if it does not, the clauses fail on them
    negs = [([[0, 5, -3, 5], [1, 0, 5, 1], [1, 1, 0, 1], [1, 1, 1, 0]], 1)]
    for _ in range(6 if quick else 40):
        n = rng.choice((4, 6))
        M = rand_matrix(rng, n, rng.choice((5, 100, 10 ** 6)), rng.random() < 0.5)
        i, j = rng.sample(range(n), 2)
        M[i][j] = -rng.randint(1, min(3, n - 1))   # sum of row minima stays >= 0: the old constructor accepted this
        negs.append((M, rng.randint(1, 2)))
    for M, rounds in negs:
        n = len(M)
        cfg = default_cfg(n, rounds)
        inst, f, iout = impl_instance(M, cfg)
        op_inst("negdist", M, cfg, iout, nontrivial=True)
        ck.count("negdist")
        ok = inst is None
        what, case = "constructor accepted a negative distance", {"M": M, "cfg": cfg}
        if inst is not None:
            # search this instance for a concrete clause failure on the real code
            obj = Obj(inst, f)
            days = (n - 1) * rounds
            i, j = next((i, j) for i in range(n) for j in range(n) if M[i][j] < 0)
            y = [[t + 1 for t in range(n)] for _ in range(days)]
            y[0][i] = -(j + 1)
            v = obj.value(y)
            if v < f.lower_bound():
                what += f"; plan length {v} < lower_bound() = {f.lower_bound()}"
                case["plan"] = y
            for _ in range(200):
                y = rand_plan(rng, n, days, "away")
                v0, vals = obj.value(y), obj.bye_values(y)
                bad = [(k // n, k % n, v1) for k, v1 in enumerate(vals) if y[k // n][k % n] != 0 and v1 <= v0]
                if bad:
                    what += f"; bye at {bad[0][:2]} changes plan length {v0} -> {bad[0][2]}"
                    case["bye_plan"] = y
                    break
        ck.spec(ok, "negdist_accepted", what, case)

    # ---- (3) structured random ---------------------------------------------------------------
    n_inst = 120 if quick else 5000
    for _ in range(n_inst):
        n = rng.choice((2, 4, 4, 6, 8))
        rounds = rng.randint(1, 3)
        hi = rng.choice((1, 3, 10, 100, 1000, 10 ** 6, 10 ** 6))
        M = rand_matrix(rng, n, hi, rng.random() < 0.5, rng.choice((0.0, 0.0, 0.3)), heavy=rng.random() < 0.25)
        ll = rounds * n - 1
        a, b = sorted((rng.randint(1, ll), rng.randint(1, ll)))
        c, e = sorted((rng.randint(1, ll), rng.randint(1, ll)))
        g, h = sorted((rng.randint(0, ll), rng.randint(0, ll)))
        cfg = (rounds, a, b, c, e, g, h)
        days = (n - 1) * rounds
        kinds = [rng.choice(PLAN_KINDS) for _ in range(3 if quick else 4)]
        for k in kinds:
            ck.count(f"plan_{k}")
        ck.count(f"n{n}_r{rounds}")
        objective_cases("random", M, cfg, [rand_plan(rng, n, days, k) for k in kinds])
    # raw kernel: arbitrary penalty (also 0 and negative), arbitrary number of days (not tied to rounds), signed
    # matrices with zero diagonal (the formula clause needs no sign assumption)
    for _ in range(150 if quick else 20000):
        n = rng.choice((2, 3, 4, 5, 6, 8))
        days = rng.randint(1, 3 * n)
        hi = rng.choice((3, 100, 10 ** 6))
        d = [[0 if i == j else rng.randint(-hi, hi) for j in range(n)] for i in range(n)]
        pen = rng.choice((0, 1, -5, 2 * hi + 1, rng.randint(-hi, 3 * hi)))
        y = rand_plan(rng, n, days, rng.choice(("uniform", "away", "sparse", "selfplay")))
        ck.count("raw_kernel")
        op_kernel("rawkernel", n, d, y, pen, impl_kernel(y, d, pen))

    # ---- shipped instances (loader -> constructor -> objective) ---------------------------------
    from moptipyapps.ttp.instance import Instance
    from moptipyapps.ttp.plan_length import GamePlanLength
    import numpy as np
    names = [nm for nm in Instance.list_resources() if int("".join(c for c in nm if c.isdigit())) <= (8 if quick else 16)]
    for nm in names:
        inst = Instance.from_resource(nm)
        f = GamePlanLength(inst)
        M = np.asarray(inst).tolist()
        n = inst.n_cities
        cfg = (inst.rounds, inst.home_streak_min, inst.home_streak_max, inst.away_streak_min, inst.away_streak_max,
               inst.separation_min, inst.separation_max)
        op_inst("shipped", M, cfg, f"n={n} rounds={inst.rounds} max={int(inst.max())} pen={f.bye_penalty} "
                                   f"lower={f.lower_bound()} upper={f.upper_bound()} pdtype={inst.game_plan_dtype} dtype={inst.dtype}")
        ck.count("shipped")
        ck.spec(all(v >= 0 for r in M for v in r), "negdist_accepted", f"shipped instance {nm} has a negative distance", {"name": nm})
        obj = Obj(inst, f)
        days = (n - 1) * inst.rounds
        for k in ("consistent", "consistent+byes", "uniform"):
            y = rand_plan(rng, n, days, k)
            v0 = obj.value(y)
            op_kernel("shipped:" + nm, n, M, y, f.bye_penalty, v0, bounds=(f.lower_bound(), f.upper_bound()))
            if n <= 8:
                op_bye("shipped:" + nm, n, M, y, f.bye_penalty, v0, obj.bye_values(y))

    # ---- int64 range: an accepted instance whose upper bound exceeds 2^63 -----------------------
    n = 8
    M = [[0 if i == j else 1 for j in range(n)] for i in range(n)]
    M[0][1] = 10 ** 15 - 7
    cfg = default_cfg(n, 100)
    inst, f, iout = impl_instance(M, cfg)
    op_inst("overflow", M, cfg, iout)
    ck.count("overflow")
    if inst is not None:
        obj = Obj(inst, f)
        y = [[0] * n for _ in range(700)]
        op_kernel("overflow", n, M, y, f.bye_penalty, obj.value(y), bounds=(f.lower_bound(), f.upper_bound()), wrap=True)

    # ---- outside the space: entries below -n leave the distance matrix --------------------------
    for _ in range(30):
        n = rng.choice((2, 4, 6))
        d = rand_matrix(rng, n, 50, False)
        y = rand_plan(rng, n, rng.randint(1, 4), "uniform")
        y[rng.randrange(len(y))][rng.randrange(n)] = -(n + rng.randint(1, 3))
        line = f"ttpL {n} 7 ; {fmt_matrix(d)} ; {fmt_matrix(y)}"
        ck.count("oob")
        if boundscheck:   # only then the real kernel reports it (otherwise it would read foreign memory)
            iv = impl_kernel(y, d, 7)
            add(line, lambda m, raw, line=line, iv=iv: ck.compare("oob", line, m.get("val", raw), str(iv)))
        else:
            add(line, lambda m, raw, line=line: ck.compare("oob-model-only", line, m.get("val", raw), "OOB"), nontrivial=False)

    # ---- optimum clause (finite table; exhaustive enumeration, NOT a theorem) -------------------
    deferred = optimum_clause(ck, op_kernel)

    outs = ck.model(ops)
    for raw, fn in zip(outs, post):
        fn(kv(raw), raw)
    for fn in deferred:   # the optimum verdicts come last: a broken kernel is reported by the formula clause first
        fn()


# ------------------------------------------------------------------ optimum clause
_ENUM = None


def _enum_kernel():
    """njit loop over plan indices lo..hi-1 (base-12 digits = day rows), real count_errors + game_plan_length.
    Not cached on purpose: a numba cache entry of this function would not notice a change of the inlined repo kernels."""
    global _ENUM
    if _ENUM is None:
        import numba
        import numpy as np
        from moptipyapps.ttp.errors import count_errors
        from moptipyapps.ttp.plan_length import game_plan_length

        @numba.njit(cache=False)
        def enum(rows, lo, hi, step, d, pen, hmin, hmax, amin, amax, smin, smax, y, t1, t2, out_idx, out_len):
            nrows = rows.shape[0]
            days, teams = y.shape
            best = -1
            feas = 0
            minall = -1
            for idx in range(lo, hi, step):
                k = idx
                for day in range(days):
                    r = k % nrows
                    k //= nrows
                    for t in range(teams):
                        y[day, t] = rows[r, t]
                length = game_plan_length(y, d, pen)
                if minall < 0 or length < minall:
                    minall = length
                if count_errors(y, hmin, hmax, amin, amax, smin, smax, t1, t2) == 0:
                    if feas < out_idx.shape[0]:
                        out_idx[feas] = idx
                        out_len[feas] = length
                    feas += 1
                    if best < 0 or length < best:
                        best = length
            return best, feas, minall
        _ENUM = enum
    return _ENUM


def optimum_clause(ck: Check, op_kernel) -> list:
    """enumerate now, return the verdicts (ck.spec calls) as thunks"""
    deferred: list = []

    def later(*a):
        deferred.append(lambda a=a: ck.spec(*a))
    import numpy as np
    from moptipyapps.ttp.errors import Errors
    from moptipyapps.ttp.game_plan_space import GamePlanSpace
    from moptipyapps.ttp.instance import Instance
    from moptipyapps.ttp.plan_length import GamePlanLength
    rows = day_rows(4)
    assert len(rows) == 12
    rows_np = np.array(rows, dtype=np.int64)
    total = 12 ** 6
    enum = _enum_kernel()
    table = {}
    for nm in FOUR_TEAM:
        inst = Instance.from_resource(nm)
        assert inst.n_cities == 4 and inst.rounds == 2
        f, e = GamePlanLength(inst), Errors(inst)
        space = GamePlanSpace(inst)
        y = space.create()
        lo_opt, hi_opt = inst.get_optimal_plan_length_bounds()
        t1 = np.empty(6, np.int64)
        t2 = np.empty((4, 4), np.int64)
        cap = 1 << 16
        out_idx, out_len = np.empty(cap, np.int64), np.empty(cap, np.int64)
        best, feas, minall = enum(rows_np, 0, total, 1, inst, f.bye_penalty, inst.home_streak_min, inst.home_streak_max,
                                  inst.away_streak_min, inst.away_streak_max, inst.separation_min, inst.separation_max,
                                  y, t1, t2, out_idx, out_len)
        best, feas, minall = int(best), int(feas), int(minall)
        ck.count("optimum_plans_enumerated", total)
        ck.count("optimum_error_free", feas)
        table[nm] = {"published": [lo_opt, hi_opt], "min_error_free": best, "error_free_plans": feas,
                     "min_over_all_consistent": minall, "plans": total}
        case = {"instance": nm, "published": [lo_opt, hi_opt], "min_error_free": best, "error_free_plans": feas}
        # C: the optimum clause itself
        later(lo_opt == hi_opt, "optimum", f"{nm}: published bounds {lo_opt, hi_opt} are not a single value", case)
        later(feas > 0 and best == lo_opt, "optimum",
                f"{nm}: minimum plan length over all {feas} error-free plans is {best}, published optimum {lo_opt}", case)
        # cross-checks through the public objects and the model: every error-free plan (and a seeded sample of all
        # plans) is re-evaluated with GamePlanLength/Errors.evaluate and sent to the Lean model
        M = np.asarray(inst).tolist()
        k = min(feas, cap)
        sample = [int(i) for i in out_idx[:k]]
        lens = {int(i): int(v) for i, v in zip(out_idx[:k], out_len[:k])}
        extra = [ck.rng.randrange(total) for _ in range(150 if ck.quick else 20000)]
        for idx in sample + extra:
            digits, kk = [], idx
            for _ in range(6):
                digits.append(kk % 12)
                kk //= 12
            plan = [list(rows[r]) for r in digits]
            y[:] = plan
            space.validate(y)
            v = int(f.evaluate(y))
            err = int(e.evaluate(y))
            if idx in lens:
                later(v == lens[idx] and err == 0, "optimum_enum",
                        f"{nm}: enumeration loop and objectives disagree on plan {idx}: {lens[idx]} vs {v}, errors {err}",
                        {"instance": nm, "plan": plan})
                later(v >= lo_opt, "optimum", f"{nm}: error-free plan of length {v} below the published optimum {lo_opt}",
                        {"instance": nm, "plan": plan})
            elif err == 0:
                later(False, "optimum_enum", f"{nm}: plan {idx} is error-free but the enumeration missed it",
                        {"instance": nm, "plan": plan})
            op_kernel("optimum:" + nm, 4, M, plan, f.bye_penalty, v, bounds=(f.lower_bound(), f.upper_bound()))
    ck.extra["optimum_clause"] = {"method": "exhaustive_enumeration (not a theorem)", "table": table}
    return deferred


def check(ck: Check) -> None:
    ck.rule = ("exhaustive n=2 (all 2-team matrices over 1..3, rounds 1-2 [thorough: 3], every plan of the space, every "
               "(day,team) bye position) + boundary (constant / mostly-zero / max-heavy matrices x all-bye, self-play, chain plans; "
               "dtype thresholds) + malformed constructor arguments incl. negative distances + structured random (n in {2,4,6,8}, "
               "rounds 1..3, sym/asym matrices up to 1e6, six plan kinds, every bye position) + raw kernel with arbitrary "
               "penalty/days/signed matrices + shipped instances + int64 range witness + OOB plans + optimum clause; "
               "a case is one protocol line; distinct by line hash")
    ck.assumptions += [
        "numba compiles game_plan_length as written (int64 accumulator; the small-int plan entry is promoted to int64 before negation)",
        "GamePlanLength.evaluate reads the matrix from x.instance, which GamePlanSpace.validate forces to be the objective's instance",
        "int(instance.max()) is the largest matrix entry (numpy); moptipy int_range_to_dtype as modelled by Base.dtypeFor",
        "team names / sanitize_name / XML parsing are outside the model (the loader is exercised by the shipped stream only)",
        "optimum clause: count_errors == 0 characterises the error-free plans (that is property C07); every error-free plan is "
        "day-wise consistent, hence among the 12^6 enumerated plans",
    ]
    ck.not_proved += [
        "optimum clause (four-team instances): finite table checked by exhaustive enumeration with the real numba kernels, not a theorem",
        "planLength_no_overflow needs upper_bound() < 2^63 as a hypothesis; the constructor does not guarantee it (Lean example + stream 'overflow')",
    ]
    ck.notes += ["optimum clause = exhaustive_enumeration over all 12^6 = 2985984 day-wise consistent four-team plans per instance "
                 "(real count_errors + game_plan_length inside one njit loop), in both tiers; see coverage.optimum_clause"]
    modules, theorems = ["Props.C08"], list(THEOREMS)
    # tie between source and model: lean/Gen/PlanLength.lean is regenerated from the CURRENT source of game_plan_length and
    # Props/C08Gen.lean proves it equal to the hand-written model `TtpLength.planLength?` for all inputs
    try:
        from .translate import loop2lean
        ck.gen_begin()   # released at the end of ck.lean
        loop2lean.emit_plan_length(common.REPO, common.LEAN)
        modules.append("Props.C08Gen")
        theorems.append("C08Gen.game_plan_length_eq_model")
    except Exception as e:  # noqa: BLE001 - source outside the translatable subset: the obligation cannot be regenerated
        ck.proof_failures.append(f"translator loop2lean: game_plan_length is not translatable, the theorem "
                                 f"C08Gen.game_plan_length_eq_model could not be re-checked against the source: {e!r}")
    ck.lean(modules, theorems)
    streams(ck)
