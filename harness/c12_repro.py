"""Stand-alone reproduction (C12, key `control_run_raises`): no run of the bundled surrogate experiment can finish.

    /venv/bin/python /verif/harness/c12_repro.py            (uses /repo, or $VERIF_REPO)

`moptipyapps.dynamic_control.surrogate_optimizer._bpcmaes` builds `BiPopCMAES(vs, True)` (log_restarts=True).
`experiment_surrogate.base_setup` switches `set_log_all_fes(True)`, so every run has a log file and
moptipy 0.9.136 `cmaes_lib.BiPopCMAES.solve` then renders its restart table with
`pycommons.strings.string_conv.num_to_str`, which rejects the `numpy.int64` seeds drawn with
`random.integers(0, 4294967296)` (pycommons 0.8.58: "value should be an instance of float but is numpy.int64").
Both pinned versions are exactly the ones in /repo/requirements.txt.

* `experiment_surrogate.cmaes_raw`      : the TypeError is raised when the budget is exhausted (end of `solve`);
* `experiment_surrogate.cmaes_surrogate`: the TypeError is raised at the end of the warm-up phase, i.e. after
  `fes_for_warmup` FEs - the model-training / on-model optimisation loop is never reached.

The repo's own test (tests/dynamic_control/test_experiment_surrogate.py) builds its own SurrogateOptimizer with the
default warm-up algorithm (random sampling) and therefore never executes `_bpcmaes` with a log.
`experiment_raw.cmaes` uses `BiPopCMAES(space)` (no restart log) and is not affected.
"""
import os
import sys
import tempfile
import traceback

sys.path.insert(0, os.environ.get("VERIF_REPO", "/repo"))
os.environ.setdefault("NUMBA_CACHE_DIR", "/verif/.work/numba-jit")

from moptipyapps.dynamic_control import experiment_surrogate as es  # noqa: E402
from moptipyapps.dynamic_control.controllers.ann import make_ann  # noqa: E402
from moptipyapps.dynamic_control.system_model import SystemModel  # noqa: E402
from moptipyapps.dynamic_control.systems.stuart_landau import make_stuart_landau  # noqa: E402

system = make_stuart_landau(1)          # one training point instead of 4: only to make the demonstration fast
sd, cd = system.state_dims, system.control_dims
failed = 0
for name, setup, budget in (("cmaes_raw", es.cmaes_raw, 4),
                            ("cmaes_surrogate", lambda i: es.cmaes_surrogate(i, 2, 6, 6, False), 6)):
    inst = SystemModel(system, make_ann(sd, cd, [sd, sd]), make_ann(sd + cd, sd, [sd, sd, sd]))
    with tempfile.TemporaryDirectory() as td:
        exe = setup(inst).set_max_fes(budget).set_rand_seed(5).set_log_file(os.path.join(td, "log.txt"))
        try:
            with exe.execute() as proc:
                print(f"{name}: consumed FEs before leaving the process = {proc.get_consumed_fes()} of {budget}")
            print(f"{name}: run completed")
        except TypeError:
            failed += 1
            print(f"{name}: RUN RAISED  {traceback.format_exc().strip().splitlines()[-1]}")
print("DEFECT REPRODUCED" if failed else "no defect")
sys.exit(1 if failed else 0)
