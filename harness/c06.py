"""C06 — the TSP-specific (1+1) EA and (1+1) FEA report true tour lengths (DESIGN.md section 6).

Correspondence: the real `solve` methods run against a stub process whose random generator
replays a script chosen here (start tour for `shuffle`, values for `integers`); the same script
goes to the Lean model (`ea` / `fea` ops).  The two kernels are also called directly (`rnw`, `rhnw`).
Spec oracle: every registered tour goes back to the driver, which evaluates the Lean
specification (`cyclicSum`, `IsPerm`, `revSpec`) on it.
"""
from __future__ import annotations

import os
from collections import Counter

from . import common
from .common import Check, fmt_ints, fmt_matrix, kv

THEOREMS = [
    "TspEa.rev_is_segment_reversal", "TspEa.rev_perm", "TspEa.delta_correct",
    "TspEa.rev_if_not_worse_spec", "TspEa.ea_registers_truth", "TspEa.ea_monotone",
    "TspEa.fea_registers_truth", "TspEa.fea_h_index_is_tour_length", "TspEa.instance_facts",
    "TspEa.fea_h_index_in_range", "TspEa.rev_if_not_worse_noOOB", "TspEa.ea_noOOB",
    "TspEa.rev_if_h_not_worse_noOOB", "TspEa.fea_noOOB", "TspEa.kernel_arith_no_overflow",
]

BOUNDSCHECK = os.environ.get("NUMBA_BOUNDSCHECK", "0") == "1"
# numba's on-disk cache does not distinguish bounds-checked from unchecked code: a bounds-checked run needs its own cache dir
NUMBA_MODE = "bc" if BOUNDSCHECK else "jit"


# ----------------------------------------------------------------------------- stub process
class ScriptedRandom:
    """Stands in for numpy's Generator: `shuffle` installs the scripted start tour, `integers(hi)`
    replays the scripted raw values reduced modulo `hi` (as numpy int64 scalars, like the real
    generator); the values actually returned are recorded and are what the model is fed with."""

    def __init__(self, start, draws, n):
        import numpy as np
        self._np = np
        self.start, self.draws, self.n, self.k = start, draws, n, 0
        self.bad = None
        self.returned = []

    def shuffle(self, x):
        if sorted(int(v) for v in x) != list(range(self.n)):
            self.bad = "shuffle called on something that is not 0..n-1"
        x[:] = self.start

    def integers(self, *args, **kwargs):
        if len(args) != 1 or kwargs or int(args[0]) <= 0:
            self.bad = f"integers{args}{kwargs}: not the one-argument form"
            raise ValueError(self.bad)
        if args != (self.n - 1,):
            self.other_bound = True
        v = self.draws[self.k] % int(args[0])
        self.k += 1
        self.returned.append(v)
        return self._np.int64(v)


class StubProcess:
    """The part of moptipy's Process the two algorithms use."""

    def __init__(self, inst, start, draws):
        from moptipy.spaces.permutations import Permutations
        from moptipyapps.tsp.tour_length import TourLength
        self.n = inst.n_cities
        self.space = Permutations.standard(self.n)
        self.objective = TourLength(inst)
        self.rnd = ScriptedRandom(start, draws, self.n)
        self.evaluated, self.trace = [], []

    def get_random(self):
        return self.rnd

    def create(self):
        return self.space.create()

    def evaluate(self, x):
        y = self.objective.evaluate(x)
        self.evaluated.append(([int(v) for v in x], int(y)))
        return y

    def register(self, x, y):
        self.trace.append(([int(v) for v in x], int(y)))

    def should_terminate(self):
        return self.rnd.k >= len(self.rnd.draws)


def run_solve(kind, inst, start, moves):
    """Run the real solve(); returns (trace, evaluated, h or None, error token or None, pairs actually drawn)."""
    import numpy as np
    from moptipyapps.tsp import ea1p1_revn, fea1p1_revn
    draws = [v for m in moves for v in m]
    proc = StubProcess(inst, start, draws)
    captured = []
    try:
        if kind == "ea":
            ea1p1_revn.TSPEA1p1revn(inst).solve(proc)
        else:
            old = fea1p1_revn.log_h
            fea1p1_revn.log_h = lambda process, h, offset: captured.append((np.array(h).tolist(), offset))
            try:
                fea1p1_revn.TSPFEA1p1revn(inst, True).solve(proc)
            finally:
                fea1p1_revn.log_h = old
    except IndexError:
        return proc.trace, proc.evaluated, None, "OOB", drawn(proc)
    except Exception as e:  # noqa: a mutant may raise anything; that is a disagreement, not a machinery error
        return proc.trace, proc.evaluated, None, f"EXC:{type(e).__name__}", drawn(proc)
    err = proc.rnd.bad
    if kind == "fea" and (len(captured) != 1 or captured[0][1] != 0):
        err = err or "log_h not called exactly once with offset 0"
    return proc.trace, proc.evaluated, (captured[0][0] if captured else None), err, drawn(proc)


def drawn(proc):
    r = proc.rnd.returned
    return list(zip(r[0::2], r[1::2]))


def real_process_run(kind, inst, seed, fes):
    """End-to-end: the real moptipy Execution/Process/RNG; the draws are recorded through a proxy."""
    from moptipy.api.algorithm import Algorithm
    from moptipy.api.execution import Execution
    from moptipy.spaces.permutations import Permutations
    from moptipyapps.tsp import ea1p1_revn, fea1p1_revn
    from moptipyapps.tsp.tour_length import TourLength
    rec = {"start": None, "draws": [], "trace": []}

    class RandProxy:
        def __init__(self, r):
            self.r = r

        def shuffle(self, x):
            self.r.shuffle(x)
            rec["start"] = [int(v) for v in x]

        def integers(self, *a, **k):
            v = self.r.integers(*a, **k)
            try:
                rec["draws"].append(int(v))
            except TypeError:     # a block of numbers drawn at once: recorded in generation order
                import numpy as np
                rec["draws"].extend(int(t) for t in np.asarray(v).ravel())
            return v

    class ProcProxy:
        def __init__(self, p):
            self.p = p
            self.create, self.evaluate, self.should_terminate = p.create, p.evaluate, p.should_terminate
            self.has_log, self.add_log_section = p.has_log, p.add_log_section

        def get_random(self):
            return RandProxy(self.p.get_random())

        def register(self, x, y):
            rec["trace"].append(([int(v) for v in x], int(y)))
            return self.p.register(x, y)

    inner = ea1p1_revn.TSPEA1p1revn(inst) if kind == "ea" else fea1p1_revn.TSPFEA1p1revn(inst)

    class Wrap(Algorithm):
        def solve(self, process):
            inner.solve(ProcProxy(process))

        def __str__(self):
            return "wrap"

    ex = Execution().set_solution_space(Permutations.standard(inst.n_cities)).set_objective(TourLength(inst))
    ex.set_algorithm(Wrap()).set_max_fes(fes).set_rand_seed(seed)
    best = None
    try:
        with ex.execute() as p:
            bx = p.create()
            p.get_copy_of_best_x(bx)
            best = ([int(v) for v in bx], int(p.get_best_f()))
    except Exception:  # noqa: moptipy's own end-of-run validation may reject a mutant; the recorded trace is judged by the oracle
        pass
    d = rec["draws"]
    return rec["start"], list(zip(d[0::2], d[1::2])), rec["trace"], best


# ----------------------------------------------------------------------------- generators
def sym_matrix(rng, n, hi, kind="rand"):
    M = [[0] * n for _ in range(n)]
    for i in range(n):
        for j in range(i + 1, n):
            if kind == "const":
                v = hi
            elif kind == "few":       # many ties and zero distances
                v = rng.choice([0, 1, 1, 2, hi])
            elif kind == "euclid":
                v = 0
            else:
                v = rng.randint(1, hi)
            M[i][j] = M[j][i] = v
    if kind == "euclid":
        pts = [(rng.randint(0, hi), rng.randint(0, hi)) for _ in range(n)]
        for i in range(n):
            for j in range(n):
                M[i][j] = int(round(((pts[i][0] - pts[j][0]) ** 2 + (pts[i][1] - pts[j][1]) ** 2) ** 0.5))
    return M


def make_instance(M):
    import numpy as np
    from moptipyapps.tsp.instance import Instance
    try:
        inst = Instance("c06", 0, np.array(M, dtype=np.int64))
    except ValueError:
        return None
    return inst if inst.is_symmetric else None


def rand_perm(rng, n):
    x = list(range(n))
    rng.shuffle(x)
    return x


def norm_move(n, a, b):
    """what the property text says about the drawn pair: ordered, `i == j` and `(0, n-2)` skipped"""
    i, j = min(a, b), max(a, b)
    return None if (i == j or (i == 0 and j == n - 2)) else (i, j)


def tour_len_py(M, x):
    return sum(M[x[k - 1]][x[k]] for k in range(len(x)))


def gen_jobs(ck: Check):
    """All implementation jobs of this run: (matrices, upper bounds, jobs).  Only `ck.rng` decides."""
    rng, quick = ck.rng, ck.quick
    mats, ubs, jobs = [], [], []

    def add_matrix(M, inst=None):
        inst = make_instance(M) if inst is None else inst
        if inst is None:
            return None
        mats.append(M)
        ubs.append(int(inst.tour_length_upper_bound))
        return len(mats) - 1

    def solve(stream, mid, start, raw, algos=("ea", "fea")):
        jobs.append({"t": "solve", "stream": stream, "mid": mid, "start": start, "raw": [list(m) for m in raw],
                     "algos": list(algos)})

    # (4b) storage-type thresholds: distances around 2^7, 2^8, 2^15, 2^16, 2^31, 2^32 and far beyond, mixed with small ones
    # (the instance picks its integer type from the largest value; a tour length then exceeds every narrower type).
    # The FEA needs a table of upper-bound + 1 cells, so it only takes part where that is allocatable.
    for hi in (127, 128, 255, 256, 32767, 32768, 65535, 65536, 2**31 - 1, 2**31, 2**32 - 1, 2**32, 3 * 10**9, 10**12,
               10**14):
        for n in ((4, 6) if quick else (4, 5, 6, 9)):
            M = [[0] * n for _ in range(n)]
            for i in range(n):
                for j in range(i + 1, n):
                    M[i][j] = M[j][i] = rng.randint(1, 9) if rng.random() < 0.5 else hi - rng.randint(0, 3)
            a, b = rng.sample(range(n), 2)
            M[a][b] = M[b][a] = hi
            inst = make_instance(M)
            if inst is None:
                continue
            mid = add_matrix(M, inst)
            algos = ("ea", "fea") if ubs[mid] <= 2_500_000 else ("ea",)
            allp = [(a, b) for a in range(n - 1) for b in range(n - 1)]
            for _ in range(2):
                rng.shuffle(allp)
                solve("dtype_hist", mid, rand_perm(rng, n), allp * 2, algos)

    # (2) exhaustive small scope: every drawable pair (a, b) as a one-move history and all of them as one history
    for _ in range(60 if quick else 250):
        for n in (2, 3, 4, 5, 6, 7):
            mid = None
            while mid is None:
                mid = add_matrix(sym_matrix(rng, n, rng.choice([3, 9, 50, 1000]), rng.choice(["rand", "rand", "few", "euclid"])))
            start = rand_perm(rng, n)
            allp = [(a, b) for a in range(n - 1) for b in range(n - 1)]
            for m in allp:
                solve("exh_pair", mid, start, [m])
            for _ in range(2):
                rng.shuffle(allp)
                solve("exh_hist", mid, start, allp)
    # (4) boundary: only i = 0 moves, only j = n-2 moves, only skipped moves, swapped pairs, all-equal distances
    for n in (4, 5, 6, 9, 17):
        for kind in ("rand", "const", "few"):
            mid = add_matrix(sym_matrix(rng, n, 7, kind))
            if mid is None:
                continue
            start = rand_perm(rng, n)
            solve("bnd_i0", mid, start, [(0, rng.randint(0, n - 2)) for _ in range(60)])
            solve("bnd_jmax", mid, start, [(rng.randint(0, n - 2), n - 2) for _ in range(60)])
            solve("bnd_swapped", mid, start, [(n - 2, rng.randint(0, n - 2)) for _ in range(60)])
            solve("bnd_skips", mid, start, [(0, n - 2), (n - 2, 0)] + [(k, k) for k in range(n - 1)])
            solve("bnd_empty", mid, start, [])
    # (3) structured random histories (raw values are reduced modulo whatever bound the code passes to `integers`)
    for k in range(24 if quick else 120):
        n = rng.choice([4, 5, 8, 13, 21, 30] if quick else [4, 8, 13, 21, 30, 45, 60])
        M = sym_matrix(rng, n, rng.choice([5, 100, 1000, 30000]), rng.choice(["rand", "rand", "euclid", "few"]))
        inst = make_instance(M)
        if inst is None or inst.tour_length_upper_bound > 2_500_000:
            continue
        mid = add_matrix(M, inst)
        ln = (400 if k % 4 else 2000) if quick else (2000 if k % 6 else 10000)
        solve("rand_hist", mid, rand_perm(rng, n), [(rng.randrange(2**31), rng.randrange(2**31)) for _ in range(ln)])
    # shipped symmetric instances
    import numpy as np
    from moptipyapps.tsp.instance import Instance, ncities_from_tsplib_name
    for nm in Instance.list_resources(True, True):
        try:
            if ncities_from_tsplib_name(nm) > (60 if quick else 130):
                continue
        except Exception:  # noqa
            continue
        inst = Instance.from_resource(nm)
        if not inst.is_symmetric:
            ck.count("shipped_asymmetric_skipped")
            continue
        if inst.tour_length_upper_bound > 4_000_000:
            ck.count("shipped_too_large_table_skipped")
            continue
        n = inst.n_cities
        mid = add_matrix(np.asarray(inst).tolist(), inst)
        solve("shipped:" + nm, mid, rand_perm(rng, n),
              [(rng.randrange(2**31), rng.randrange(2**31)) for _ in range(600 if quick else 2000)])
    # the two kernels directly: every (i, j) in [0,n)^2, the FEA kernel with a stale table of exactly ub+1 cells
    for _ in range(40 if quick else 250):
        for n in (2, 3, 4, 5, 6, 7):
            mid = add_matrix(sym_matrix(rng, n, rng.choice([3, 9, 40]), rng.choice(["rand", "few", "euclid"])))
            if mid is None:
                continue
            x = rand_perm(rng, n)
            for i in range(n):
                for j in range(n):
                    jobs.append({"t": "kernel", "stream": "exh_kernel", "mid": mid, "x": x, "i": i, "j": j,
                                 "y": tour_len_py(mats[mid], x),
                                 "h0": [rng.choice([0, 0, 1, 2, 5]) for _ in range(ubs[mid] + 1)]})
    # malformed kernel calls: index past the end, table too short (the model must answer OOB exactly when numba's bounds check fires)
    for _ in range(60):
        n = rng.randint(3, 6)
        mid = add_matrix(sym_matrix(rng, n, 9))
        if mid is None:
            continue
        x = rand_perm(rng, n)
        y = tour_len_py(mats[mid], x)
        i, j = rng.choice([(1, n), (0, n + 1), (n, n + 2), (1, 2), (0, 1)])
        jobs.append({"t": "kernel", "stream": "malformed", "mid": mid, "x": x, "i": i, "j": j, "y": y,
                     "h0": [0] * rng.choice([y, y + 1, 1, ubs[mid] + 1, ubs[mid]])})
    return mats, ubs, jobs


# ----------------------------------------------------------------------------- executing jobs on the real code
def cnats(x):
    return ",".join(str(int(v)) for v in x)


def exec_job(job, inst, only=None):
    """Run one job on the implementation.  Result: {"ea": ..., "fea": ...} (JSON-able)."""
    import numpy as np
    out = {}
    if job["t"] == "solve":
        for kind in job.get("algos", ("ea", "fea")):
            if only is not None and kind not in only:
                continue
            trace, evald, h, err, moves = run_solve(kind, inst, job["start"], [tuple(m) for m in job["raw"]])
            out[kind] = {"err": err, "trace": trace, "evald": evald, "moves": [list(m) for m in moves],
                         "hlen": None if h is None else len(h),
                         "cells": None if h is None else [[k, int(v)] for k, v in enumerate(h) if v != 0]}
        return out
    from moptipyapps.tsp.ea1p1_revn import rev_if_not_worse
    from moptipyapps.tsp.fea1p1_revn import rev_if_h_not_worse
    i, j, y, n = job["i"], job["j"], job["y"], len(job["x"])
    for kind in ("ea", "fea"):
        if only is not None and kind not in only:
            continue
        xa = np.array(job["x"], dtype=np.int8)
        ha = np.array(job["h0"], dtype=np.int64)
        try:
            if kind == "ea":
                ry = int(rev_if_not_worse(i, j, n, inst, xa, y))
                out[kind] = {"err": None, "x": [int(v) for v in xa], "y": ry}
            else:
                ry = int(rev_if_h_not_worse(i, j, n, inst, ha, xa, y))
                out[kind] = {"err": None, "x": [int(v) for v in xa], "y": ry, "h": [int(v) for v in ha]}
        except IndexError:
            out[kind] = {"err": "OOB"}
        except Exception as e:  # noqa
            out[kind] = {"err": f"EXC:{type(e).__name__}"}
    return out


def run_jobs(mats, jobs, skip=None):
    """Execute all jobs in this interpreter; `skip[k]` = set of algorithms not to run for job k."""
    insts, res = {}, []
    for k, job in enumerate(jobs):
        mid = job["mid"]
        if mid not in insts:
            insts[mid] = make_instance(mats[mid])
        only = {"ea", "fea"} - (skip[k] if skip else set())
        res.append(exec_job(job, insts[mid], only))
    return res


def boundscheck_prepass(ck: Check, mats, jobs):
    """Every job first runs in a separate interpreter under NUMBA_BOUNDSCHECK=1, where an access outside an array is
    an IndexError instead of memory corruption.  Only jobs that pass are then run on the production configuration."""
    import json
    import subprocess
    import sys
    from .common import ROOT
    f_in, f_out = ck.work / "bc_jobs.json", ck.work / "bc_results.json"
    f_in.write_text(json.dumps({"mats": mats, "jobs": jobs}))
    env = dict(os.environ, NUMBA_BOUNDSCHECK="1")
    p = subprocess.run([sys.executable, "-m", "harness.c06", "--boundscheck-batch", str(f_in), str(f_out)], cwd=ROOT, env=env,
                       capture_output=True, text=True, check=False, timeout=3000)
    if p.returncode != 0:
        raise RuntimeError("bounds-check pre-pass failed: " + (p.stdout + p.stderr)[-2000:])
    return json.loads(f_out.read_text())


# ----------------------------------------------------------------------------- the streams
def streams(ck: Check) -> None:
    rng = ck.rng
    ops, post = [], []           # protocol lines, and what to do with each answer
    mats, ubs, jobs = gen_jobs(ck)
    import json
    if BOUNDSCHECK and "numba-bc" in os.environ.get("NUMBA_CACHE_DIR", ""):
        # this interpreter checks bounds itself (own cache dir, so no unchecked machine code is reused)
        res = json.loads(json.dumps(run_jobs(mats, jobs)))
    else:
        res_bc = boundscheck_prepass(ck, mats, jobs)
        skip = [{a for a in ("ea", "fea") if r.get(a, {}).get("err") in ("OOB",) or
                 (job["t"] == "kernel" and job["stream"] == "malformed")} for job, r in zip(jobs, res_bc)]
        res = json.loads(json.dumps(run_jobs(mats, jobs, skip)))
        for k, (job, r, rb) in enumerate(zip(jobs, res, res_bc)):
            for a in job.get("algos", ("ea", "fea")):
                if a not in r:
                    r[a] = rb[a]
                    ck.count("ran_boundschecked_only")
                elif r[a] == rb[a]:     # ran in both configurations: bounds checking must not change anything
                    ck.count("boundscheck_equals_production")
                else:
                    ck.compare("boundscheck_vs_production", f"job {k} {job['stream']} {a}", str(r[a])[:1500], str(rb[a])[:1500])
    any_oob = False

    def small(M):
        return M if len(M) <= 12 else f"<{len(M)} cities>"

    for job, r in zip(jobs, res):
        M, ub, stream = mats[job["mid"]], ubs[job["mid"]], job["stream"]
        n = len(M)
        sname = stream.split(":")[0]
        if job["t"] == "solve":
            start = job["start"]
            ck.count(sname)
            ck.count(f"n={n}" if n <= 8 else ("n=9..30" if n <= 30 else "n>30"))
            for kind in job.get("algos", ("ea", "fea")):
                q = r[kind]
                trace, evald, err = [tuple(t) for t in q["trace"]], q["evald"], q["err"]
                moves = [tuple(m) for m in q["moves"]]
                applied = [m for m in (norm_move(n, a, b) for a, b in moves) if m is not None]
                if kind == "ea":
                    ck.count("moves_skipped", len(moves) - len(applied))
                    ck.count("moves_i0", sum(1 for m in applied if m[0] == 0))
                    ck.count("moves_jmax", sum(1 for m in applied if m[1] == n - 2))
                    ck.count("moves_out_of_range", sum(1 for m in moves if max(m) > n - 2))
                ctx = {"algo": kind, "M": small(M), "start": start,
                       "moves": moves if len(moves) <= 40 else f"<{len(moves)} moves>"}
                hd = f"{n}" if kind == "ea" else f"{n} {ub}"
                line = f"{kind} {hd} ; {fmt_matrix(M)} ; {fmt_ints(start)} ; {fmt_ints(v for m in moves for v in m)}"
                if err:
                    iout = err
                else:
                    iout = f"k={len(trace)} ys={','.join(str(y) for _, y in trace)} xs={'|'.join(cnats(x) for x, _ in trace)}"
                    if kind == "fea":
                        iout += f" hlen={q['hlen']} h={','.join(f'{k}:{v}' for k, v in q['cells'])}"
                ops.append(line)
                post.append(("solve", stream, kind, iout, ctx))
                ck.case(line, nontrivial=len(trace) > 0)
                ck.count(f"{kind}_registered", len(trace))
                if err == "OOB":
                    any_oob = True
                    ck.spec(False, "h_index_range" if kind == "fea" else "oob",
                            f"{kind} solve: IndexError under NUMBA_BOUNDSCHECK=1 — an array was indexed outside its bounds "
                            f"(after {len(trace)} register calls)", ctx)
                ck.count(f"{kind}_accepted", sum(1 for t in range(len(trace)) if trace[t][0] != (trace[t - 1][0] if t else start)))
                # spec oracle input: every tour handed to the process (evaluate also registers in moptipy)
                tours = [x for x, _ in evald] + [x for x, _ in trace]
                ys = [y for _, y in evald] + [y for _, y in trace]
                if tours:
                    ops.append(f"spec {fmt_matrix(M)} ; {' | '.join(fmt_ints(x) for x in tours)}")
                    post.append(("spec", stream, kind, (ys, ub, len(evald), tours), ctx))
                if kind == "fea" and not err:
                    ck.spec(q["hlen"] == ub + 1, "h_index_range", f"the frequency table has {q['hlen']} cells, not ub+1={ub + 1}", ctx)
        else:
            i, j, x, y = job["i"], job["j"], job["x"], job["y"]
            valid = i < j < n and not (i == 0 and j == n - 1)
            ck.count("kernel_valid" if valid else ("kernel_malformed" if sname == "malformed" else "kernel_other_pair"))
            for kind in ("ea", "fea"):
                q = r[kind]
                ctx = {"kernel": "rev_if_not_worse" if kind == "ea" else "rev_if_h_not_worse", "M": M, "x": x, "i": i, "j": j, "y": y}
                if kind == "ea":
                    line = f"rnw {i} {j} {n} {y} ; {fmt_matrix(M)} ; {fmt_ints(x)}"
                    iout = q["err"] or f"x={cnats(q['x'])} y={q['y']}"
                else:
                    ctx["h"] = job["h0"] if len(job["h0"]) < 200 else f"<{len(job['h0'])} cells>"
                    line = f"rhnw {i} {j} {n} {y} ; {fmt_matrix(M)} ; {fmt_ints(x)} ; {fmt_ints(job['h0'])}"
                    iout = q["err"] or f"x={cnats(q['x'])} y={q['y']} h={cnats(q['h'])}"
                ops.append(line)
                post.append(("kernel", stream, kind, iout, ctx))
                ck.case(line, nontrivial=valid)
                if q["err"] == "OOB":
                    ck.count(f"kernel_{kind}_oob")
                    if valid and sname != "malformed":
                        any_oob = True
                        ck.spec(False, "h_index_range" if kind == "fea" else "oob",
                                "kernel indexed an array outside its bounds on a valid call (IndexError under NUMBA_BOUNDSCHECK=1)", ctx)
                if valid and sname != "malformed" and not q["err"]:
                    ops.append(f"spec {fmt_matrix(M)} ; {fmt_ints(q['x'])}")
                    post.append(("kspec", stream, kind, (q["y"], y if kind == "ea" else None), ctx))
                    ops.append(f"revspec {i} {j} ; {fmt_ints(x)}")
                    post.append(("krev", stream, kind, (q["x"], x), ctx))

    # ---- the real process (real RNG) replayed in the model; not attempted if the code was seen to leave its arrays
    for kind in ("ea", "fea"):
        # (the last runs are LONG: several thousand index pairs, so that whatever an algorithm does per block of random
        # numbers or per so-many iterations happens at least once; found missing by seeded change C06-bulk-draws-unsorted-refill)
        budgets = [300, 300, 300, 2600, 7000] if ck.quick else [300] * 8 + [2600, 2600, 7000, 7000, 20000]
        for fes in ([] if any_oob else budgets):
            n = rng.choice([5, 9, 16]) if fes <= 300 else rng.choice([5, 7, 12])
            M = sym_matrix(rng, n, 50, "euclid")
            inst = make_instance(M)
            if inst is None:
                continue
            start, moves, trace, best = real_process_run(kind, inst, rng.randint(0, 2**31), fes)
            ck.count(f"realproc_fes_{fes}")
            ck.count("realproc")
            ub = int(inst.tour_length_upper_bound)
            hd = f"{n}" if kind == "ea" else f"{n} {ub}"
            line = f"{kind} {hd} ; {fmt_matrix(M)} ; {fmt_ints(start)} ; {fmt_ints(v for m in moves for v in m)}"
            iout = f"k={len(trace)} ys={','.join(str(y) for _, y in trace)} xs={'|'.join(cnats(x) for x, _ in trace)}"
            ops.append(line)
            ctx = {"algo": kind, "M": small(M), "start": start, "real_process": True,
                   "moves": moves if len(moves) <= 40 else f"<{len(moves)} moves>"}
            post.append(("solve_nh", "realproc", kind, iout, ctx))
            ck.case(line)
            ck.count("moves_out_of_range", sum(1 for m in moves if max(m) > n - 2))
            if best is None:
                ck.count("realproc_aborted_by_moptipy")
                best = trace[-1] if trace else (start, tour_len_py(M, start))
            tours = [x for x, _ in trace] + [best[0]]
            ops.append(f"spec {fmt_matrix(M)} ; {' | '.join(fmt_ints(x) for x in tours)}")
            post.append(("spec", "realproc", kind, ([y for _, y in trace] + [best[1]], ub, 0, tours), ctx))

    # ---- one run of the model driver, then correspondence (B) and the specification (C)
    outs = ck.model(ops)
    for line, (what, stream, kind, data, ctx), mout in zip(ops, post, outs):
        d = kv(mout)
        if what in ("solve", "solve_nh"):
            if "k" not in d:
                mc = mout
            else:
                mc = f"k={d['k']} ys={d['ys']} xs={d['xs']}"
                if kind == "fea" and what == "solve":
                    mc += f" hlen={d['hlen']} h={d['h']}"
            ck.compare(stream, line[:3000], mc, data)
        elif what == "kernel":
            mc = mout if "x" not in d else (f"x={d['x']} y={d['y']}" + (f" h={d['h']}" if kind == "fea" else ""))
            ck.compare(stream, line, mc, data)
        elif what == "spec":
            ys, ub, n_eval, tours = data
            lens = [int(v) for v in d.get("len", "").split(",") if v]
            perm = d.get("perm", "").split(",")
            if len(lens) != len(ys):
                ck.proof_failures.append(f"spec op answered {mout[:200]}")
                continue
            bad_p = [t for t in range(len(ys)) if perm[t] != "1"]
            ck.spec(not bad_p, f"perm_{kind}", f"registered tour #{bad_p[0] - n_eval if bad_p else 0} is not a permutation of the cities",
                    dict(ctx, tour=tours[bad_p[0]] if bad_p else None))
            bad = [t for t in range(len(ys)) if lens[t] != ys[t]]
            ck.spec(not bad, f"truth_{kind}",
                    f"registered pair #{bad[0] - n_eval if bad else 0}: y={ys[bad[0]] if bad else 0} but the tour has length "
                    f"{lens[bad[0]] if bad else 0}", dict(ctx, tour=tours[bad[0]] if bad else None))
            ck.spec(d.get("sym") == "true" and int(d.get("ub", -1)) == ub, "instance_ub",
                    "instance upper bound differs from the farthest-neighbour sum of the specification", ctx)
            if kind == "ea":
                up = [t for t in range(1, len(lens)) if lens[t] > lens[t - 1]]
                ck.spec(not up, "ea_monotone", f"the EA moved to a longer tour at registered pair #{up[0] - n_eval if up else 0}: "
                        f"{lens[up[0] - 1] if up else 0} -> {lens[up[0]] if up else 0}", ctx)
            else:
                out = [t for t in range(len(lens)) if not 0 <= ys[t] <= ub]
                ck.spec(not out, "h_index_range",
                        f"the FEA carries y={ys[out[0]] if out else 0} outside [0, {ub}] and indexes h with it", ctx)
        elif what == "kspec":
            ry, y = data
            ck.spec(d.get("perm") == "1", f"perm_{kind}", "kernel left a non-permutation in x", ctx)
            ck.spec(d.get("len") == str(ry), f"truth_{kind}", f"kernel returned {ry} but left a tour of length {d.get('len')} in x", ctx)
            if y is not None:
                ck.spec(ry <= y, "ea_monotone", f"rev_if_not_worse went from {y} to {ry}", ctx)
        elif what == "krev":
            xa, x = data
            ck.spec(cnats(xa) in (cnats(x), d.get("x")), f"rev_{kind}", "kernel left neither the old tour nor the segment reversal in x", ctx)


def check(ck: Check) -> None:
    ck.rule = ("exhaustive: every drawable pair (a,b) in [0,n-2]^2 for n<=7 as one-move history and as shuffled full history, on random "
               "symmetric matrices (uniform / many ties and zeros / rounded Euclidean) and random start tours, both algorithms; every "
               "(i,j) in [0,n)^2 on both kernels directly (FEA kernel with a stale random table of length ub+1); boundary histories "
               "(only i=0, only j=n-2, only skipped pairs, swapped pairs, empty, all-equal distances); random histories (n<=30 quick / "
               "<=60 thorough, 400..10^4 moves); shipped symmetric instances; malformed kernel calls (index past the end, short table; "
               "bounds-checked interpreter only); real moptipy Execution/RNG runs replayed in the model. Every job runs first under "
               "NUMBA_BOUNDSCHECK=1 in a separate interpreter, then on the production configuration; both must agree. "
               "A case is one protocol line; non-trivial = at least one register call (kernels: valid index pair); distinct by line hash")
    ck.assumptions += [
        "numba compiles the kernels as written: int64 arithmetic on the small-int matrix entries, negative index wrap for x[i-1], "
        "overlap-safe slice assignment x[i:j+1] = x[j:i-1:-1]; NUMBA_BOUNDSCHECK=1 only adds IndexError on out-of-range accesses",
        "numpy Generator.integers(n-1) returns values in [0, n-2]; Generator.shuffle leaves a permutation of 0..n-1 in x "
        "(MovesInRange / IsPerm x0 in the theorems; the real generator is exercised in the `realproc` stream)",
        "the process evaluates with moptipyapps.tsp.tour_length (C05) and Permutations.standard(n) creates x",
        "moptipy Process.register / should_terminate / log_h are outside the model (a stub process records the calls)",
        "Instance constructor as modelled by C05 (Tsp.mkInstance); the instance's upper bound is the farthest-neighbour sum",
    ]
    ck.not_proved = []
    modules, theorems = ["Props.C06"], list(THEOREMS)
    # tie between source and model: lean/Gen/RevIfNotWorse.lean and RevIfHNotWorse.lean are regenerated from the CURRENT
    # source of the two move kernels; Props/C06GenEA.lean / C06GenFEA.lean prove them equal to the hand-written models
    # (final content of x and h included) for all inputs; one Props module per kernel
    from .translate import loop2lean
    ck.gen_begin()   # released at the end of ck.lean
    for emit, mod, thm, what in (
            (loop2lean.emit_rev_if_not_worse, "Props.C06GenEA", "C06Gen.rev_if_not_worse_eq_model", "rev_if_not_worse"),
            (loop2lean.emit_rev_if_h_not_worse, "Props.C06GenFEA", "C06Gen.rev_if_h_not_worse_eq_model", "rev_if_h_not_worse")):
        try:
            emit(common.REPO, common.LEAN)
            modules.append(mod)
            theorems.append(thm)
        except Exception as e:  # noqa: BLE001 - source outside the translatable subset: the obligation cannot be regenerated
            ck.proof_failures.append(f"translator loop2lean: {what} is not translatable, the theorem {thm} could not be "
                                     f"re-checked against the source: {e!r}")
    ck.lean(modules, theorems)
    streams(ck)


if __name__ == "__main__":   # `python -m harness.c06 --boundscheck-batch IN OUT` (see boundscheck_prepass)
    import json
    import sys
    from . import common
    common.setup_env("bc")
    _job = json.loads(open(sys.argv[2]).read())
    open(sys.argv[3], "w").write(json.dumps(run_jobs(_job["mats"], _job["jobs"])))
