"""C09 — QAP objective = flow-distance double sum within the trivial bounds; storage type; QAPLIB loader.

Correspondence ops (see lean/Driver/C09.lean): qapB (trivial_bounds), qapI (Instance.__init__),
qapE (_evaluate / QAPObjective.evaluate), qapP (Instance.from_qaplib_stream), qapV (spec: values listed by a text).
"""
from __future__ import annotations

import itertools
import os

from . import common
from .common import Check, cmat, fmt_ints, fmt_matrix, kv

THEOREMS = [
    "Qap.qapEval_eq_sum", "Qap.qapEval_noOOB", "Qap.qapEval_exact", "Qap.qap_between_trivial_bounds",
    "Qap.trivialBounds_exact", "Qap.partial_sums_exact", "Qap.mkQap_spec", "Qap.stored_matrices_exact",
    "Qap.qap_instance_correct", "Qap.qap_instance_value_any_bounds", "Qap.tokens_layout", "Qap.fromQaplib_wrapping",
    "Qap.parseQaplib_sound", "Qap.fromQaplib_no_silent_misparse", "Qap.fromQaplib_straddle_raises",
    "Qap.fromQaplib_n_not_alone_raises", "Qap.fromQaplib_yields_listed",
]

U64 = 2 ** 64
LIMIT = 10 ** 15
THRESHOLDS = (127, 255, 32767, 65535, 2 ** 31 - 1, 2 ** 32 - 1, 2 ** 63 - 1)
SEPS = (" ", " ", " ", "  ", "\t", " \t ", "     ", "\x0b", "\x0c", "\x1c", "\x1d", "\x1e", "\x1f", "\r")
BOUNDSCHECK = os.environ.get("NUMBA_BOUNDSCHECK", "") == "1"


# --------------------------------------------------------------------------- implementation adapters
def np_of(M, dt=None):
    import numpy as np
    n = len(M)
    if dt is None:
        dt = np.uint64 if any(v >= 2 ** 63 for r in M for v in r) else np.int64
    if n == 0:
        return np.zeros((0, 0), dt)
    return np.array(M, dtype=dt)


def relayout(a, how: str):
    import numpy as np
    if how == "F":
        return np.asfortranarray(a)
    if how == "T":
        return a.T.copy().T
    if how == "S":
        big = np.zeros((2 * a.shape[0], 2 * a.shape[1]), dtype=a.dtype)
        big[::2, ::2] = a
        return big[::2, ::2]
    return a


def inst_str(inst) -> str:
    return (f"n={inst.n} lb={int(inst.lower_bound)} ub={int(inst.upper_bound)} dtype={inst.distances.dtype} "
            f"dists={cmat(inst.distances.tolist())} flows={cmat(inst.flows.tolist())}")


def impl_instance(D, F, lb, ub):
    from moptipyapps.qap.instance import Instance
    try:
        inst = Instance(D, F, lb, ub)
    except (ValueError, TypeError):
        return None, "ERR"
    return inst, inst_str(inst)


def impl_bounds(D, F):
    from moptipyapps.qap.instance import trivial_bounds
    lb, ub = trivial_bounds(D, F)
    return int(lb), int(ub)


def impl_eval(D, F, x, xdt=None):
    import numpy as np
    from moptipyapps.qap.objective import _evaluate
    try:
        return str(int(_evaluate(np.array(x, dtype=xdt or np.int64), D, F)))
    except IndexError:
        return "OOB"


def impl_eval_inst(inst, x, xdt=None):
    import numpy as np
    from moptipyapps.qap.objective import QAPObjective
    try:
        return str(int(QAPObjective(inst).evaluate(np.array(x, dtype=xdt or np.int64))))
    except IndexError:
        return "OOB"


def impl_load(lines, lb, ub):
    from moptipyapps.qap.instance import Instance
    try:
        inst = Instance.from_qaplib_stream(lines, lb, ub)
    except (ValueError, TypeError):
        return None, "ERR"
    return inst, inst_str(inst)


# --------------------------------------------------------------------------- protocol encoding
def esc(s: str) -> str:
    out = []
    for c in s:
        if c == " " or (c.isascii() and (c.isalnum() or c in "+-_.")):
            out.append(c)
        else:
            o = ord(c)
            if o > 255:
                raise ValueError("non-ASCII text is outside the model")
            out.append(f"%{o:02x}")
    return "".join(out)


def enc_lines(lines) -> str:
    return f"{len(lines)} ; [" + "/".join(esc(l) for l in lines) + "]"


def opt(v) -> str:
    return "-" if v is None else str(int(v))


# --------------------------------------------------------------------------- generators: matrices
def rand_matrix(rng, n, hi, zero_frac=0.0, diag_zero=False):
    return [[0 if (diag_zero and i == j) or rng.random() < zero_frac else rng.randint(0, hi)
             for j in range(n)] for i in range(n)]


def perms_of(rng, n, k):
    out = []
    for _ in range(k):
        p = list(range(n))
        rng.shuffle(p)
        out.append(p)
    return out


def py_bounds(D, F):
    """the documented bounds over Python integers (only used to *construct* boundary cases)"""
    d = sorted(v for r in D for v in r)
    f = sorted(v for r in F for v in r)
    return sum(a * b for a, b in zip(d[::-1], f)), sum(a * b for a, b in zip(d, f))


def gen_eval_cases(ck: Check):
    """Yield dicts: stream, D, F, lb, ub (given bounds), xs (index lists), dt (input dtype name or None)."""
    rng = ck.rng
    quick = ck.quick

    def case(stream, D, F, xs, lb=None, ub=None, dt=None):
        return {"stream": stream, "D": D, "F": F, "xs": xs, "lb": lb, "ub": ub, "dt": dt}

    allp = {n: [list(p) for p in itertools.permutations(range(n))] for n in range(0, 5)}
    # (2) exhaustive small scope: n = 0, 1; all 2x2 matrix pairs over {0,1,2} (sampled in quick); all permutations n <= 4
    yield case("exh0", [], [], [[]])
    for a in range(4):
        for b in range(4):
            yield case("exh1", [[a]], [[b]], [[0]])
    pairs2 = list(itertools.product(range(3), repeat=8))
    if quick:
        pairs2 = rng.sample(pairs2, 600)
    for e in pairs2:
        yield case("exh2", [[e[0], e[1]], [e[2], e[3]]], [[e[4], e[5]], [e[6], e[7]]], allp[2])
    for n in (3, 4):
        for _ in range(80 if quick else 400):
            hi = rng.choice([1, 2, 9, 100, 300, 70000])
            yield case(f"exh{n}", rand_matrix(rng, n, hi, rng.choice([0, 0.3])),
                       rand_matrix(rng, n, rng.choice([1, 3, 50, 1000]), rng.choice([0, 0.3])), allp[n])
    # (4) boundary: max(ub, entries) at every storage threshold -1/0/+1, reached three ways
    for thr in THRESHOLDS + (LIMIT, 2 ** 53, 2 ** 62, 2 ** 63, 2 ** 64 - 2):
        for delta in (-1, 0, 1):
            t = thr + delta
            if t >= U64:
                continue
            a = rng.randint(1, t - 1)
            # (i) ub = t, every entry below t
            yield case("thr_ub", [[0, a], [t - a, 0]], [[0, 1], [1, 0]], allp[2])
            # (ii) all-zero flows (ub = 0), largest distance = t   /  all-zero distances, largest flow = t
            yield case("thr_zero_flows", [[0, t], [a, 0]], [[0, 0], [0, 0]], allp[2])
            yield case("thr_zero_dists", [[0, 0], [0, 0]], [[3, a], [t, 0]], allp[2])
            # (iii) a user-supplied upper bound below the largest entry
            yield case("thr_given_ub", [[0, t], [0, 0]], [[0, 1], [0, 0]], allp[2], None, rng.choice([0, 3, 126]))
            yield case("thr_given_ub", [[a % 7, 1], [0, 2]], [[0, t], [0, 0]], allp[2], 0, 5)
            # n = 3, ub = t exactly: one flow 1 in a matrix of zeros plus a spread
            if t >= 6:
                b, c = rng.randint(1, t // 3), rng.randint(1, t // 3)
                D = [[0, b, 0], [c, 0, 0], [0, t - b - c, 0]]
                F = [[0, 1, 1], [1, 0, 0], [0, 0, 0]]
                yield case("thr_ub3", D, F, perms_of(rng, 3, 3))
    # products / sums that leave uint64 or int64 (outside the property's domain; the model wraps like the code)
    for _ in range(12 if quick else 100):
        n = rng.choice([1, 2, 3])
        yield case("overflow", rand_matrix(rng, n, rng.choice([2 ** 32, 2 ** 40, LIMIT, 2 ** 62])),
                   rand_matrix(rng, n, rng.choice([2 ** 31, 2 ** 33, LIMIT])), perms_of(rng, n, 2))
    # negative entries (outside the property; the constructor accepts them)
    for _ in range(6 if quick else 40):
        n = rng.choice([1, 2, 3])
        D = rand_matrix(rng, n, 9)
        D[rng.randrange(n)][rng.randrange(n)] = -rng.randint(1, 5)
        yield case("negative", D, rand_matrix(rng, n, 3), perms_of(rng, n, 2))
    # given bounds: valid, equal, crossing, out of range
    base_d, base_f = [[0, 1, 2], [3, 0, 4], [5, 6, 0]], [[0, 95, 86], [23, 0, 55], [24, 43, 0]]
    for lb, ub in ((None, None), (0, None), (160, 1420), (161, None), (None, 1419), (500, 500), (1421, None), (None, 159),
                   (800, 700), (-1, None), (None, -1), (LIMIT, None), (None, LIMIT), (LIMIT + 1, None),
                   (None, LIMIT + 1), (0, 0)):
        yield case("given_bounds", base_d, base_f, allp[3][:3], lb, ub)
    # shape errors
    yield case("shape", [[0, 1, 2], [3, 4, 5]], [[0, 1, 2], [3, 4, 5]], [])
    yield case("shape", [[0, 1], [2, 3]], [[0, 1, 2], [3, 4, 5], [6, 7, 8]], [])
    yield case("shape", [[0, 1], [2, 3]], [[1]], [])
    # (3) structured random
    for _ in range(400 if quick else 3000):
        n = rng.choice([2, 3, 5, 6, 8, 12, 20, 30] if quick else [2, 3, 5, 6, 8, 12, 20, 30, 45, 60])
        hi_d = rng.choice([1, 5, 100, 127, 255, 1000, 40000, 10 ** 6, 10 ** 9])
        hi_f = rng.choice([1, 3, 10, 100, 1000, 10 ** 5])
        D = rand_matrix(rng, n, hi_d, rng.choice([0, 0, 0.5, 0.9]), rng.random() < 0.5)
        F = rand_matrix(rng, n, hi_f, rng.choice([0, 0, 0.5, 0.9]), rng.random() < 0.5)
        k = rng.random()
        if k < 0.06:
            F = [[0] * n for _ in range(n)]
        elif k < 0.12:
            D = [[0] * n for _ in range(n)]
        lb = ub = None
        if rng.random() < 0.15:
            l0, u0 = py_bounds(D, F)
            if u0 <= LIMIT:
                lb = rng.choice([None, 0, l0, rng.randint(0, max(l0, 1))])
                ub = rng.choice([None, u0, rng.randint(l0, u0), LIMIT])
        dt = rng.choice([None, None, "uint64", "small"])
        yield case("random", D, F, perms_of(rng, n, 3), lb, ub, dt)
    # index arrays that are no permutations: repeated, negative (numpy wrap), too short; outside the arrays only when
    # numba checks bounds (C13 re-runs this stream with NUMBA_BOUNDSCHECK=1)
    for _ in range(25 if quick else 200):
        n = rng.randint(1, 5)
        D, F = rand_matrix(rng, n, 9), rand_matrix(rng, n, 9)
        xs = [[rng.randint(0, n - 1) for _ in range(n)], [rng.randint(-n, n - 1) for _ in range(n)],
              [rng.randint(0, n - 1) for _ in range(rng.randint(0, n))]]
        if BOUNDSCHECK:
            xs += [[rng.randint(-n - 2, n + 1) for _ in range(n)], [rng.randint(0, n - 1) for _ in range(n + 1)],
                   [n] + list(range(1, n)), [-n - 1] + list(range(1, n))]
        yield case("nonperm", D, F, xs)


def small_dtype(M):
    import numpy as np
    m = max((v for r in M for v in r), default=0)
    lo = min((v for r in M for v in r), default=0)
    for dt in (np.int8, np.uint8, np.int16, np.uint16, np.int32, np.uint32, np.int64, np.uint64):
        ii = np.iinfo(dt)
        if ii.min <= lo and m <= ii.max:
            return dt
    return None


# --------------------------------------------------------------------------- generators: QAPLIB texts
def tok_str(rng, v: int, fancy: bool) -> str:
    if not fancy or rng.random() < 0.8:
        return str(v)
    k = rng.random()
    if k < 0.3:
        return "+" + str(v)
    if k < 0.6:
        return "0" * rng.randint(1, 3) + str(v)
    s = str(v)
    if len(s) >= 2:
        i = rng.randint(1, len(s) - 1)
        return s[:i] + "_" + s[i:]
    return "-0" if v == 0 else s


def render_line(rng, toks, messy: bool) -> str:
    if not messy:
        return " ".join(toks)
    out = [rng.choice(("", "", " ", "\t", "  "))]
    for i, t in enumerate(toks):
        out.append(t)
        if i + 1 < len(toks):
            out.append("".join(rng.choice(SEPS) for _ in range(rng.choice((1, 1, 1, 2)))))
    out.append(rng.choice(("", "", " ", "\t ", "\n", "\r\n", " \n")))
    return "".join(out)


def chunks(rng, toks, mean):
    out, i = [], 0
    while i < len(toks):
        k = max(1, int(rng.expovariate(1.0 / mean)) + 1) if mean > 1 else 1
        out.append(toks[i:i + k])
        i += k
    return out


def sprinkle_blanks(rng, lines, p):
    out = []
    for l in lines:
        while rng.random() < p:
            out.append(rng.choice(("", " ", "\t", "\n", " \x0c ")))
        out.append(l)
    while rng.random() < p:
        out.append(rng.choice(("", "  ")))
    return out


def wrap_good(rng, n, F, D, messy=True, fancy=False, trailing=None):
    """a wrapping of the kind the format allows: n alone, flows and distances never share a line"""
    ts = lambda vs: [tok_str(rng, v, fancy) for v in vs]
    mean = rng.choice((1, 3, n, n, 2 * n + 1, n * n))
    rows = [[tok_str(rng, n, fancy)]] + chunks(rng, ts(F), mean) + chunks(rng, ts(D), rng.choice((mean, n)))
    lines = [render_line(rng, r, messy) for r in rows]
    lines = sprinkle_blanks(rng, lines, 0.25 if messy else 0.0)
    if trailing:
        lines += trailing
    return lines


def wrap_tokens(rng, toks, cuts, messy=True):
    """wrap a token sequence into lines at the given cut positions (a set of indices 1..len-1)"""
    rows, cur = [], []
    for i, t in enumerate(toks):
        if i in cuts and cur:
            rows.append(cur)
            cur = []
        cur.append(t)
    if cur:
        rows.append(cur)
    return [render_line(rng, r, messy) for r in rows]


def is_good_cuts(n, cuts, total):
    """first line = [n] exactly and no line straddles the flows/distances boundary"""
    return 1 in cuts and (1 + n * n) in cuts and total == 1 + 2 * n * n


def py_listed(lines):
    """the leading run of integer tokens of a text, in reading order"""
    out = []
    for l in lines:
        for t in l.split():
            try:
                out.append(int(t))
            except ValueError:
                return out
    return out


def gen_loader_cases(ck: Check):
    """Yield dicts: stream, lines, lb, ub, expect ('good' -> must load (n,F,D) | 'bad' -> anything but a different
    instance | None -> no expectation), n, F, D."""
    rng = ck.rng
    quick = ck.quick

    def case(stream, lines, expect=None, n=None, F=None, D=None, lb=None, ub=None):
        return {"stream": stream, "lines": lines, "expect": expect, "n": n, "F": F, "D": D, "lb": lb, "ub": ub}

    # the doctest
    yield case("doctest", ["4", "", "1 2 3 4 5 6 7 8 9 10 11 12 13", "   14    15   16  ", "",
                           "17 18 19 20 21 22 23 24 25 26     27", " 28   29 30 31   32"], "good", 4,
               list(range(1, 17)), list(range(17, 33)))
    # (2) exhaustive: every wrapping (composition) of the 3 tokens of an n=1 text and of the 9 tokens of an n=2 text
    for n, reps in ((1, 4), (2, 1 if quick else 4)):
        for _ in range(reps):
            F = [rng.randint(0, 20) for _ in range(n * n)]
            D = [rng.randint(0, 300) for _ in range(n * n)]
            toks = [str(v) for v in [n] + F + D]
            m = len(toks)
            for mask in range(2 ** (m - 1)):
                cuts = {i + 1 for i in range(m - 1) if mask >> i & 1}
                lines = wrap_tokens(rng, toks, cuts, messy=rng.random() < 0.5)
                if rng.random() < 0.3:
                    lines = sprinkle_blanks(rng, lines, 0.3)
                yield case(f"allwrap{n}", lines, "good" if is_good_cuts(n, cuts, m) else "bad", n, F, D)
    # (3) random good wrappings, messy separators, fancy integer spellings, trailing lines after the last distance
    for _ in range(300 if quick else 2500):
        n = rng.choice([1, 2, 3, 4, 5, 7, 10] if quick else [1, 2, 3, 4, 5, 7, 10, 16, 25])
        hi = rng.choice([1, 9, 100, 127, 300, 70000, 10 ** 6, 10 ** 9])
        F = [0] * (n * n) if rng.random() < 0.08 else [rng.randint(0, rng.choice([1, 9, 100])) for _ in range(n * n)]
        D = [rng.randint(0, hi) for _ in range(n * n)]
        trailing = rng.choice([None, None, None, None, ["garbage !"], ["", "1 2 3"], ["EOF", "-5"], ["3.5"]])
        lb = ub = None
        if rng.random() < 0.15:
            ub = rng.choice([0, 5, LIMIT, LIMIT + 1])
            lb = rng.choice([None, 0, -1])
        # text after the last distance line is ignored by the code; whether it must be is not part of the property, so
        # such texts are compared with the model and checked by `loader_matrices`, but not required to load
        yield case("good_trailing" if trailing else "good", wrap_good(rng, n, F, D, rng.random() < 0.8, rng.random() < 0.4,
                                                                      trailing), None if trailing else "good", n, F, D, lb, ub)
    # (3a) single large entries, up to just below the 10^15 limit, against a sparse partner matrix (the trivial upper bound
    # stays below the limit): the loader's token range is the instance's value range (found missing by seeded change
    # C09-loader-token-limit-1e12)
    for v in (10 ** 9 + 1, 10 ** 12 - 1, 10 ** 12, 10 ** 12 + 1, 5 * 10 ** 13, 9 * 10 ** 14):
        for n in (2, 3):
            for big_in_flows in (False, True):
                A = [0] * (n * n)
                B = [0] * (n * n)
                A[rng.choice([k for k in range(n * n) if k % (n + 1)])] = v          # one off-diagonal entry
                B[rng.choice([k for k in range(n * n) if k % (n + 1)])] = 1
                F, D = (A, B) if big_in_flows else (B, A)
                yield case("good_big", wrap_good(rng, n, F, D, rng.random() < 0.5, False, None), "good", n, F, D)
    # (3b) random bad wrappings of the same tokens: straddling line, n not alone, both
    for _ in range(200 if quick else 1500):
        n = rng.choice([1, 2, 3, 4, 6])
        F = [rng.randint(0, 9) for _ in range(n * n)]
        D = [rng.randint(0, 99) for _ in range(n * n)]
        toks = [str(v) for v in [n] + F + D]
        m = len(toks)
        cuts = {i for i in range(1, m) if rng.random() < rng.choice((0.1, 0.3, 0.6))}
        kind = rng.choice(("straddle", "n_not_alone", "any"))
        if kind == "straddle":
            cuts.add(1)
            cuts.discard(1 + n * n)
        elif kind == "n_not_alone":
            cuts.discard(1)
            cuts.add(1 + n * n)
        yield case("rewrap_" + kind, sprinkle_blanks(rng, wrap_tokens(rng, toks, cuts), 0.15),
                   "good" if is_good_cuts(n, cuts, m) else "bad", n, F, D)
    # (5) malformed texts
    good = lambda n, F, D: [str(n)] + [" ".join(map(str, F))] + [" ".join(map(str, D))]
    F2, D2 = [1, 2, 3, 4], [5, 6, 7, 8]
    mal = [
        [], [""], [" ", "\t"], ["2"], ["2", "1 2 3"], ["2", "1 2 3 4"], ["2", "1 2 3 4", "5 6 7"],
        ["2", "1 2 3 4", "5 6 7 8 9"],               # one value too many on the last distance line
        ["2", "1 2 3 4 5", "6 7 8 9"],               # one flow too many
        ["2", "1 2 3", "4 5", "6 7 8"],              # straddling line
        ["2 1", "2 3 4", "5 6 7 8"], ["2 1 2 3 4", "5 6 7 8"],
        ["0"], ["0", "", ""], ["-1", "1", "1"], ["1000001", "1", "1"], ["1000000", "1", "1"],
        ["2.0"] + good(2, F2, D2)[1:], ["2e0"] + good(2, F2, D2)[1:], ["0x2"] + good(2, F2, D2)[1:],
        ["+2"] + good(2, F2, D2)[1:], ["02"] + good(2, F2, D2)[1:], ["0_2"] + good(2, F2, D2)[1:],
        ["_2"] + good(2, F2, D2)[1:], ["2_"] + good(2, F2, D2)[1:], ["2__0"], ["+"], ["-"], ["+-2"], ["--2"],
        ["2", "1 2 x 4", "5 6 7 8"], ["2", "1 2 -3 4", "5 6 7 8"], ["2", "1 2 3.0 4", "5 6 7 8"],
        ["2", "1 2 3 4", "5 6 7 1e3"], ["2", f"1 2 3 {LIMIT}", "5 6 7 8"], ["2", f"1 2 3 {LIMIT + 1}", "5 6 7 8"],
        ["2", "1 2 3 4", f"5 6 7 {LIMIT + 1}"], ["2", "1_0 2 3 4", "5 6 7 +8"], ["2", "1__0 2 3 4", "5 6 7 8"],
        ["2", "1 2 3 4", "5 6 7 -0"], ["2", "1 2 3 4", "5 6 7 8", "x y z"], ["2", "1 2 3 4", "5 6 7 8 x"],
        ["2", "1 2 3 4 x", "5 6 7 8"], ["1", "7", "9"], ["1", "7 9"], ["1 7", "9"], ["1", "", "7", "", "9", "", "11"],
        ["2\n", "1 2\n", "3 4\n", "\n", "5 6\n", "7 8\n"], ["2\r\n", "1 2 3 4\r\n", "5 6 7 8\r\n"],
        ["2", "1 2\n3 4", "5 6\x0b7 8"],              # whitespace characters inside one stream element
        ["1", f"{LIMIT}", f"{LIMIT}"], ["1", "0", f"{LIMIT}"], ["2", "0 0 0 0", "0 300 70000 0"],
        ["2", "0 1 1 0", "0 300 70000 0"], ["\x1c2\x1f", "1\x1d2\x1e3 4", "5 6 7 8"],
    ]
    for lines in mal:
        yield case("malformed", lines)
    yield case("malformed", ["2", "0 1 0 0", "0 70000 0 0"], None, None, None, None, None, 5)
    yield case("malformed", ["2", "0 1 0 0", "0 70000 0 0"], None, None, None, None, 6, 5)
    yield case("malformed", ["2", "0 1 0 0", "0 70000 0 0"], None, None, None, None, None, -1)
    # random corruption of a good text: drop / duplicate / replace a token, join two lines, split a line
    for _ in range(150 if quick else 1200):
        n = rng.choice([1, 2, 3])
        F = [rng.randint(0, 9) for _ in range(n * n)]
        D = [rng.randint(0, 99) for _ in range(n * n)]
        rows = [[str(n)]] + chunks(rng, [str(v) for v in F], n) + chunks(rng, [str(v) for v in D], n)
        k = rng.choice(("drop", "dup", "junk", "join", "neg", "big"))
        i = rng.randrange(len(rows))
        j = rng.randrange(len(rows[i]))
        if k == "drop":
            del rows[i][j]
        elif k == "dup":
            rows[i].insert(j, rows[i][j])
        elif k == "junk":
            rows[i][j] = rng.choice(("x", "1.5", "1e2", "--1", "", "n"))
        elif k == "join" and i + 1 < len(rows):
            rows[i:i + 2] = [rows[i] + rows[i + 1]]
        elif k == "neg":
            rows[i][j] = "-" + rows[i][j]
        elif k == "big":
            rows[i][j] = str(LIMIT + rng.randint(0, 1))
        yield case("corrupt_" + k, [render_line(rng, r, True) for r in rows])


def shipped_cases(ck: Check):
    """the QAPLIB resources: original text, and re-wrappings (good and straddling) of its tokens"""
    from moptipyapps.qap.instance import Instance
    from moptipyapps.qap.qaplib import open_resource_stream
    rng = ck.rng
    lim = 20 if ck.quick else 64
    for nm in Instance.list_resources():
        with open_resource_stream(f"{nm}.dat") as st:
            lines = list(st)
        toks = " ".join(lines).split()
        n = int(toks[0])
        if n > lim:
            continue
        if ck.quick and rng.random() < 0.5:
            continue
        vals = [int(t) for t in toks]
        F, D = vals[1:1 + n * n], vals[1 + n * n:1 + 2 * n * n]
        yield {"stream": "shipped_text", "name": nm, "lines": lines, "expect": "good", "n": n, "F": F, "D": D,
               "lb": None, "ub": None}
        yield {"stream": "shipped_rewrap", "name": nm, "lines": wrap_good(rng, n, F, D, True, rng.random() < 0.3),
               "expect": "good", "n": n, "F": F, "D": D, "lb": None, "ub": None}
        m = 1 + 2 * n * n
        cuts = {i for i in range(1, m) if rng.random() < 1.0 / n} | {1}
        cuts.discard(1 + n * n)
        yield {"stream": "shipped_straddle", "name": nm, "lines": wrap_tokens(rng, toks[:m], cuts), "expect": "bad",
               "n": n, "F": F, "D": D, "lb": None, "ub": None}


# --------------------------------------------------------------------------- the streams
def in_domain(D, F):
    """the property's domain: non-negative matrices"""
    return all(v >= 0 for r in D for v in r) and all(v >= 0 for r in F for v in r)


def brief(M):
    return M if len(M) <= 8 else f"<{len(M)}x{len(M)} matrix>"


def streams(ck: Check) -> None:
    """Correspondence (B) and spec oracle (C)."""
    import numpy as np
    from moptipyapps.qap.instance import Instance
    ops, ctx = [], []

    def emit(line, kind, stream, impl_out, extra=None, nontrivial=True):
        ops.append(line)
        ctx.append((kind, stream, impl_out, extra))
        ck.case(line, nontrivial=nontrivial)

    # ---- constructor, bounds kernel, objective kernel
    for c in gen_eval_cases(ck):
        D, F, stream = c["D"], c["F"], c["stream"]
        ck.count(stream)
        n = len(D)
        rect = any(len(r) != n for r in D) or len(F) != n or any(len(r) != n for r in F)
        if rect:
            Da, Fa = np.array(D, dtype=np.int64), np.array(F, dtype=np.int64)
        else:
            dt = c["dt"]
            if dt == "uint64" and in_domain(D, F):
                Da, Fa = np_of(D, np.uint64), np_of(F, np.uint64)
            elif dt == "small":
                Da, Fa = np_of(D, small_dtype(D + F)), np_of(F, small_dtype(D + F))
            else:
                Da, Fa = np_of(D), np_of(F)
        if not rect and n > 0:
            # same values, another memory layout (Fortran order / a transposed or strided view): instances and bounds are
            # functions of the VALUES (found missing for the TSP constructor by seeded change C05-ravel-memory-order)
            lay_d, lay_f = ck.rng.choice(("C", "C", "F", "T", "S")), ck.rng.choice(("C", "C", "F", "T", "S"))
            Da, Fa = relayout(Da, lay_d), relayout(Fa, lay_f)
            ck.count(f"layout_{lay_d}{lay_f}")
        dom = (not rect) and in_domain(D, F)
        bz = None
        if not rect:
            lb0, ub0 = impl_bounds(Da, Fa)
            emit(f"qapB {fmt_matrix(D)} ; {fmt_matrix(F)}", "qapB", stream, f"lb={lb0} ub={ub0}",
                 {"D": D, "F": F, "dom": dom})
        inst, iout = impl_instance(Da, Fa, c["lb"], c["ub"])
        emit(f"qapI {opt(c['lb'])} {opt(c['ub'])} ; {fmt_matrix(D)} ; {fmt_matrix(F)}", "qapI", stream, iout,
             {"D": D, "F": F, "dom": dom, "inst": inst, "lb": c["lb"], "ub": c["ub"]}, nontrivial=inst is not None)
        ck.count("ctor_ok" if inst is not None else "ctor_err")
        if inst is not None:
            ck.count(f"dtype_{inst.distances.dtype}")
            # C: the stored matrices are the given ones (Lean `stored_matrices_exact`), both in the same type that holds them
            if dom:
                ck.spec(inst.distances.tolist() == D and inst.flows.tolist() == F, "stored",
                        f"stored matrices differ from the given ones (dtype {inst.distances.dtype}): "
                        f"dists={inst.distances.tolist()} flows={inst.flows.tolist()}",
                        {"D": brief(D), "F": brief(F), "lb": c["lb"], "ub": c["ub"]})
            ck.spec(inst.distances.dtype == inst.flows.dtype, "dtype_same", "flows and distances stored in different types",
                    {"D": brief(D), "F": brief(F)})
        xs = [x for x in c["xs"]]
        if xs and not rect:
            # the kernel on the given arrays (any input dtype) and through the instance (stored arrays)
            raw = ",".join(impl_eval(Da, Fa, x) for x in xs)
            emit(f"qapE {fmt_matrix(F)} ; {fmt_matrix(D)} ; " + " ; ".join(fmt_ints(x) for x in xs), "qapE", stream, raw,
                 {"D": D, "F": F, "xs": xs, "dom": dom, "inst": None, "given": False})
            if inst is not None:
                xdt = np.int64
                if ck.rng.random() < 0.3 and all(0 <= v < 127 for x in xs for v in x):
                    xdt = np.int8     # the dtype moptipy's Permutations space uses for small n
                via = ",".join(impl_eval_inst(inst, x, xdt) for x in xs)
                sD, sF = inst.distances.tolist(), inst.flows.tolist()
                # (a) the Lean double sum on the GIVEN matrices against what the instance's objective returns
                emit(f"qapE {fmt_matrix(F)} ; {fmt_matrix(D)} ; " + " ; ".join(fmt_ints(x) for x in xs), "qapE",
                     stream + ":inst", via, {"D": D, "F": F, "xs": xs, "dom": dom, "inst": inst,
                                             "given": c["lb"] is not None or c["ub"] is not None})
                # (b) and on the STORED matrices
                if sD != D or sF != F:
                    emit(f"qapE {fmt_matrix(sF)} ; {fmt_matrix(sD)} ; " + " ; ".join(fmt_ints(x) for x in xs), "qapE",
                         stream + ":stored", via, {"D": sD, "F": sF, "xs": xs, "dom": False, "inst": None, "given": False})

    # ---- raw kernel in every storage type with values around 2^53 and 2^63 (accumulator exactness)
    for dtn in ("int8", "uint8", "int16", "uint16", "int32", "uint32", "int64", "uint64"):
        dt = np.dtype(dtn).type
        hi = int(np.iinfo(dt).max)
        for big in sorted({min(hi, v) for v in (100, hi, 2 ** 53 - 1, 2 ** 53, 2 ** 53 + 1, 2 ** 62, 2 ** 63 - 2)}):
            for one in (1, min(hi, 3)):
                D, F = [[0, big], [one, 0]], [[0, 1], [one, 0]]
                ck.count("kernel_" + dtn)
                xs = [[0, 1], [1, 0]]
                raw = ",".join(impl_eval(np.array(D, dtype=dt), np.array(F, dtype=dt), x) for x in xs)
                emit(f"qapE {fmt_matrix(F)} ; {fmt_matrix(D)} ; " + " ; ".join(fmt_ints(x) for x in xs), "qapE",
                     "kernel_dtypes", raw, {"D": D, "F": F, "xs": xs, "dom": True, "inst": None, "given": False})

    # ---- shipped instances through the public API with a few permutations
    names = Instance.list_resources()
    shipped_fail = []     # reported after the generated (small) cases so that those come first in a replay
    lim = 30 if ck.quick else 100
    picked = 0
    for nm in names:
        n = int("".join(ch for ch in nm if ch.isdigit()) or 0)
        if n > lim or (ck.quick and picked >= 12 and nm not in ("bur26a", "nug12", "tai12a")):
            continue
        picked += 1
        try:
            inst = Instance.from_resource(nm)
        except (ValueError, TypeError) as err:
            # C: a shipped QAPLIB text lists n, the flows and the distances on separate lines
            shipped_fail.append((nm, f"from_resource({nm!r}) raised {type(err).__name__}: {err}"))
            continue
        shipped_fail.append((nm, None))
        D, F = inst.distances.tolist(), inst.flows.tolist()
        xs = [list(range(inst.n))] + perms_of(ck.rng, inst.n, 2)
        if nm == "bur26a":
            xs.append([25, 14, 10, 6, 3, 11, 12, 1, 5, 17, 0, 4, 8, 20, 7, 13, 2, 19, 18, 24, 16, 9, 15, 23, 22, 21])
        if nm == "nug12":
            xs.append([11, 6, 8, 2, 3, 7, 10, 0, 4, 5, 9, 1])
        if nm == "tai12a":
            xs.append([7, 0, 5, 1, 10, 9, 2, 4, 8, 6, 11, 3])
        ck.count("shipped_eval")
        from moptipy.spaces.permutations import Permutations
        xdt = Permutations.standard(inst.n).dtype
        via = ",".join(impl_eval_inst(inst, x, xdt) for x in xs)
        emit(f"qapE {fmt_matrix(F)} ; {fmt_matrix(D)} ; " + " ; ".join(fmt_ints(x) for x in xs), "qapE", "shipped:" + nm,
             via, {"D": D, "F": F, "xs": xs, "dom": True, "inst": inst, "given": True, "name": nm})

    # ---- loader
    for c in itertools.chain(gen_loader_cases(ck), shipped_cases(ck)):
        stream = c["stream"]
        ck.count(stream)
        lines = c["lines"]
        # both as a list of strings and (sometimes) as a real text stream cut at '\n' by Python
        if ck.rng.random() < 0.25 and all("\r" not in l for l in lines):
            import io
            lines = list(io.StringIO("\n".join(l.rstrip("\n") for l in lines) + "\n"))
            ck.count("loader_via_StringIO")
        inst, iout = impl_load(lines, c["lb"], c["ub"])
        ck.count("load_ok" if inst is not None else "load_err")
        enc = enc_lines(lines)
        emit(f"qapP {opt(c['lb'])} {opt(c['ub'])} {enc}", "qapP", stream, iout, dict(c, inst=inst, lines=lines),
             nontrivial=True)
        emit(f"qapV {enc}", "qapV", stream, None, dict(c, inst=inst, lines=lines), nontrivial=False)

    # ---- tokeniser on its own: what `str.split()` yields
    for _ in range(150 if ck.quick else 3000):
        k = ck.rng.randint(0, 6)
        toks = ["".join(ck.rng.choice("0123456789+-_xe.") for _ in range(ck.rng.randint(1, 4))) for _ in range(k)]
        line = render_line(ck.rng, toks, True)
        ck.count("tokens")
        emit(f"qapT [{esc(line)}]", "qapT", "tokens", "toks=" + "|".join(esc(t).replace(" ", "%20") for t in line.split()),
             {"line": line})

    outs = ck.model(ops)
    bounds_z = {}
    for line, (kind, stream, iout, ex), mout in zip(ops, ctx, outs):
        d = kv(mout)
        if kind == "qapB":
            ck.compare(stream, line, f"lb={d.get('lb')} ub={d.get('ub')}" if "lb" in d else mout, iout)
            if ex["dom"] and "ubZ" in d and int(d["ubZ"]) < U64:
                # C: the kernel returns the documented bounds (Lean `lowerZ`/`upperZ`)
                ck.spec(iout == f"lb={d['lbZ']} ub={d['ubZ']}", "bounds_doc",
                        f"trivial_bounds returned {iout}, documented bounds are lb={d['lbZ']} ub={d['ubZ']}",
                        {"D": brief(ex["D"]), "F": brief(ex["F"])})
            bounds_z[(str(ex["D"]), str(ex["F"]))] = (int(d.get("lbZ", 0)), int(d.get("ubZ", 0))) if "ubZ" in d else None
        elif kind == "qapI":
            ck.compare(stream, line, mout, iout)
        elif kind == "qapE":
            ck.compare(stream, line, d.get("val", mout), iout)
            xs, vals = ex["xs"], iout.split(",")
            specs, perms = d.get("spec", "").split(","), d.get("perm", "").split(",")
            bz = bounds_z.get((str(ex["D"]), str(ex["F"])))
            inst = ex["inst"]
            for x, v, s, p in zip(xs, vals, specs, perms):
                if p != "true" or not ex["dom"] or v == "OOB":
                    continue
                # property domain: non-negative matrices whose trivial upper bound stays below 10^15
                # (shipped instances are all inside; raw-kernel cases use "sum < 2^63" instead)
                inside = (bz is not None and bz[1] < LIMIT) or stream.startswith("shipped") or \
                         (stream == "kernel_dtypes" and int(s) < 2 ** 63)
                if not inside:
                    ck.count("outside_domain")
                    continue
                # C: objective = the documented double sum (Lean `qapSpec`, evaluated by the driver)
                ck.spec(v == s, "double_sum", f"objective={v} but sum_ij F[i,j]*D[p(i),p(j)]={s}",
                        {"D": brief(ex["D"]), "F": brief(ex["F"]), "x": x, "stream": stream})
                if inst is not None and (not ex["given"] or stream.startswith("shipped")):
                    ck.spec(inst.lower_bound <= int(v) <= inst.upper_bound, "bounds",
                            f"objective {v} outside [{inst.lower_bound},{inst.upper_bound}]",
                            {"D": brief(ex["D"]), "F": brief(ex["F"]), "x": x, "stream": stream})
        elif kind == "qapP":
            ck.compare(stream, line, mout, iout)
        elif kind == "qapV":
            inst, exp = ex["inst"], ex["expect"]
            listed = None if d.get("vals", "none") in ("none", "") else [int(t) for t in d["vals"].split(",")]
            # C: whatever the loader returns is what the text lists: n, then n*n flows, then n*n distances
            if inst is not None:
                n = inst.n
                ok = False
                src = listed
                if src is None:
                    src = py_listed(ex["lines"])            # text with trailing non-numeric lines: the numeric prefix
                if src is not None and len(src) >= 1 + 2 * n * n and src[0] == n:
                    Fl = src[1:1 + n * n]
                    Dl = src[1 + n * n:1 + 2 * n * n]
                    ok = (inst.flows.reshape(-1).tolist() == Fl and inst.distances.reshape(-1).tolist() == Dl)
                if src is not None:
                    ck.spec(ok, "loader_matrices", f"loader returned n={n} flows={inst.flows.tolist()} "
                            f"dists={inst.distances.tolist()} which is not what the text lists",
                            {"lines": ex["lines"][:40], "stream": stream})
            if exp == "good" and ex["lb"] is None and ex["ub"] is None:
                if listed is not None:
                    ck.spec(listed[:1 + 2 * ex["n"] ** 2] == [ex["n"]] + ex["F"] + ex["D"], "harness_listed",
                            "harness and Lean spec disagree about the values of a generated text", {"lines": ex["lines"][:40]})
                ck.spec(inst is not None, "loader_rejects_good",
                        "loader raised on a text that lists n, the flows and the distances on separate lines",
                        {"lines": ex["lines"][:40], "stream": stream})
            if exp == "bad":
                ck.count("bad_wrapping_rejected" if inst is None else "bad_wrapping_ACCEPTED")
        elif kind == "qapT":
            ck.compare(stream, line, mout, iout)
    for nm, what in shipped_fail:
        ck.spec(what is None, "shipped_load", what or "", {"name": nm})


def check(ck: Check) -> None:
    ck.rule = ("exhaustive small scope (n<=1 all, 2x2 matrix pairs over {0,1,2}, all permutations for n<=4; every wrapping of "
               "the tokens of n=1 and n=2 QAPLIB texts) + boundary stream (max(ub, entries) at every storage threshold -1/0/+1 "
               "reached via ub, via an entry with all-zero flows/distances, via a given upper bound below the largest entry; "
               "values around 2^53/2^63 in every storage type) + structured random (n<=30 quick / <=60 thorough, zero "
               "matrices, given bounds, input dtypes) + malformed stream (shape errors, bad bounds, non-permutations, "
               "corrupted/straddling/garbage QAPLIB texts) + shipped QAPLIB instances; a case is one protocol line; "
               "non-trivial = constructor/loader accepted or kernel evaluated; distinct by line hash")
    ck.assumptions += [
        "numba 0.60 compiles _evaluate as written: `result` is int64 for every storage type (also int64 += uint64), products "
        "in int64/uint64, negative index wrap; checked by this stream with values up to 2^63 in all 8 storage types",
        "numba/numpy: uint64 scratch arrays of trivial_bounds wrap modulo 2^64, ndarray.sort sorts (modelled by merge sort), "
        "int(uint64) is non-negative",
        "moptipy int_range_to_dtype behaves as modelled by Base.dtypeFor (checked at every threshold by this stream)",
        "ndarray.astype to the chosen integer type is the C conversion modelled by DType.wrap",
        "Python str.strip()/str.split() cut exactly at the ASCII whitespace characters of Qap.isWs and int(str) accepts exactly "
        "sign? digit ('_'? digit)* on blank-free ASCII tokens shorter than 4300 digits; non-ASCII text is outside the model",
        "pycommons check_int_range / check_to_int_range are range checks after int(); instance names (sanitize_name) and the "
        "resource cache of from_resource are outside the model",
    ]
    ck.not_proved += []
    ck.notes += [
        "numba 0.60.0 types `result` of _evaluate as int64 for all 8 storage types (inspect_types; `int64 += uint64` stays "
        "int64, no float64 accumulator): exact for sums < 2^63, verified at 2^53+1 .. 2^63-1 in the kernel_dtypes stream; "
        "partial_sums_exact additionally shows every partial sum < 2^53 when ub < 10^15",
        "outside the property's domain (not a finding): the constructor accepts negative entries and entries whose products "
        "overflow uint64 (QAPLIB values up to 10^15 each): trivial_bounds then wraps modulo 2^64 (e.g. D=[[2^62]], F=[[4]] gives "
        "lb=ub=0); the model wraps identically (streams `overflow`, `negative`)",
    ]
    modules, theorems = ["Props.C09"], list(THEOREMS)
    # tie between source and model: lean/Gen/QapEval.lean is regenerated from the CURRENT source of _evaluate and
    # Props/C09Gen.lean proves that the hand-written model `Qap.qapEval?` is its int64 wrap, for all inputs
    try:
        from .translate import loop2lean
        ck.gen_begin()   # released at the end of ck.lean
        loop2lean.emit_qap_eval(common.REPO, common.LEAN)
        modules.append("Props.C09Gen")
        theorems.append("C09Gen.evaluate_eq_model")
    except Exception as e:  # noqa: BLE001 - source outside the translatable subset: the obligation cannot be regenerated
        ck.proof_failures.append(f"translator loop2lean: _evaluate is not translatable, the theorem "
                                 f"C09Gen.evaluate_eq_model could not be re-checked against the source: {e!r}")
    ck.lean(modules, theorems)
    streams(ck)
