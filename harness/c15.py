"""C15 — game permutations decode to consistent earliest-slot schedules (DESIGN.md section 6)."""
from __future__ import annotations

import itertools

from . import common
from .common import Check, fmt_ints, kv

THEOREMS = [
    "GameEnc.searchSpace_domain",
    "GameEnc.searchSpace_codes",
    "GameEnc.searchSpace_length",
    "GameEnc.searchSpace_pairs",
    "GameEnc.searchSpace_pair_balance",
    "GameEnc.searchSpace_team_balance",
    "GameEnc.searchSpace_home_spread",
    "GameEnc.schedule_earliestSlot",
    "GameEnc.earliestSlot_unique",
    "GameEnc.mapGames_earliest_slot",
    "GameEnc.mapGames_stateless",
    "GameEnc.mapGames_result",
    "GameEnc.mapGames_consistent",
    "GameEnc.mapGames_noSelfPlay",
    "GameEnc.mapGames_oncePerDay",
    "GameEnc.mapGames_inRange",
    "GameEnc.mapGames_notMoreOften",
    "GameEnc.mapGames_noOOB",
    "GameEnc.mapGames_zdiv",
]

BP_KEYS = ("codes", "pairs", "pbal", "tbal", "spread", "len")
PLAN_KEYS = ("shape", "earliest", "cons", "noself", "range", "once", "count")
WHAT = {
    "codes": "blueprint contains a value that is no game code in 0..n(n-1)-1",
    "pairs": "some pairing does not occur exactly `rounds` times in the blueprint",
    "pbal": "home/away counts of some pairing differ by more than one",
    "tbal": "home/away counts of some team differ by more than one",
    "spread": "home counts of two teams differ by more than one",
    "len": "blueprint length is not rounds*n*(n-1)/2",
    "shape": "decoded plan has the wrong shape",
    "earliest": "decoded plan is not the earliest-slot schedule of the permutation",
    "cons": "decoded plan is not mutually consistent",
    "noself": "a team plays itself",
    "range": "plan entry outside -n..n",
    "once": "a team is listed as the opponent of two teams on one day",
    "count": "a game is scheduled more often than the permutation contains it",
}


# ------------------------------------------------------------------ implementation adapters
def impl_blueprint(n: int, rounds: int):
    from moptipyapps.ttp.game_encoding import search_space_for_n_and_rounds
    try:
        sp = search_space_for_n_and_rounds(n, rounds)
    except ValueError:
        return None, None
    return sp, [int(v) for v in sp.blueprint]


_INST = {}


def make_instance(n: int, rounds: int):
    """a real TTP Instance (even n only: the constructor rejects odd team counts)"""
    import numpy as np
    from moptipyapps.ttp.instance import Instance
    key = (n, rounds)
    if key not in _INST:
        m = np.zeros((n, n), dtype=np.int64)
        for i in range(n):
            for j in range(n):
                if i != j:
                    m[i, j] = 1 + ((i * 7 + j * 13) % 9) if i < j else 0
        m = m + m.T
        ll = rounds * n - 1
        _INST[key] = Instance(f"v{n}x{rounds}", m, [f"t{i}" for i in range(n)], rounds,
                              1, min(3, ll), 1, min(3, ll), 0, ll)
    return _INST[key]


def run_kernel(x, y) -> str | list[int]:
    """the raw kernel on numpy arrays; returns the flat plan or an error token"""
    from moptipyapps.ttp.game_encoding import map_games
    try:
        map_games(x, y)
    except ZeroDivisionError:
        return "ZDIV"
    except IndexError:
        return "OOB"
    return [int(v) for v in y.flatten()]


def run_encoding(inst, x, dirt) -> list[int]:
    """the real `GameEncoding.decode` on a real `GamePlan`"""
    import numpy as np
    from moptipyapps.ttp.game_encoding import GameEncoding
    from moptipyapps.ttp.game_plan import GamePlan
    enc = _ENC.get(id(inst))
    if enc is None:
        enc = _ENC[id(inst)] = GameEncoding(inst)
    plan = GamePlan(inst)
    np.asarray(plan).flat[:] = dirt
    try:
        enc.decode(x, plan)
    except ZeroDivisionError:
        return "ZDIV"
    except IndexError:
        return "OOB"
    return [int(v) for v in np.asarray(plan).flatten()]


_ENC = {}


def multiset_perms(ms):
    """all distinct permutations of a sorted multiset, lexicographic"""
    a = sorted(ms)
    n = len(a)
    while True:
        yield list(a)
        i = n - 2
        while i >= 0 and a[i] >= a[i + 1]:
            i -= 1
        if i < 0:
            return
        j = n - 1
        while a[j] <= a[i]:
            j -= 1
        a[i], a[j] = a[j], a[i]
        a[i + 1:] = reversed(a[i + 1:])


# ------------------------------------------------------------------ streams
def blueprint_stream(ck: Check) -> None:
    nmax_decl = 40
    nmax = 40 if ck.quick else 120
    cases = [(n, r) for n in range(2, nmax + 1) for r in range(1, 8)]
    # error branches of check_int_range and of the Permutations constructor, and larger round counts
    cases += [(2, 1), (1, 1), (1, 4), (0, 1), (0, 0), (2, 0), (3, 0), (7, 0), (100001, 1), (100001, 0),
              (2, 8), (2, 9), (2, 30), (3, 8), (3, 11), (4, 12), (5, 9), (6, 10), (7, 13), (9, 21), (12, 16)]
    ops, ctx = [], []
    for n, r in cases:
        sp, bp = impl_blueprint(n, r)
        line = f"ttpS {n} {r}"
        ops.append(line)
        ctx.append(("B", n, r, "ERR" if bp is None else "bp=" + ",".join(map(str, bp))))
        ck.case(line, nontrivial=bp is not None)
        ck.count("bp_ok" if bp is not None else "bp_err")
        ck.count("bp_n_even" if n % 2 == 0 else "bp_n_odd")
        if bp is None:
            continue
        # the real GameEncoding.search_space() on a real Instance (even n, rounds <= 100) must agree
        if n % 2 == 0 and n <= 16 and r <= 100:
            from moptipyapps.ttp.game_encoding import GameEncoding
            bp2 = [int(v) for v in GameEncoding(make_instance(n, r)).search_space().blueprint]
            ck.compare("blueprint-encoding-object", line, ",".join(map(str, bp)), ",".join(map(str, bp2)))
            ck.count("bp_via_GameEncoding")
        if n <= nmax_decl:
            ops.append(f"ttpSspec {n} {r} ; {fmt_ints(bp)}")
            ctx.append(("C", n, r, "declarative"))
        if n > nmax_decl or n <= 12:
            ops.append(f"ttpSfast {n} {r} ; {fmt_ints(bp)}")
            ctx.append(("C", n, r, "tally"))
    outs = ck.model(ops)
    for line, (kind, n, r, info), mout in zip(ops, ctx, outs):
        if kind == "B":
            ck.compare("blueprint", line, mout, info)
            continue
        d = kv(mout)
        ck.count(f"bp_spec_{info}")
        for k in BP_KEYS:
            ck.spec(d.get(k) == "true", "bp_" + k, f"n={n} rounds={r}: {WHAT[k]} ({info} evaluation)",
                    {"n": n, "rounds": r})


def decode_cases(ck: Check):
    """yield (stream, n, rounds|None, days, x (list), xdtype, dirt (flat list), use_encoding)"""
    import numpy as np
    from moptipy.utils.nputils import int_range_to_dtype
    rng = ck.rng

    def dirt_for(days, n, kind):
        dt = np.dtype(int_range_to_dtype(-n, n)) if n > 0 else np.dtype(np.int8)
        info = np.iinfo(dt)
        if kind == 0:
            return [0] * (days * n)
        if kind == 1:   # plausible stale plan entries
            return [rng.randint(-n, n) for _ in range(days * n)]
        return [rng.randint(info.min, info.max) for _ in range(days * n)]

    # (2) exhaustive: all distinct permutations of the game multiset with at most 8 games
    small = [(2, r) for r in range(2, 9)] + [(3, 1), (3, 2), (4, 1)]
    for n, r in small:
        sp, bp = impl_blueprint(n, r)
        assert bp is not None and len(bp) <= 8
        days = (n - 1) * r
        for x in multiset_perms(bp):
            yield "exhaustive", n, r, days, x, sp.dtype, dirt_for(days, n, rng.randint(0, 2)), (n % 2 == 0)
        # the same permutations with too few / too many days (raw kernel)
        for dd in sorted({0, 1, days - 1, days + 2}):
            if dd < 0:
                continue
            for x in (list(multiset_perms(bp)) if len(bp) <= 6 else [rng.sample(bp, len(bp)) for _ in range(40)]):
                yield "exhaustive-days", n, r, dd, x, sp.dtype, dirt_for(dd, n, rng.randint(0, 2)), False
    # (4) boundary: degenerate shapes, empty permutations, arbitrary and out-of-range codes
    for days, n in [(0, 0), (3, 0), (0, 1), (3, 1), (0, 2), (1, 2), (0, 5), (4, 3)]:
        for x in ([], [0], [1, 0], [5, -3, 100], [-1], [10**12, -10**12, 7]):
            yield "boundary-shape", n, None, days, x, np.int64, dirt_for(days, n, 1), False
    for _ in range(60 if ck.quick else 600):
        n = rng.randint(2, 9)
        days = rng.randint(0, 2 * n)
        m = rng.randint(0, 3 * n)
        hi = n * (n - 1) - 1
        mode = rng.randint(0, 2)
        if mode == 0:      # valid codes, arbitrary multiplicities (not a point of the search space)
            x = [rng.randint(0, hi) for _ in range(m)]
        elif mode == 1:    # around the ends of the code range
            x = [rng.choice([-1, 0, 1, hi - 1, hi, hi + 1, n - 1, n - 2, n]) for _ in range(m)]
        else:              # any int64
            x = [rng.choice([rng.randint(-50, 3 * hi), rng.randint(-2**62, 2**62)]) for _ in range(m)]
        yield "boundary-codes", n, None, days, x, np.int64, dirt_for(days, n, rng.randint(0, 2)), False
    # long seasons: the number of days (and of games) exceeds the range of the integer type that stores the PLAN
    # (chosen from -n..n only), e.g. int8 plans with >= 128 or >= 256 days; found missing by seeded change C15-int8-days
    long_seasons = [(2, 127), (2, 128), (2, 129), (2, 255), (2, 256), (2, 300), (3, 64), (3, 65), (4, 43), (4, 86),
                    (6, 26), (8, 19)]
    if not ck.quick:    # larger n: the list-based model needs O(games * days * n) steps
        long_seasons += [(5, 64), (10, 29), (20, 14), (2, 1000)]
    for n, r in long_seasons:
        sp, bp = impl_blueprint(n, r)
        days = (n - 1) * r
        for mode in range(2 if ck.quick and n > 8 else 3):
            x = list(bp)
            if mode == 1:
                rng.shuffle(x)
            elif mode == 2:
                x.reverse()
            yield "long-season", n, r, days, x, sp.dtype, dirt_for(days, n, rng.randint(0, 2)), (n % 2 == 0 and n <= 16 and r <= 100)
    # many teams: team indices beyond the width of a machine word / of the small integer types (64, 65, 127, 128, ...);
    # one round, shuffled blueprint (found missing by seeded change C15-busy-bitset-64)
    for n in ((63, 64, 65, 66) if ck.quick else (63, 64, 65, 66, 70, 96, 127, 128, 129, 130)):
        sp, bp = impl_blueprint(n, 1)
        days = n - 1
        for mode in range(2):
            x = list(bp)
            if mode == 1:
                rng.shuffle(x)
            yield "many-teams", n, 1, days, x, sp.dtype, dirt_for(days, n, 0), False
    # (3) structured random: points of the real search space, real encoding objects for even n
    n_rand = 600 if ck.quick else 5000
    for k in range(n_rand):
        n = rng.randint(2, 16)
        r = rng.randint(1, 7 if n <= 8 or not ck.quick else 3)
        if (n, r) == (2, 1):
            r = 2
        sp, bp = impl_blueprint(n, r)
        x = list(bp)
        mode = rng.randint(0, 5)
        if mode == 0:
            pass                      # the sorted blueprint itself
        elif mode == 1:
            x.reverse()
        elif mode == 2:               # a few swaps away from sorted (many games find early slots)
            for _ in range(rng.randint(1, 6)):
                i, j = rng.randrange(len(x)), rng.randrange(len(x))
                x[i], x[j] = x[j], x[i]
        else:
            rng.shuffle(x)
        days = (n - 1) * r
        use_enc = (n % 2 == 0) and rng.random() < 0.7
        yield "random", n, r, days, x, sp.dtype, dirt_for(days, n, rng.randint(0, 2)), use_enc
        if k % 7 == 0:   # same permutation, fewer days than needed: games must be dropped
            dd = rng.randint(0, days)
            yield "random-days", n, r, dd, x, sp.dtype, dirt_for(dd, n, rng.randint(0, 2)), False


def decode_stream(ck: Check) -> None:
    import numpy as np
    from moptipy.utils.nputils import int_range_to_dtype
    ops, ctx = [], []
    for stream, n, r, days, x, xdt, dirt, use_enc in decode_cases(ck):
        xa = np.array(x, dtype=xdt)
        if use_enc:
            inst = make_instance(n, r)
            res = run_encoding(inst, xa, dirt)
            # the encoding object and the raw kernel are the same function: check that, too
            ydt = int_range_to_dtype(-n, n)
            y = np.array(dirt, dtype=ydt).reshape((days, n))
            res2 = run_kernel(xa, y)
            ck.compare("encoding-vs-kernel", f"{stream} n={n} r={r}", str(res), str(res2))
            ck.count("via_GameEncoding.decode")
        else:
            ydt = int_range_to_dtype(-n, n) if n > 0 else np.int8
            y = np.array(dirt, dtype=ydt).reshape((days, n))
            res = run_kernel(xa, y)
            ck.count("via_raw_kernel")
        line = f"ttpG {days} {n} ; {fmt_ints(x)} ; {fmt_ints(dirt)}"
        if not isinstance(res, str):
            line += f" ; {fmt_ints(res)}"
        ops.append(line)
        ctx.append((stream, n, r, days, x, res))
        placed = 0 if isinstance(res, str) else sum(1 for v in res if v > 0)
        ck.case(line, nontrivial=placed > 0)
        ck.count(f"dec_{stream}")
        ck.count(f"dec_n={n}" if n <= 16 else "dec_n>16")
        if isinstance(res, str):
            ck.count(f"dec_err_{res}")
        else:
            dropped = len(x) - placed
            ck.count("dec_dropped=0" if dropped == 0 else "dec_dropped=1..3" if dropped <= 3 else "dec_dropped>3")
            ck.count("dec_dirty" if any(dirt) else "dec_clean")
    outs = ck.model(ops)
    for line, (stream, n, r, days, x, res), mout in zip(ops, ctx, outs):
        d = kv(mout)
        if isinstance(res, str):
            ck.compare(stream, line, mout, res)
            continue
        ck.compare(stream, line, "plan=" + d.get("plan", mout), "plan=" + ",".join(map(str, res)))
        case = {"n": n, "rounds": r, "days": days, "x": x, "plan": res}
        for k in PLAN_KEYS:
            ck.spec(d.get(k) == "true", k, f"n={n} days={days}: {WHAT[k]}", case)


def streams(ck: Check) -> None:
    """Correspondence (B) and spec oracle (C): blueprint construction and decoding."""
    blueprint_stream(ck)
    decode_stream(ck)


def check(ck: Check) -> None:
    ck.rule = ("blueprints: every (n, rounds) with 2<=n<=40 (thorough 120), even and odd, rounds 1..7, plus the rejected "
               "inputs ((2,1), n<2, n>100000, rounds=0) and some larger round counts; decoding: all distinct permutations "
               "of the game multiset for every (n, rounds) with <= 8 games (also with too few/too many days), degenerate "
               "shapes, arbitrary/out-of-range codes, random points of the search space for n<=16 (sorted, reversed, few "
               "swaps, shuffled), clean/plausible/garbage destination plans, real GameEncoding.decode on real "
               "Instance/GamePlan objects for even n and the raw kernel otherwise; a case is one protocol line; "
               "non-trivial = blueprint accepted / at least one game placed; distinct by line hash")
    ck.assumptions += [
        "numba compiles map_games as written: int64 arithmetic for `game // div`, `% n` with Python floor semantics and "
        "ZeroDivisionError, short-circuit `or`, row-major iteration of the 1-d array x",
        "moptipy Permutations(base_string): only 'non-empty, at least two different values, blueprint = sorted(base_string)' "
        "is modelled; its dtype choice, validate() and the search operators are outside",
        "pycommons check_int_range(n, 'n', 2, 100000) as modelled (note: the second call checks n again, not rounds)",
        "list.sort() sorts (modelled by List.mergeSort; only 'sorted permutation of the input' is used)",
        "Instance/GamePlan construction (shape ((n-1)*rounds, n), dtype int_range_to_dtype(-n, n)) is outside the model; "
        "the range theorem shows all stored values lie in -n..n",
    ]
    ck.extra["exhaustive_enumeration"] = (
        "in addition to the proofs (not instead of them): the blueprint clauses codes/pairs/pbal/tbal/spread/len are "
        "evaluated on the implementation's blueprint for every 2<=n<=%d, rounds<=7 (declarative Lean spec for n<=40, "
        "tally-table evaluation for n>40 and, as a cross-check of the two evaluators, for n<=12)" % (40 if ck.quick else 120))
    ck.notes.append("observation (not part of the property): search_space_for_n_and_rounds calls "
                    "check_int_range(n, 'rounds', 1, 100000), i.e. it range-checks n twice and rounds never; rounds<=0 is "
                    "only rejected by Permutations ('base string must not be empty'), rounds>100000 is accepted")
    modules, theorems = ["Props.C15"], list(THEOREMS)
    # tie between source and model: lean/Gen/MapGames.lean is regenerated from the CURRENT source of map_games and
    # Props/C15Gen.lean proves it equal to the hand-written model `GameEnc.mapGames` for all inputs
    try:
        from .translate import loop2lean
        ck.gen_begin()   # released at the end of ck.lean
        loop2lean.emit_map_games(common.REPO, common.LEAN)
        modules.append("Props.C15Gen")
        theorems.append("C15Gen.map_games_eq_model")
    except Exception as e:  # noqa: BLE001 - source outside the translatable subset: the obligation cannot be regenerated
        ck.proof_failures.append(f"translator loop2lean: map_games is not translatable, the theorem "
                                 f"C15Gen.map_games_eq_model could not be re-checked against the source: {e!r}")
    ck.lean(modules, theorems)
    streams(ck)
