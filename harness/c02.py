"""C02 — the seven bin-packing objectives equal their documented values, lie within their bounds,
convert back to the bin count, and prefer fewer bins (DESIGN.md section 6)."""
from __future__ import annotations

import itertools
import os

from . import common
from .common import Check, fmt_ints, fmt_matrix, kv

NAMES = ["binCount", "lastEmpty", "empty", "lastSmall", "small", "lastSkyline", "lowestSkyline"]

THEOREMS = ["BinObj." + t for t in (
    "sky_spec", "minOver_spec",
    "binCount_eq_spec", "lastEmpty_eq_spec", "empty_eq_spec", "lastSmall_eq_spec", "small_eq_spec",
    "sweep_eq_skyArea", "lastSkyline_eq_spec", "lowestSkyline_eq_spec", "obj_eq_spec",
    "scratch_irrelevant", "noOOB", "noOOB_inSpace", "oob_iff",
    "bins_le_nItems", "tie_in_range", "to_bin_count_obj", "bin_counts_agree", "lbGeo_spec", "lbGeo_le_bins",
    "tie_one_bin", "tie_ge_smallest", "obj_within_bounds", "obj_within_bounds_geo",
    "fewer_bins_strictly_better", "areaIn_le_skyArea", "spec_range", "int64_wrap_witness",
)]

SKY_SPEC_MAX_W = 4000   # the Lean spec sums the skyline column by column


# ----------------------------------------------------------------------------- generators
def rect_split(rng, l, b, r, t, depth):
    """Guillotine partition of [l,r) x [b,t)."""
    w, h = r - l, t - b
    if depth == 0 or (w == 1 and h == 1) or rng.random() < 0.15:
        return [(l, b, r, t)]
    horiz = (rng.random() < 0.5 and w > 1) or h == 1
    if horiz:
        c = rng.randint(l + 1, r - 1)
        return rect_split(rng, l, b, c, t, depth - 1) + rect_split(rng, c, b, r, t, depth - 1)
    c = rng.randint(b + 1, t - 1)
    return rect_split(rng, l, b, r, c, depth - 1) + rect_split(rng, l, c, r, t, depth - 1)


def guillotine_packing(rng, W, H, k, depth, sparse_last):
    """An instance and a feasible packing of it into exactly k bins, built without any repo code."""
    rects = []   # (bin, l, b, r, t)
    for b in range(1, k + 1):
        cells = rect_split(rng, 0, 0, W, H, depth)
        if b == k and sparse_last:
            cells = [min(cells, key=lambda c: (c[2] - c[0]) * (c[3] - c[1]))]
        else:
            keep = [c for c in cells if rng.random() < 0.8]
            cells = keep or [rng.choice(cells)]
        rects += [(b, *c) for c in cells]
    types: dict[tuple[int, int], int] = {}
    items: list[list[int]] = []
    rows = []
    for (b, l, bo, r, t) in rects:
        key = tuple(sorted((r - l, t - bo)))
        if key not in types:
            types[key] = len(items) + 1
            wh = list(key)
            if rng.random() < 0.5:
                wh.reverse()
            items.append([wh[0], wh[1], 0])
        items[types[key] - 1][2] += 1
        rows.append([types[key], b, l, bo, r, t])
    return items, rows


def renumber(rng, rows, k):
    p = list(range(1, k + 1))
    rng.shuffle(p)
    return [[r[0], p[r[1] - 1], *r[2:]] for r in rows]


def split_off(rng, rows, k):
    """Move one item out of a bin with >= 2 items into a new bin k+1 (same instance, one bin more)."""
    cnt = {}
    for r in rows:
        cnt[r[1]] = cnt.get(r[1], 0) + 1
    cand = [i for i, r in enumerate(rows) if cnt[r[1]] >= 2]
    if not cand:
        return None
    i = rng.choice(cand)
    r = rows[i]
    new = [list(x) for x in rows]
    new[i] = [r[0], k + 1, 0, 0, r[4] - r[2], r[5] - r[3]]
    return new


def py_feasible(W, H, items, rows, k):
    """Independent feasibility test (used only to steer generators; the oracle is the Lean `Pack.Feasible`)."""
    if len(rows) != sum(it[2] for it in items) or k < 1:
        return False
    cnt = [0] * len(items)
    for (i, b, l, bo, r, t) in rows:
        if not (1 <= i <= len(items)) or not (1 <= b <= k):
            return False
        w, h = items[i - 1][0], items[i - 1][1]
        if (r - l, t - bo) not in ((w, h), (h, w)) or l < 0 or bo < 0 or r > W or t > H:
            return False
        cnt[i - 1] += 1
    if cnt != [it[2] for it in items] or {r[1] for r in rows} != set(range(1, k + 1)):
        return False
    for a, c in itertools.combinations(rows, 2):
        if a[1] == c[1] and not (a[4] <= c[2] or c[4] <= a[2] or a[5] <= c[3] or c[5] <= a[3]):
            return False
    return True


def all_feasible_packings(W, H, items, cap, rng):
    """Every feasible packing (ids in non-decreasing row order) of a tiny instance; sampled down to cap."""
    ids = [i + 1 for i, it in enumerate(items) for _ in range(it[2])]
    n = len(ids)
    opts = []
    for i in ids:
        w, h = items[i - 1][0], items[i - 1][1]
        o = []
        for (ww, hh) in {(w, h), (h, w)}:
            for l in range(0, W - ww + 1):
                for b in range(0, H - hh + 1):
                    for bn in range(1, n + 1):
                        o.append([i, bn, l, b, l + ww, b + hh])
        opts.append(o)
    out = []
    for combo in itertools.product(*opts):
        k = max(r[1] for r in combo)
        if py_feasible(W, H, items, combo, k):
            out.append(([list(r) for r in combo], k))
    if len(out) > cap:
        out = rng.sample(out, cap)
    return out


def tiny_instances(lim, max_items):
    res = []
    for W in range(1, lim + 1):
        for H in range(1, lim + 1):
            lo, hi = min(W, H), max(W, H)
            cand = [(w, h) for w in range(1, hi + 1) for h in range(1, hi + 1) if not (w > lo and h > lo)]
            for nt in (1, 2, 3):
                for combo in itertools.combinations(cand, nt):
                    for reps in itertools.product((1, 2, 3), repeat=nt):
                        if sum(reps) <= max_items:
                            res.append((W, H, [[w, h, r] for (w, h), r in zip(combo, reps)]))
    return res


def signed_perm(rng, items):
    x = [i + 1 for i, it in enumerate(items) for _ in range(it[2])]
    rng.shuffle(x)
    return [v if rng.random() < 0.5 else -v for v in x]


def rand_instance(rng, W, H):
    nt = rng.randint(1, 6)
    items = []
    lo, hi = min(W, H), max(W, H)
    for _ in range(nt):
        if rng.random() < 0.5:
            w, h = rng.randint(1, lo), rng.randint(1, hi)
        else:
            w, h = rng.randint(1, hi), rng.randint(1, lo)
        if rng.random() < 0.6:
            w, h = max(1, w // rng.randint(1, 4)), max(1, h // rng.randint(1, 4))
        items.append([w, h, rng.randint(1, 4)])
    return items


# ----------------------------------------------------------------------------- implementation side
class Impl:
    """The seven objective objects of one instance (kept alive so that scratch state persists)."""

    def __init__(self, W, H, items):
        from moptipyapps.binpacking2d.instance import Instance
        from moptipyapps.binpacking2d.objectives.bin_count import BinCount
        from moptipyapps.binpacking2d.objectives.bin_count_and_empty import BinCountAndEmpty
        from moptipyapps.binpacking2d.objectives.bin_count_and_last_empty import BinCountAndLastEmpty
        from moptipyapps.binpacking2d.objectives.bin_count_and_last_skyline import BinCountAndLastSkyline
        from moptipyapps.binpacking2d.objectives.bin_count_and_last_small import BinCountAndLastSmall
        from moptipyapps.binpacking2d.objectives.bin_count_and_lowest_skyline import BinCountAndLowestSkyline
        from moptipyapps.binpacking2d.objectives.bin_count_and_small import BinCountAndSmall
        self.W, self.H, self.items = W, H, items
        self.inst = Instance("i", W, H, items)
        self.objs = [c(self.inst) for c in (BinCount, BinCountAndLastEmpty, BinCountAndEmpty, BinCountAndLastSmall,
                                            BinCountAndSmall, BinCountAndLastSkyline, BinCountAndLowestSkyline)]
        self.t_empty = self.objs[2]._BinCountAndEmpty__temp
        self.t_small = self.objs[4]._BinCountAndSmall__temp
        self.n = int(self.inst.n_items)
        self.lb = int(self.inst.lower_bound_bins)
        self.lo = [int(o.lower_bound()) for o in self.objs]
        self.up = [int(o.upper_bound()) for o in self.objs]

    def evaluate(self, rng, rows, dtype=None):
        """Evaluate all seven objectives on `rows` with fresh garbage in the scratch arrays."""
        import numpy as np
        garbage = [rng.randint(0, 100) for _ in range(self.n)]
        self.t_empty[:] = garbage
        self.t_small[:] = garbage
        y = np.array(rows, dtype=np.int64).reshape((len(rows), 6)).astype(dtype or self.inst.dtype)
        vals = []
        for o in self.objs:
            try:
                vals.append(int(o.evaluate(y)))
            except IndexError:
                vals.append("OOB")
            except ValueError:
                vals.append("ERR")
        return garbage, vals

    def to_bin(self, vals):
        return [("-" if isinstance(v, str) else str(int(o.to_bin_count(v)))) for o, v in zip(self.objs, vals)]


def fits(rows, dt):
    import numpy as np
    ii = np.iinfo(dt)
    return all(ii.min <= v <= ii.max for r in rows for v in r)


# ----------------------------------------------------------------------------- streams
def streams(ck: Check) -> None:
    """Correspondence (B) model vs kernels/classes and spec oracle (C) on the implementation's values."""
    import numpy as np
    from moptipyapps.binpacking2d.encodings.ibl_encoding_1 import ImprovedBottomLeftEncoding1
    from moptipyapps.binpacking2d.encodings.ibl_encoding_2 import ImprovedBottomLeftEncoding2
    from moptipyapps.binpacking2d.instance import Instance
    from moptipyapps.binpacking2d.packing import Packing
    rng = ck.rng
    q = ck.quick
    boundscheck = os.environ.get("NUMBA_BOUNDSCHECK", "0") == "1"
    ops: list[str] = []
    ctx: list[dict] = []
    groups: dict[int, list[int]] = {}   # instance number -> indices of feasible cases (dominance pairs)
    gid = [0]

    def add(stream, impl: Impl, rows, k, feasible_expected, dtype=None):
        garbage, vals = impl.evaluate(rng, rows, dtype)
        sky = 1 if impl.W <= SKY_SPEC_MAX_W else 0
        line = (f"obj {impl.W} {impl.H} {k} {impl.lb} {sky} ; {fmt_matrix(impl.items)} ; "
                f"{fmt_matrix(rows)} ; {fmt_ints(garbage)}")
        ops.append(line)
        ctx.append({"stream": stream, "impl": impl, "rows": rows, "k": k, "vals": vals, "gid": gid[0],
                    "expect_feasible": feasible_expected, "tb": impl.to_bin(vals)})
        ck.case(line, nontrivial=len(rows) > 1)
        ck.count(stream)
        ck.count(f"dtype_{dtype or impl.inst.dtype}")
        ck.count(f"bins_{min(k, 6)}{'+' if k >= 6 else ''}")

    def decoded(stream, impl: Impl, n_perm):
        encs = [ImprovedBottomLeftEncoding1(impl.inst), ImprovedBottomLeftEncoding2(impl.inst)]
        y = Packing(impl.inst)
        for _ in range(n_perm):
            x = signed_perm(rng, impl.items)
            for enc in encs:
                enc.decode(np.array(x, dtype=impl.inst.dtype), y)
                add(stream, impl, [[int(v) for v in r] for r in y], int(y.n_bins), True)

    def inspace(stream, impl: Impl, rows, n_var):
        """Infeasible but well-shaped packings: the kernels must still agree with the model."""
        n = impl.n
        mx = max(impl.W, impl.H)
        for _ in range(n_var):
            mode = rng.randrange(4)
            new = [list(r) for r in rows]
            if mode == 0:      # random bin ids in 1..n (gaps, empty low bins)
                for r in new:
                    r[1] = rng.randint(1, n)
            elif mode == 1:    # overlapping / degenerate rectangles, still inside the dtype
                for r in new:
                    a, b2 = sorted((rng.randint(0, min(mx, 60)), rng.randint(0, min(mx, 60))))
                    c, d = sorted((rng.randint(0, min(mx, 60)), rng.randint(0, min(mx, 60))))
                    r[2], r[4], r[3], r[5] = a, b2, c, d
                    if rng.random() < 0.3:
                        r[1] = rng.randint(1, n)
            elif mode == 2:    # bin ids 0 and negative (numba wraps the scratch index; max() sees them)
                for r in new:
                    if rng.random() < 0.5:
                        r[1] = rng.randint(1 - n, 0)
            else:              # one bin only / everything in the highest bin
                b = rng.choice([1, n])
                for r in new:
                    r[1] = b
            add(stream, impl, new, max(r[1] for r in new), False)
        if boundscheck:        # only safe when numba checks bounds: scratch index outside [-n, n)
            for bad in (n + 1, n + 3, -n, -n - 2):
                new = [list(r) for r in rows]
                new[rng.randrange(len(new))][1] = bad
                if fits(new, impl.inst.dtype):
                    add("oob", impl, new, max(r[1] for r in new), False)

    def family(stream, W, H, items, rows, k, n_split, n_dec, n_bad):
        """All packings generated for one instance: base layout, shuffles, renumberings, split-offs, decodings."""
        try:
            impl = Impl(W, H, items)
        except (ValueError, TypeError):
            ck.count("ctor_err")
            return
        gid[0] += 1
        add(stream, impl, rows, k, True)
        sh = [list(r) for r in rows]
        rng.shuffle(sh)
        add(stream + "-shuffled", impl, sh, k, True)
        add(stream + "-renumbered", impl, renumber(rng, sh, k), k, True)
        cur, kk = sh, k
        for _ in range(n_split):
            nxt = split_off(rng, cur, kk)
            if nxt is None:
                break
            cur, kk = nxt, kk + 1
            rng.shuffle(cur)
            add(stream + "-split", impl, renumber(rng, cur, kk) if rng.random() < 0.5 else cur, kk, True)
        if n_dec:
            decoded(stream + "-decoded", impl, n_dec)
        if n_bad:
            inspace("inspace", impl, sh, n_bad)
        # the same values through other storage types (kernels called with y of a different dtype)
        for dt in (np.int8, np.int16, np.int32, np.int64):
            if np.dtype(dt) != impl.inst.dtype and fits(sh, dt) and rng.random() < 0.5:
                add("dtype-mix", impl, sh, k, True, dtype=np.dtype(dt))

    # (2) exhaustive small scope: every feasible packing of tiny instances
    tiny = tiny_instances(3, 3)
    tiny = rng.sample(tiny, 10 if q else 300)
    if not q:   # a few 4x4-scope instances as well
        tiny += rng.sample([t for t in tiny_instances(4, 3) if max(t[0], t[1]) == 4], 12)
    for W, H, items in tiny:
        impl = Impl(W, H, items)
        gid[0] += 1
        packs = all_feasible_packings(W, H, items, 250 if q else 2500, rng)
        ck.count("exhaustive_instances")
        for rows, k in packs:
            if rng.random() < 0.5:
                rng.shuffle(rows)
            add("exhaustive", impl, rows, k, True)

    # (4) boundary stream
    family("boundary", 1, 1, [[1, 1, 3]], [[1, 1, 0, 0, 1, 1], [1, 2, 0, 0, 1, 1], [1, 3, 0, 0, 1, 1]], 3, 0, 2, 4)
    family("boundary", 5, 3, [[5, 3, 2], [3, 5, 1]], [[1, 1, 0, 0, 5, 3], [2, 2, 0, 0, 5, 3], [1, 3, 0, 0, 5, 3]], 3, 0, 2, 4)
    family("boundary", 4, 4, [[4, 4, 1]], [[1, 1, 0, 0, 4, 4]], 1, 0, 1, 2)
    for n in (126, 127, 128):       # n_items + 1 around the int8 edge: scratch dtype int8 / int16
        rows = [[1, 1 + (i // 16), i % 4, (i % 16) // 4, i % 4 + 1, (i % 16) // 4 + 1] for i in range(n)]
        family("dtype-nitems", 4, 4, [[1, 1, n]], rows, (n + 15) // 16, 2, 1, 2)
        family("dtype-nitems", 4, 4, [[1, 1, n]], [[1, i + 1, 0, 0, 1, 1] for i in range(n)], n, 0, 0, 1)
    for m in (63, 64, 127, 128, 16383, 16384, 32767, 2**30, 2**31, 10**9):   # max_dim + max_size + 1 at the edges
        if m < 1000:
            items, rows = guillotine_packing(rng, m, m, 2, 3, True)
            family("dtype-threshold", m, m, items, rows, 2, 2, 1, 2)
            continue
        # wide flat bin (the constructor's lower bound loops over min(W,H)/2 and over w/h per item: keep items small),
        # layout built in a 60-wide window, part of it shifted to the right edge of the bin
        h = rng.randint(3, 30)
        items, rows = guillotine_packing(rng, 60, h, 2, 3, True)
        for r in rows:
            if rng.random() < 0.5:
                r[2] += m - 60
                r[4] += m - 60
        family("dtype-threshold", m, h, items, rows, 2, 2, 1 if m < 40000 else 0, 2)
    # the known int64 wrap-around of (bins-1)*W*H (reported; see Props/C02.lean `int64_wrap_witness`)
    family("int64-range", 10**12, 10**6, [[1, 1, 12]], [[1, i + 1, 0, 0, 1, 1] for i in range(12)], 12, 0, 0, 0)
    family("int64-range", 10**12, 9 * 10**5, [[1, 1, 10]], [[1, i + 1, 0, 0, 1, 1] for i in range(10)], 10, 0, 0, 0)

    # (3) structured random: independent guillotine layouts + decoder outputs + in-space garbage
    for _ in range(60 if q else 6000):
        W, H = rng.choice([(rng.randint(2, 12), rng.randint(2, 12)), (rng.randint(5, 60), rng.randint(5, 60)),
                           (rng.randint(1, 4), rng.randint(20, 40)), (rng.randint(100, 300), rng.randint(2, 9))])
        k = rng.choice([1, 1, 2, 2, 3, 4, 6])
        items, rows = guillotine_packing(rng, W, H, k, rng.randint(1, 4), rng.random() < 0.4)
        family("guillotine", W, H, items, rows, k, 3, 1, 3)
    for _ in range(30 if q else 2500):
        W, H = rng.choice([(rng.randint(2, 12), rng.randint(2, 12)), (rng.randint(5, 60), rng.randint(5, 60))])
        items = rand_instance(rng, W, H)
        try:
            impl = Impl(W, H, items)
        except (ValueError, TypeError):
            ck.count("ctor_err")
            continue
        gid[0] += 1
        decoded("random-decoded", impl, 3)
        inspace("inspace", impl, ctx[-1]["rows"], 2)
    # "floating" layouts: non-overlapping rectangles dropped ANYWHERE in the bins (not gravity-bound, not guillotine):
    # overhangs, items standing on an overhanging item, gaps under items - feasible packings no decoder produces; every
    # layout in several row orders (found missing by seeded change C02-skyline-provisional-right)
    def floating_layout(W, H, k, per_bin):
        rects = []
        for b in range(1, k + 1):
            placed = []
            want = per_bin if b < k or rng.random() < 0.6 else rng.randint(1, per_bin)
            for _ in range(60):
                if len(placed) >= want:
                    break
                w, h = rng.randint(1, max(1, W // 2 + 1)), rng.randint(1, max(1, H // 3 + 1))
                l, bt = rng.randint(0, W - w), rng.randint(0, H - h)
                if rng.random() < 0.5 and placed:       # stand on top of an earlier one, shifted sideways (overhang)
                    p = rng.choice(placed)
                    bt = p[3]
                    l = max(0, min(W - w, p[0] + rng.randint(-w + 1, p[2] - p[0] - 1) if p[2] - p[0] > 0 else p[0]))
                    if bt + h > H:
                        continue
                if all(l + w <= q0[0] or q0[2] <= l or bt + h <= q0[1] or q0[3] <= bt for q0 in placed):
                    placed.append((l, bt, l + w, bt + h))
            rects += [(b,) + r for r in placed]
        types: dict = {}
        rows = []
        for (b, l, bt, r, t) in rects:
            key = (r - l, t - bt)
            alt = (t - bt, r - l)
            if key not in types and alt in types:
                key = alt
            types.setdefault(key, [len(types) + 1, 0])
            types[key][1] += 1
            rows.append([types[key][0], b, l, bt, r, t])
        items = [[w, h, c] for (w, h), (_, c) in sorted(types.items(), key=lambda kv_: kv_[1][0])]
        return items, rows

    for _ in range(60 if q else 4000):
        W, H = rng.randint(4, 14), rng.randint(4, 14)
        k = rng.choice([1, 1, 2, 3])
        items, rows = floating_layout(W, H, k, rng.randint(3, 8))
        if len({r[1] for r in rows}) != k:
            continue
        try:
            impl = Impl(W, H, items)
        except (ValueError, TypeError):
            ck.count("ctor_err")
            continue
        gid[0] += 1
        for _ in range(6 if q else 10):
            sh = [list(r) for r in rows]
            rng.shuffle(sh)
            add("floating", impl, sh, k, True)
    # shipped instances through both decoders
    names = list(Instance.list_resources())
    for nm in rng.sample(names, 6 if q else 250):
        inst = Instance.from_resource(nm)
        if inst.n_items > (60 if q else 250):
            continue
        items = [[int(a) for a in r] for r in inst]
        impl = Impl(int(inst.bin_width), int(inst.bin_height), items)
        gid[0] += 1
        decoded("shipped-decoded", impl, 2 if q else 4)
        inspace("inspace", impl, ctx[-1]["rows"], 1)

    outs = ck.model(ops)
    for i, (line, c, mout) in enumerate(zip(ops, ctx, outs)):
        d = kv(mout)
        impl: Impl = c["impl"]
        vals = c["vals"]
        big = len(line) > 700
        case = {"W": impl.W, "H": impl.H, "items": impl.items, "rows": c["rows"], "k": c["k"]}
        if big:
            case = {"W": impl.W, "H": impl.H, "n_items": impl.n, "k": c["k"], "op_index": i}
        # beyond n_items*W*H >= 2^63 the int64 kernels wrap (known finding `int64-wrap`); the unbounded model cannot agree there
        wraps = impl.n * impl.W * impl.H >= 2**63
        # B: kernel values, bound formulas, to_bin_count formulas (beyond the int64 range: only the three count-type objectives)
        ncmp = 3 if wraps else 7
        if wraps:
            ck.count("beyond_int64_range")
        ck.compare(c["stream"], line[:600], ",".join(d.get("v", mout).split(",")[:ncmp]), ",".join(str(v) for v in vals[:ncmp]))
        ck.compare(c["stream"] + ":to_bin_count", line[:600], ",".join(d.get("tb", mout).split(",")[:ncmp]), ",".join(c["tb"][:ncmp]))
        ck.compare(c["stream"] + ":bounds", line[:600], f"{d.get('lo')} {d.get('up')}",
                   ",".join(map(str, impl.lo)) + " " + ",".join(map(str, impl.up)))
        feas = d.get("feas") == "true"
        if c["expect_feasible"] and not feas and not c["stream"].endswith("decoded"):
            ck.proof_failures.append(f"generator produced a packing the Lean spec calls infeasible: {line[:300]}")
        ck.count("feasible" if feas else "infeasible")
        if not feas:
            continue
        # C: the property evaluated on the implementation's values
        groups.setdefault(c["gid"], []).append(i)
        specs = d.get("s", "").split(",")
        for j, nm in enumerate(NAMES):
            v = vals[j]
            wr = wraps and j >= 3          # known finding: only the area/skyline objectives, only beyond the int64 range
            if isinstance(v, str):
                ck.spec(False, f"error-{nm}", f"{nm} raised {v} on a feasible packing", case)
                continue
            if specs[j] != "x":
                ck.spec(str(v) == specs[j], "int64-wrap" if wr else f"value-{nm}",
                        f"{nm}.evaluate = {v} but the documented value is {specs[j]}", case)
            ck.spec(impl.lo[j] <= v <= impl.up[j], "int64-wrap" if wr else f"bounds-{nm}",
                    f"{nm}.evaluate = {v} outside [lower_bound, upper_bound] = [{impl.lo[j]}, {impl.up[j]}]", case)
            ck.spec(c["tb"][j] == str(c["k"]), "int64-wrap" if wr else f"tobin-{nm}",
                    f"{nm}.to_bin_count({v}) = {c['tb'][j]} but the packing uses {c['k']} bins", case)
        geo = int(d.get("geo", "0"))
        ck.spec(geo <= impl.lb <= c["k"], "lower_bound_bins",
                f"lower_bound_bins = {impl.lb} not within [geometric bound {geo}, bins used {c['k']}]", case)
    # C: dominance on all pairs of feasible packings of one instance with different bin counts
    for g, idxs in groups.items():
        by_k: dict[int, list[int]] = {}
        for i in idxs:
            by_k.setdefault(ctx[i]["k"], []).append(i)
        ks = sorted(by_k)
        pairs = 0
        for a, b in itertools.combinations(ks, 2):
            for i in by_k[a][:6]:
                for j2 in by_k[b][:6]:
                    pairs += 1
                    for j, nm in enumerate(NAMES):
                        va, vb = ctx[i]["vals"][j], ctx[j2]["vals"][j]
                        if isinstance(va, str) or isinstance(vb, str):
                            continue
                        impl = ctx[i]["impl"]
                        wr = impl.n * impl.W * impl.H >= 2**63 and j >= 3
                        ck.spec(va < vb, "int64-wrap" if wr else f"dominance-{nm}",
                                f"{nm}: packing with {a} bins scores {va}, packing with {b} bins scores {vb}",
                                {"W": impl.W, "H": impl.H, "items": impl.items if len(impl.items) < 40 else "<many>",
                                 "fewer": ctx[i]["rows"] if impl.n < 40 else i, "more": ctx[j2]["rows"] if impl.n < 40 else j2})
        ck.count("dominance_pairs", pairs)


def check(ck: Check) -> None:
    ck.rule = ("exhaustive: every feasible packing (sampled down per instance in the quick tier) of sampled instances with bins <= 3x3 and "
               "<= 3 items; boundary (1x1 bins, item = bin, n_items 126..128, max_dim+max_size at 63/64/127/128/16383/16384/32767/2^30/2^31/1e9, "
               "n_items*W*H beyond 2^63); structured random: independent guillotine layouts (shuffled rows, renumbered bins, sparse last bin, "
               "split-off variants with more bins), outputs of both IBL decoders on random and shipped instances, infeasible but well-shaped "
               "packings (random bin ids, overlapping rectangles, bin ids <= 0), y in other integer dtypes; every evaluation with fresh "
               "garbage in the scratch arrays of long-lived objective objects; a case is one protocol line (7 objectives); non-trivial = "
               "more than one item; distinct by line hash; dominance on all pairs of feasible packings of one instance with different k")
    ck.assumptions += [
        "numba compiles the kernels as written: all integer arithmetic on loaded small-int values is done in int64 (no wrap below 2^63: "
        "theorem spec_range), negative indices wrap, an index outside [-len, len) is undefined behaviour (IndexError under NUMBA_BOUNDSCHECK=1)",
        "a packing is an n x 6 matrix (shape is fixed by Packing.__new__); reading a column of an existing row cannot leave it",
        "Instance.lower_bound_bins is a parameter lbBins of the bound theorems: they assume lbGeo <= lbBins <= k (the first is "
        "instance.py:644 max(damv, geo), checked here on every instance; the second is property C03); proved unconditionally for lbBins = lbGeo",
        "pycommons ceil_div(a, b) = -((-a) // b) modelled with Int.fdiv",
    ]
    ck.not_proved += [
        "int64 representability is not part of the value theorems: they are about the documented integer value; spec_range shows "
        "the result and its two summands lie in [0, n_items*scale] (scale = 1, n_items, W*H), so the kernels cannot wrap on them "
        "whenever n_items*W*H < 2^63; partial sums inside the loops are not traced (all increments are non-negative on feasible "
        "packings); beyond that range the real kernels wrap (theorem int64_wrap_witness; spec-oracle key int64-wrap, a known finding)",
        "obj_within_bounds assumes lbGeo I <= lbBins <= k for the instance's lower_bound_bins (the second inequality is property "
        "C03); it is unconditional for lbBins = lbGeo I (obj_within_bounds_geo)",
        "the number of rounds of the skyline sweep (<= 2n+1) is not stated; termination is proved (strict progress of cur_left)",
    ]
    modules, theorems = ["Props.C02"], list(THEOREMS)
    # tie between source and model: lean/Gen/BinCountAnd*.lean are regenerated from the CURRENT source of the four
    # for-loop-only objective kernels and Props/C02Gen*.lean prove each equal to its hand-written model for all inputs
    # (the two skyline kernels contain a `while` loop: outside the translator's subset, hand-written model only)
    gen_theorems = {"BinCountAndLastEmpty": "C02Gen.bin_count_and_last_empty_eq_model",
                    "BinCountAndEmpty": "C02Gen.bin_count_and_empty_eq_model",
                    "BinCountAndLastSmall": "C02Gen.bin_count_and_last_small_eq_model",
                    "BinCountAndSmall": "C02Gen.bin_count_and_small_eq_model"}
    try:
        from .translate import loop2lean
        ck.gen_begin()   # released at the end of ck.lean
        res = loop2lean.emit_binobj(common.REPO, common.LEAN)
    except Exception as e:  # noqa: BLE001
        res = {k: e for k in gen_theorems}
    for key, err in res.items():    # one Props module per generated kernel: a change of one kernel leaves the others checked
        if err is None:
            modules.append("Props.C02Gen" + key[len("BinCountAnd"):])
            theorems.append(gen_theorems[key])
        else:   # source outside the translatable subset: the obligation cannot be regenerated
            ck.proof_failures.append(f"translator loop2lean: {key} is not translatable, the theorem {gen_theorems[key]} "
                                     f"could not be re-checked against the source: {err!r}")
    ck.lean(modules, theorems)
    streams(ck)
