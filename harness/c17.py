"""C17 — generated bin-packing instances keep the template's size and bin need (DESIGN.md section 6)."""
from __future__ import annotations

import itertools
import math

from .common import Check, kv

THEOREMS = [
    "InstGen.truncMul_sign",
    "InstGen.mkSpace_ok",
    "InstGen.phase1_terminates",
    "InstGen.search1_fuel_irrelevant",
    "InstGen.phase1_guillotine",
    "InstGen.phase2_inv",
    "InstGen.merge_preserves_multiset",
    "InstGen.decode_instance_ok",
    "InstGen.decode_succeeds",
    "InstGen.decode_deterministic",
    "InstGen.errors_in_unit_interval",
    "InstGen.errors_template_zero",
    "InstGen.hardness_in_unit_interval",
    "InstGen.hardnessRun_no_raise",
]

NA = math.nextafter
ALPHA = [-1.0, -0.0, 0.0, 1.0, NA(1.0, 0.0), NA(-1.0, 0.0), NA(0.0, 1.0), NA(0.0, -1.0), 0.5, -0.5]
ALPHA_SMALL = [-1.0, 0.0, 1.0, NA(1.0, 0.0), -0.5]
BEYOND = [NA(1.0, 2.0), NA(-1.0, -2.0), 1.5, -3.25, 1e6 + 0.5]

SYNTHETIC = [  # (W, H, items)
    (10, 10, [[5, 5, 3], [10, 5, 1], [5, 10, 1], [3, 3, 2]]),
    (1, 1, [[1, 1, 3]]),
    (2, 1, [[1, 1, 4]]),
    (2, 2, [[1, 1, 3]]),
    (3, 2, [[1, 1, 6]]),
    (3, 2, [[3, 1, 1], [2, 1, 1]]),
    (10, 10, [[10, 5, 1], [5, 10, 1], [5, 5, 1]]),
    (4, 3, [[4, 3, 1], [2, 2, 1], [1, 3, 1]]),
    (1, 7, [[1, 2, 3], [1, 1, 2]]),
    (7, 3, [[2, 2, 2], [3, 1, 4], [7, 1, 1]]),
    (5, 5, [[5, 5, 2], [1, 1, 5]]),
    (6, 4, [[3, 2, 7], [1, 4, 2], [6, 1, 1]]),
    (1000000000, 1, [[100000000, 1, 5], [3, 1, 7]]),
    (1, 1000000000, [[1, 99999999, 4], [1, 1, 1]]),
    (31622, 31622, [[31622, 15811, 1], [10000, 10000, 2], [1, 1, 6]]),
    (30000, 30000, [[30000, 30000, 1], [29999, 3, 2], [7, 7, 3]]),
]


def me(v: float) -> tuple[int, int]:
    """binary64 -> (m, e) with v == m * 2**e exactly"""
    if v == 0:
        return 0, 0
    mant, ex = math.frexp(v)
    return int(mant * (1 << 53)), ex - 53


def xfield(x) -> str:
    return " ".join(f"{m} {e}" for m, e in (me(float(v)) for v in x))


def citems(items) -> str:
    return "|".join(",".join(str(int(v)) for v in r) for r in items)


def fitems(items) -> str:
    return " | ".join(" ".join(str(int(v)) for v in r) for r in items)


# corpus: vectors that exposed past defects (run first).  (index into SYNTHETIC, vector)
CORPUS = [
    # fix 501ce37: without `current_area -= ...` two slack pairs cut the area to 95 <= 100, lower_bound_bins 1 != 2
    (0, [0.93, -0.44, -0.75, 0.66, -0.41, 0.69, 0.22, 0.02, -0.83, 0.57, -0.87, 0.93, 0.75, -0.39]),
]


class Tpl:
    """a template with its space and decoder (the real objects)"""

    def __init__(self, name, inst):
        from moptipyapps.binpacking2d.instgen.inst_decoding import InstanceDecoder
        from moptipyapps.binpacking2d.instgen.instance_space import InstanceSpace
        import numpy as np
        self.name, self.inst = name, inst
        self.items = np.asarray(inst).tolist()
        self.space = InstanceSpace(inst)
        self.dec = InstanceDecoder(self.space)
        self.base = self.space.n_items - self.space.min_bins
        self.W, self.H, self.k, self.n = (self.space.bin_width, self.space.bin_height, self.space.min_bins,
                                          self.space.n_items)


def templates(ck: Check):
    from moptipyapps.binpacking2d.instance import Instance
    out, tiny = [], []
    for j, (w, h, items) in enumerate(SYNTHETIC):
        t = Tpl(f"syn{j}", Instance(f"syn{j}", w, h, items))
        out.append(t)
        if t.base <= 2:
            tiny.append(t)
    rng = ck.rng
    n_rand = 12 if ck.quick else 60
    made = 0
    while made < n_rand:
        w, h = rng.randint(1, 12), rng.randint(1, 12)
        items = []
        for _ in range(rng.randint(1, 5)):
            items.append([rng.randint(1, w), rng.randint(1, h), rng.randint(1, 4)])
        if len({(a, b) for a, b, _ in items}) != len(items):
            continue
        # names of every shape a template can have - in particular names that already END in the suffix "n" (a generated
        # instance used as template, or simply "twin"): the generated name is template name + "n", always
        nm = (f"rnd{made}", f"rnd{made}n", f"gen{made}nn", f"twin{made}_n", f"N{made}", f"n{made}")[made % 6]
        try:
            t = Tpl(nm, Instance(nm, w, h, items))
        except ValueError:
            continue
        made += 1
        out.append(t)
        if t.base <= 2:
            tiny.append(t)
    lim = 60 if ck.quick else 100
    names = sorted(Instance.list_resources())
    ship = []
    for nm in names:
        digits = [int(p) for p in nm.replace("asqas", "_").split("_") if p.isdigit()]
        if nm.startswith(("cl", "asqas")) and digits and max(digits[:2] if nm.startswith("cl") else digits) > lim:
            continue
        ship.append(nm)
    if ck.quick:
        fixed = [nm for nm in ("a04", "a42", "asqas03", "asqas08", "beng01", "cl01_020_01", "cl02_020_03",
                               "cl04_020_07", "cl05_020_06", "cl07_040_02", "cl10_020_01", "cl01_060_01") if nm in ship]
        rest = [nm for nm in ship if nm not in fixed]
        ship = fixed + rng.sample(rest, min(10, len(rest)))
    for nm in ship:
        inst = Instance.from_resource(nm)
        if inst.n_items > lim:
            continue
        try:
            out.append(Tpl(nm, inst))
        except ValueError:
            ck.count("template_rejected_by_space")
    return out, tiny


def gen_vectors(ck: Check, t: Tpl, budget: int):
    """(stream, x) for one template: boundary, structured random, malformed."""
    rng = ck.rng
    for k in range(7):
        d = 2 * (t.base + k)
        if d == 0:
            yield "boundary", []
            continue
        per = max(1, budget // 7)
        for a in ALPHA:                                    # constant vectors
            yield "boundary", [a] * d
            per -= 1
        for _ in range(max(per, 2)):
            mode = rng.random()
            if mode < 0.35:
                x = [rng.uniform(-1, 1) for _ in range(d)]
            elif mode < 0.6:
                x = [rng.choice(ALPHA) if rng.random() < 0.4 else rng.uniform(-1, 1) for _ in range(d)]
            elif mode < 0.8:                               # greedy slack: the largest cut positions
                x = [rng.uniform(-1, 1) for _ in range(2 * t.base)]
                for _ in range(k):
                    x += [rng.uniform(-1, 1), rng.choice([NA(1.0, 0.0), -1.0, 1.0, NA(-1.0, 0.0), 0.999, -0.999])]
            elif mode < 0.9:                               # many uncuttable items: thin slices, then search
                x = [rng.choice([0.0, -0.0, NA(0.0, 1.0), NA(0.0, -1.0)]) for _ in range(d)]
                for i in rng.sample(range(d), min(d, 3)):
                    x[i] = rng.uniform(-1, 1)
            else:
                x = [rng.choice(ALPHA) for _ in range(d)]
            yield "random", x
    # malformed / out of the property's range: correspondence only
    d0 = 2 * t.base
    if d0 >= 2:
        yield "short", [rng.uniform(-1, 1) for _ in range(d0 - 1)]
        yield "short", [rng.uniform(-1, 1) for _ in range(d0 - 2)]
    yield "odd", [rng.uniform(-1, 1) for _ in range(d0 + 3)]
    yield "beyond", [rng.choice(BEYOND + ALPHA) for _ in range(d0 + 4)]


def gen_exhaustive(ck: Check, t: Tpl):
    cap = 2000 if ck.quick else 10000
    for k in range(3):
        d = 2 * (t.base + k)
        if d == 0:
            continue
        alpha = ALPHA if len(ALPHA) ** d <= cap else ALPHA_SMALL
        total = len(alpha) ** d
        if total <= cap:
            for x in itertools.product(alpha, repeat=d):
                yield "exhaustive", list(x)
        else:
            for _ in range(cap):
                yield "exh_sampled", [ck.rng.choice(ALPHA) for _ in range(d)]


class DecodeTimeout(Exception):
    """the real decoder did not return within DECODE_LIMIT_S seconds"""


DECODE_LIMIT_S = 10.0


def _alarm(signum, frame):
    raise DecodeTimeout


def impl_decode(t: Tpl, x, y=None):
    import signal

    import numpy as np
    arr = np.array(x, dtype=np.float64)
    y = [] if y is None else y
    old = signal.signal(signal.SIGALRM, _alarm)
    signal.setitimer(signal.ITIMER_REAL, DECODE_LIMIT_S)
    try:
        t.dec.decode(arr, y)
    except IndexError:
        return None, None
    finally:
        signal.setitimer(signal.ITIMER_REAL, 0)
        signal.signal(signal.SIGALRM, old)
    res = y[0]
    from numpy.random import default_rng
    perm = list(range(res.n_different_items))
    default_rng(int.from_bytes(arr.tobytes())).shuffle(perm)
    return res, perm


def streams(ck: Check) -> None:
    """Correspondence (B) and spec oracle (C) for InstanceSpace, InstanceDecoder.decode, Errors (+ Hardness test)."""
    import numpy as np
    from moptipyapps.binpacking2d.instance import Instance
    from moptipyapps.binpacking2d.instgen.errors import Errors
    from moptipyapps.binpacking2d.instgen.instance_space import InstanceSpace
    rng = ck.rng
    ops, expect = [], []

    # ---- int(k * x) in binary64
    ks = list(range(1, 30)) + [10**9, 10**9 - 1, 2**31, 2**52 + 1, 2**53 - 1, 123456789, 999999937, 31621]
    for k in ks:
        vals = ALPHA + BEYOND + [5e-324, 2.2250738585072014e-308, 1 / 3, 2 / 3, 0.1]
        vals += [rng.uniform(-1, 1) for _ in range(6 if ck.quick else 40)]
        vals += [NA(j / k, rng.choice([-9.0, 9.0])) for j in range(min(k, 6))] + [j / k for j in range(min(k, 6))]
        for v in vals:
            m, e = me(v)
            ops.append(f"mt {k} {m} {e}")
            expect.append(("mt", "truncmul", str(int(k * np.float64(v))), None))
            ck.case(ops[-1])
            ck.count("mt")

    # ---- templates and their spaces
    tpls, tiny = templates(ck)
    for t in tpls:
        sp = t.space
        ck.count("templates")
        line = f"ispace {t.inst.lower_bound_bins} ; {t.W} {t.H} ; {fitems(t.items)}"

        def xd(s, dec=t.dec):
            try:
                return str(dec.get_x_dim(s))
            except ValueError:
                return "ERR"
        me_ = Errors(sp)
        iout = (f"name=tn nd={sp.n_different_items} n={sp.n_items} W={sp.bin_width} H={sp.bin_height} k={sp.min_bins} "
                f"wmin={sp.item_width_min} wmax={sp.item_width_max} hmin={sp.item_height_min} hmax={sp.item_height_max} "
                f"area={sp.total_item_area} maxerr={me_._Errors__max_errors} xd0={xd(0)} xd1={xd(1)} xd2={xd(2)}")
        ops.append(line)
        expect.append(("ispace", "space", iout, None))
        ck.case(line)
        ck.spec(sp.inst_name == t.inst.name + "n", "name_suffix", "space name is not the template's name + 'n'",
                {"template": t.name})
        ck.spec(sp.min_bins == min(t.inst.lower_bound_bins, t.inst.n_items) and sp.n_items == t.inst.n_items
                and sp.bin_width == t.inst.bin_width and sp.bin_height == t.inst.bin_height, "space_fields",
                "space does not carry the template's bin size / item count / minimum number of bins", {"template": t.name})
        ck.spec(sp.n_items <= sp.min_bins * sp.bin_width * sp.bin_height and 1 <= sp.min_bins <= sp.n_items,
                "space_ok", "template-derived space violates n_items <= min_bins*W*H", {"template": t.name})
    # templates the space must reject (correspondence of the range checks)
    for w, h, items in [(5, 9, [[7, 2, 1]]), (2 * 10**9, 1, [[1, 1, 1]]), (1, 2 * 10**9, [[1, 1, 1]]),
                        (10**5, 10**5, [[10**5, 10**5, 1]]), (9, 5, [[2, 7, 1], [1, 1, 1]])]:
        inst = Instance("bad", w, h, items)
        try:
            InstanceSpace(inst)
            iout = "accepted"
        except ValueError:
            iout = "ERR"
        ops.append(f"ispace {inst.lower_bound_bins} ; {w} {h} ; {fitems(items)}")
        expect.append(("ispace", "space_reject", iout, None))
        ck.case(ops[-1])
        ck.count("space_reject")

    # ---- decode
    hung = [0]

    def add_decode(t: Tpl, stream: str, x, in_range: bool):
        if hung[0] >= 3:           # a decoder that hangs repeatedly: stop feeding it
            return None
        try:
            res, perm = impl_decode(t, x)
        except DecodeTimeout:
            hung[0] += 1
            ck.spec(False, "terminates", f"decode did not return within {DECODE_LIMIT_S} s (the model terminates: "
                    "theorem phase1_terminates / phase2_inv)",
                    {"template": t.name, "W": t.W, "H": t.H, "min_bins": t.k, "n_items": t.n,
                     "template_items": t.items, "x_repr": repr(list(x))[:1500]})
            return None
        ck.count(stream)
        ck.count(f"slack_pairs_{max(0, (len(x) - 2 * t.base) // 2)}" if len(x) >= 2 * t.base else "too_short")
        if res is None:
            # C: every vector of admissible length with entries in [-1, 1] must decode (property text; theorems
            # phase1_terminates / decode_succeeds): an IndexError on such a vector is a violation with that vector
            admissible = in_range and len(x) >= 2 * t.base and (len(x) - 2 * t.base) % 2 == 0 \
                and all(-1.0 <= float(v) <= 1.0 for v in x)
            ck.spec(not admissible, "decode_raises",
                    "decode raised IndexError on a vector of admissible length with entries in [-1, 1]",
                    {"template": t.name, "W": t.W, "H": t.H, "min_bins": t.k, "n_items": t.n,
                     "template_items": t.items, "x_repr": repr(list(x))[:1500]})
            line = f"igen {t.W} {t.H} {t.k} {t.n} ; {xfield(x)} ;  ; "
            ops.append(line)
            expect.append(("igen", stream, "OOB", None))
            ck.case(line, nontrivial=False)
            return None
        items = np.asarray(res).tolist()
        line = f"igen {t.W} {t.H} {t.k} {t.n} ; {xfield(x)} ; {' '.join(map(str, perm))} ; {fitems(items)}"
        iout = f"merged={citems(sorted(items))} final={citems(items)} n={res.n_items} area={res.total_item_area}"
        ops.append(line)
        expect.append(("igen", stream, iout, (t, x, res, in_range)))
        ck.case(line)
        ck.count(f"ntypes_{'1' if len(items) == 1 else '2-5' if len(items) <= 5 else '6-20' if len(items) <= 20 else '>20'}")
        if res.total_item_area < t.k * t.W * t.H:
            ck.count("slack_area_cut")
        return res

    for j, x in CORPUS:
        add_decode(tpls[j], "corpus", x, True)
    for t in tiny:
        for stream, x in gen_exhaustive(ck, t):
            add_decode(t, stream, x, True)
    per_tpl = 150 if ck.quick else 300
    err_ops = []
    for t in tpls:
        budget = per_tpl if t.W * t.H < 10**6 else max(14, per_tpl // 4)
        cnt = 0
        for stream, x in gen_vectors(ck, t, budget):
            in_range = stream in ("boundary", "random")
            res = add_decode(t, stream, x, in_range)
            if res is not None and in_range:
                cnt += 1
                if cnt % 3 == 0:
                    err_ops.append((t, res))
        err_ops.append((t, t.inst))

    # ---- Errors
    errs = {}
    for t, inst in err_ops:
        sp = t.space
        if t.name not in errs:
            errs[t.name] = Errors(sp)
        items = np.asarray(inst).tolist()
        val = errs[t.name].evaluate([inst])
        mx = errs[t.name]._Errors__max_errors
        line = (f"ierr {sp.n_different_items} {sp.n_items} {sp.bin_width} {sp.bin_height} {sp.min_bins} {sp.item_width_min} "
                f"{sp.item_width_max} {sp.item_height_min} {sp.item_height_max} {sp.total_item_area} ; "
                f"{inst.bin_width} {inst.bin_height} ; {fitems(items)}")
        ops.append(line)
        expect.append(("ierr", "errors", f"m={mx} v={float(val).hex()}", (t, inst, val)))
        ck.case(line)
        ck.count("errors_template" if inst is t.inst else "errors_generated")
        ck.spec(0.0 <= val <= 1.0, "errors_range", f"Errors.evaluate = {val} outside [0,1]", {"template": t.name, "items": items})
        if inst is t.inst:
            ck.spec(val == 0.0, "errors_template", f"Errors.evaluate(template) = {val} != 0", {"template": t.name})

    # ---- run the model, compare, evaluate the Lean spec on the implementation's instances
    outs = ck.model(ops)
    for line, (op, stream, iout, ctx), mout in zip(ops, expect, outs):
        if op in ("mt", "ispace"):
            ck.compare(stream, line, mout, iout)
            continue
        if op == "ierr":
            d = kv(mout)
            if "num" in d:
                q = int(d["num"]) / int(d["den"])
                mcanon = f"m={d['m']} v={float(q).hex()}"
            else:
                mcanon = mout
            ck.compare(stream, line, mcanon, iout)
            t, inst, val = ctx
            if "e" in d and inst is t.inst:
                ck.spec(d["e"] == "0", "errors_template", f"error count of the template itself is {d['e']}", {"template": t.name})
            continue
        # igen
        if iout == "OOB":
            ck.compare(stream, line[:300], mout, iout)
            continue
        d = kv(mout)
        mcanon = " ".join(f"{k}={d.get(k)}" for k in ("merged", "final", "n", "area"))
        same = ck.compare(stream, line[:600], mcanon, iout)
        t, x, res, in_range = ctx
        if not in_range and stream not in ("exhaustive", "exh_sampled", "corpus"):
            continue
        sp = t.space
        case = {"template": t.name, "W": t.W, "H": t.H, "min_bins": t.k, "n_items": t.n,
                "template_items": t.items if len(t.items) <= 12 else f"<{len(t.items)} types>",
                "x": [float(v).hex() for v in x] if len(x) <= 40 else f"<{len(x)} entries>", "x_repr": repr(list(x))[:1500],
                "result": np.asarray(res).tolist() if res.n_different_items <= 30 else "<large>",
                "area": res.total_item_area, "lower_bound_bins": res.lower_bound_bins}
        ck.spec(d.get("valid") == "true", "valid", "decoded instance violates Inst.Valid", case)
        ck.spec(d.get("needs") == "true", "needs_bins",
                f"total item area {res.total_item_area} is not in ({(t.k - 1) * t.W * t.H}, {t.k * t.W * t.H}]: "
                f"the items do not need min_bins={t.k} bins by area", case)
        ck.spec(d.get("geo") == str(t.k), "geo_bound", f"ceil(area/bin_area)={d.get('geo')} != min_bins={t.k}", case)
        # the packing witness is the model's layout: only meaningful when model and implementation agree
        ck.spec((not same) or d.get("spec") == "true", "good_for",
                "Lean spec GoodFor (valid, W/H/n_items of the template, packable into min_bins bins by the guillotine "
                "layout, area needs min_bins bins) fails on the implementation's instance", case)
        ck.spec(res.lower_bound_bins == sp.min_bins, "lower_bound",
                f"lower_bound_bins={res.lower_bound_bins} != min_bins={sp.min_bins}", case)
        ck.spec(res.name == sp.inst_name and res.bin_width == sp.bin_width and res.bin_height == sp.bin_height
                and res.n_items == sp.n_items, "shape", "name / bin size / n_items differ from the template's", case)
        try:
            sp.validate([res])
            okv = True
        except ValueError:
            okv = False
        ck.spec(okv, "space_validate", "InstanceSpace.validate rejects the decoded instance", case)

    # ---- determinism: decode again (fresh receiver, used receiver) -> identical instance incl. item order
    sample = [e for e in expect if e[0] == "igen" and e[3] is not None]
    for (_, stream, _, (t, x, res, _)) in rng.sample(sample, min(len(sample), 300 if ck.quick else 3000)):
        y = [t.inst, t.inst]
        r2, _ = impl_decode(t, x, y)
        same = (np.asarray(r2).tolist() == np.asarray(res).tolist() and r2.name == res.name and len(y) == 2
                and y[1] is t.inst and y[0] is r2)
        ck.spec(same, "deterministic", "second decode of the same vector differs / receiver list handled differently",
                {"template": t.name, "x_repr": repr(list(x))[:1500]})
        ck.count("redecode")

    hardness_test(ck, tpls)


def hardness_test(ck: Check, tpls) -> None:
    """Hardness runs moptipy algorithms (external): sampled range + repeatability test, tiny budgets."""
    from moptipyapps.binpacking2d.instgen.errors_and_hardness import ErrorsAndHardness
    from moptipyapps.binpacking2d.instgen.hardness import Hardness
    small = [t for t in tpls if t.n <= 20 and t.W * t.H <= 10**4 and t.base >= 1]
    pick = ck.rng.sample(small, min(len(small), 3 if ck.quick else 12))
    shared = Hardness(max_fes=24, n_runs=2)      # one objective object for ALL instances, as an optimiser uses it
    shared_eh = None
    fresh: dict = {}
    for t in pick:
        x = [ck.rng.uniform(-1, 1) for _ in range(2 * t.base + 4)]
        res, _ = impl_decode(t, x)
        # "identical for repeated evaluations of the same instance" also when OTHER instances (other names) were
        # evaluated in between on the same object: A, B, A, A, B against the value a fresh object gives
        try:
            for inst in (res, t.inst, res, res, t.inst):
                key = (inst.name, tuple(tuple(map(int, r)) for r in inst))
                if key not in fresh:
                    fresh[key] = Hardness(max_fes=24, n_runs=2).evaluate(inst)
                v = shared.evaluate(inst)
                ck.count("hardness_shared_eval")
                ck.spec(v == fresh[key], "hardness_repeat",
                        f"Hardness.evaluate of instance '{inst.name}' on an object that evaluated other instances before = {v}, "
                        f"a fresh object gives {fresh[key]}", {"template": t.name, "instance": inst.name,
                                                               "items": [list(map(int, r)) for r in inst]})
        except ValueError as e:
            ck.spec(False, "hardness_raises", f"Hardness.evaluate raised {e!r}", {"template": t.name})
        for inst in (res, t.inst):
            case = {"template": t.name, "items": [list(map(int, r)) for r in inst]}
            try:
                h1 = Hardness(max_fes=24, n_runs=2)
                a, b = h1.evaluate([inst]), h1.evaluate(inst)
                c = Hardness(max_fes=24, n_runs=2).evaluate([inst])
                eh = ErrorsAndHardness(t.space, max_fes=24, n_runs=1)
                v1, v2 = eh.evaluate([inst]), eh.evaluate([inst])
            except ValueError as e:
                ck.spec(False, "hardness_raises", f"Hardness/ErrorsAndHardness.evaluate raised {e!r}", case)
                continue
            ck.count("hardness_eval", 3)
            ck.spec(0.0 <= a <= 1.0, "hardness_range", f"Hardness.evaluate = {a} outside [0,1]", case)
            ck.spec(a == b == c, "hardness_repeat", f"Hardness.evaluate not repeatable: {a}, {b}, {c}", case)
            ck.count("errors_and_hardness_eval", 2)
            ck.spec(0.0 <= v1 <= 1.0 and v1 == v2, "errors_and_hardness", f"ErrorsAndHardness.evaluate = {v1}, {v2}", case)


def check(ck: Check) -> None:
    ck.rule = ("corpus vector of the repaired slack-area defect; binary64 int(k*x) op on boundary values; InstanceSpace fields of synthetic/random/shipped templates; decode: "
               "exhaustive vectors over a 10-value alphabet (-1, -0.0, 0.0, 1, float neighbours, +-0.5) for tiny templates "
               "(n_items - min_bins <= 2, <= 2 slack pairs; sampled above the cap), per template vectors of every admissible "
               "length with 0..6 slack pairs (constant boundary vectors, uniform, mixed, greedy-slack, thin-slice), short/odd/"
               "out-of-range vectors (correspondence only); Errors on generated instances and the template; a case is one "
               "protocol line; non-trivial = decode produced an instance; distinct by line hash")
    ck.assumptions += [
        "numpy default_rng(seed).shuffle permutes the merged item list; the permutation is a function of the bytes of x and the "
        "list length only (the harness recomputes it on range(n) and hands it to the model, exact order is compared)",
        "Python/numpy: int*np.float64 is one IEEE-754 binary64 multiplication (round to nearest even), int() truncates toward zero "
        "(model truncMul, checked on boundary values by this stream); list.sort on [w,h] lists is lexicographic",
        "Instance.__new__ accepts exactly Pack.Inst.Valid (C04 correspondence) when the name is sanitised; sanitize_name(name+'n') "
        "= name+'n' for a template name; lower_bound_bins (Dell'Amico-Martello-Vigo, C03) is not modelled here: "
        "lower_bound_bins = min_bins follows from geoBound = min_bins, packability and C03's lowerBound_le_bins; the harness "
        "checks it directly on the implementation",
        "Hardness/ErrorsAndHardness run moptipy algorithms (external): only their clamp arithmetic is modelled (over the "
        "rationals); range and repeatability are tested on samples with tiny budgets (level: test)",
    ]
    ck.not_proved += [
        "templates with more than 1e8 items (InstanceSpace accepts up to 1e9): Instance() can reject the generated item list "
        "(multiplicity or number of types > 1e8); decode_succeeds carries n_items <= 1e8, decode_instance_ok holds whenever the "
        "constructor accepts",
        "Hardness: float arithmetic and the optimisation runs are outside the proof (sampled test only)",
    ]
    ck.lean(["Props.C17", "Props.C17LB"], THEOREMS + ["InstGen.lower_bound_eq_min_bins"])
    streams(ck)
