"""Regenerate every lean/Gen/*.lean from the tree under test (default /repo): run before committing, because runs against
scratch trees (VERIF_REPO, selftest) leave THEIR translation in lean/Gen.   usage: python -m harness.regen"""
from __future__ import annotations

import sys

from . import common
from .translate import loop2lean, minann_idx


def main() -> int:
    bad = 0
    ck = common.Check("C16", "quick", 0)
    from . import c16
    try:
        m = c16.meta(ck)
        print("py2lean:", len(m["kernels"]), "kernels,", len(m["failures"]), "failures, changed:", m["changed"])
        bad += len(m["failures"])
    except Exception as e:  # noqa: BLE001
        print("py2lean FAILED", e)
        bad += 1
    try:
        print("minann_idx:", len(minann_idx.emit(common.REPO, common.LEAN)["registrations"]), "registrations")
    except Exception as e:  # noqa: BLE001
        print("minann_idx FAILED", e)
        bad += 1
    for name in sorted(n for n in dir(loop2lean) if n.startswith("emit_")):
        try:
            r = getattr(loop2lean, name)(common.REPO, common.LEAN)
            print(f"loop2lean.{name}: ok", r if isinstance(r, (dict, list, tuple)) and len(str(r)) < 200 else "")
        except Exception as e:  # noqa: BLE001
            print(f"loop2lean.{name} FAILED: {e!r}")
            bad += 1
    return 1 if bad else 0


if __name__ == "__main__":
    sys.exit(main())
