"""Helpers of the C03 harness: an exact packer for tiny instances and constructive packings.

The exact packer decides "do these rectangles (90-degree rotation allowed) fit into k bins of W x H"
by the first-free-cell rule: in row-major order the first undecided cell of a bin is either the
bottom-left corner of some item or it stays empty (waste; the total waste is bounded by
k*W*H - item area).  This enumeration is complete for integer coordinates: in any packing the
bottom-left corner cell of the item covering the first undecided cell precedes or equals that cell.
It returns a witnessing packing (rows `id bin l b r t`, ids 1-based, bins 1-based), which the harness
validates with the Lean specification `Pack.Feasible` - the packer itself is not trusted.
"""
from __future__ import annotations


class Budget(Exception):
    pass


def pack_exact(W: int, H: int, items, k: int, node_limit: int = 400_000):
    """items = [(w, h, rep)]; returns rows of a packing into <= k bins, or None if there is none."""
    nt = len(items)
    area = sum(w * h * r for w, h, r in items)
    if area > k * W * H:
        return None
    full = (1 << (W * H)) - 1
    # orientations per type: list of (w, h)
    orients = []
    for w, h, _ in items:
        o = []
        if w <= W and h <= H:
            o.append((w, h))
        if w != h and h <= W and w <= H:
            o.append((h, w))
        if not o:
            return None
        orients.append(o)
    # masks[(w,h)][cell] = bitmask or 0 if it does not fit there
    masks = {}
    for o in orients:
        for (w, h) in o:
            if (w, h) in masks:
                continue
            m = [0] * (W * H)
            row = (1 << w) - 1
            for y in range(H - h + 1):
                for x in range(W - w + 1):
                    b = 0
                    for dy in range(h):
                        b |= row << ((y + dy) * W + x)
                    m[y * W + x] = b
            masks[(w, h)] = m
    areas = [w * h for w, h, _ in items]
    dead: set = set()
    nodes = [0]
    placed: list = []

    def next_bin(counts, bins_left):
        """pack the remaining items into `bins_left` fresh bins"""
        if not any(counts):
            return True
        if bins_left == 0:
            return False
        key = (counts, bins_left)
        if key in dead:
            return False
        rem_area = sum(c * a for c, a in zip(counts, areas))
        waste = bins_left * W * H - rem_area
        if waste < 0:
            dead.add(key)
            return False
        if fill(list(counts), 0, waste, bins_left, 0, True):
            return True
        dead.add(key)
        return False

    def fill(counts, occ, waste, bins_left, start, empty):
        nodes[0] += 1
        if nodes[0] > node_limit:
            raise Budget
        # first free cell
        free = ~occ & full
        if free == 0 or not any(counts):
            if empty:
                return False
            return next_bin(tuple(counts), bins_left - 1)
        cell = (free & -free).bit_length() - 1
        x = cell % W
        for t in range(nt):
            if counts[t] == 0:
                continue
            for (w, h) in orients[t]:
                if x + w > W:
                    continue
                m = masks[(w, h)][cell]
                if m == 0 or (m & occ):
                    continue
                counts[t] -= 1
                placed.append((t, k - bins_left + 1, x, cell // W, x + w, cell // W + h))
                if fill(counts, occ | m, waste, bins_left, cell, False):
                    return True
                placed.pop()
                counts[t] += 1
        if waste > 0:
            if fill(counts, occ | (1 << cell), waste - 1, bins_left, cell, empty):
                return True
        # closing the bin early is covered by wasting all remaining cells only if the waste budget
        # allows it, which it always does for a bin that is closed in a valid packing.
        return False

    counts0 = tuple(r for _, _, r in items)
    for kk in range(max(1, -(-area // (W * H))), k + 1):   # exactly kk non-empty bins
        del placed[:]
        if next_bin(counts0, kk):
            return [[t + 1, b - (k - kk), l, bt, r, tp] for (t, b, l, bt, r, tp) in placed]
    return None


def optimum(W: int, H: int, items, kmax: int | None = None, node_limit: int = 400_000):
    """smallest k with a packing, and that packing; (None, None) if the node budget is exhausted"""
    area = sum(w * h * r for w, h, r in items)
    n = sum(r for _, _, r in items)
    k = max(1, -(-area // (W * H)))
    try:
        while k <= (kmax or n):
            rows = pack_exact(W, H, items, k, node_limit)
            if rows is not None:
                nb = max(r[1] for r in rows)
                return nb, rows
            k += 1
    except Budget:
        return None, None
    return None, None


def guillotine(rng, W: int, H: int, k: int, max_pieces: int):
    """k bins cut completely into rectangles by random guillotine cuts: returns placed rectangles
    [(bin, l, b, r, t)] that tile every bin exactly."""
    out = []
    for b in range(1, k + 1):
        rects = [(0, 0, W, H)]
        target = rng.randint(1, max_pieces)
        tries = 0
        while len(rects) < target and tries < 4 * target:
            tries += 1
            i = rng.randrange(len(rects))
            l, bt, r, t = rects[i]
            horiz = rng.random() < 0.5
            if horiz and r - l >= 2:
                c = rng.randint(l + 1, r - 1)
                if rng.random() < 0.3:      # cuts at the half-bin thresholds
                    c = min(r - 1, max(l + 1, l + rng.choice([W // 2, W // 2 + 1, H // 2, H // 2 + 1, (W + 1) // 2])))
                rects[i] = (l, bt, c, t)
                rects.append((c, bt, r, t))
            elif not horiz and t - bt >= 2:
                c = rng.randint(bt + 1, t - 1)
                if rng.random() < 0.3:
                    c = min(t - 1, max(bt + 1, bt + rng.choice([H // 2, H // 2 + 1, W // 2, (H + 1) // 2])))
                rects[i] = (l, bt, r, c)
                rects.append((l, c, r, t))
        out.extend((b, *rc) for rc in rects)
    return out


def instance_from_placed(rng, placed, drop: int = 0):
    """group placed rectangles into item types (identical up to rotation), optionally drop some
    rectangles; returns (items, rows, n_bins) with bins renumbered 1..n_bins without gaps."""
    placed = list(placed)
    for _ in range(min(drop, len(placed) - 1)):
        placed.pop(rng.randrange(len(placed)))
    bins = sorted({p[0] for p in placed})
    renum = {b: i + 1 for i, b in enumerate(bins)}
    types: dict = {}
    items: list = []
    rows = []
    for (b, l, bt, r, t) in placed:
        w, h = r - l, t - bt
        key = (max(w, h), min(w, h))
        if key not in types:
            types[key] = len(items)
            # declare the type in a random orientation
            items.append([w, h, 0] if rng.random() < 0.5 else [h, w, 0])
        i = types[key]
        items[i][2] += 1
        rows.append([i + 1, renum[b], l, bt, r, t])
    return items, rows, len(bins)
