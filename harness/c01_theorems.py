"""Theorem list of Props/C01.lean (kept separate so that c14.py can reuse the C01 streams)."""
THEOREMS: list[str] = []
