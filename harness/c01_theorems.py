"""Theorem list of Props/C01.lean (kept separate so that c14.py can reuse the C01 streams)."""
THEOREMS = [
    "Ibl.settle_terminates", "Ibl.settle_keeps_clear", "Ibl.rotation_fits",
    "Ibl.decode1_feasible", "Ibl.decode1_stateless", "Ibl.decode2_feasible",
    "Ibl.packing_values_fit_dtype",
]
