"""C12 — bundled experiment runs are replicable and log true results (DESIGN.md section 6).

Evidence level `other`: INDEPENDENT VERIFIED ORACLES + SAMPLED RUNS.  A whole run of a moptipy algorithm under
a numpy random generator and an FE budget has no executable Lean model that could be tied to the code, so the
universal statement (all setups x instances x seeds x budgets) is NOT proved.  What this check does:

* every configuration is a small JSON dictionary (`cfg`) from which the Execution is rebuilt exactly as the
  bundled module builds it (its own `rls` / `fea` / `cmaes` / ... functions are called; only `max_fes`,
  the seed and the log file are set afterwards), so every reported case can be re-run from its `case`;
* each configuration is executed twice in this process (and a sample of them a third time in a fresh
  interpreter with another PYTHONHASHSEED): best f, best x, best y, consumed FEs, last-improvement FE must agree;
* the final solutions are judged by the compiled Lean *specifications* of the other properties
  (`drv_c01` Pack.Feasible, `drv_c02` documented objective values and bounds, `drv_c05` cyclic tour sum and
  permutation test, `drv_c07` TTP space membership / consistency / error count, `drv_c08` walk length,
  `drv_c09` QAP double sum), and by a FRESH objective object of the real code;
* the log files are read back with `packing_result.from_logs` / `Packing.from_log` and, independently, with a
  25-line section reader of this file.

Re-run one case:  /venv/bin/python -m harness.c12 --one '<cfg json>'      (cwd /verif)
"""
from __future__ import annotations

import contextlib
import importlib
import importlib.util
import io
import json
import math
import os
import re
import shutil
import signal
import subprocess
import sys
import time
import traceback
from pathlib import Path

from .common import REPO, ROOT, Check, fmt_ints, fmt_matrix, kv

THEOREMS = ["C12." + t for t in (
    "binpacking_fe_pure", "binpacking_reevaluation", "tsp_value_true", "qap_value_true", "ttp_length_true",
    "ttp_errors_pure", "ttp_decoding_pure", "record_true", "record_fes", "record_lastImp", "loop_inv",
    "run_true_within_budget", "loopS_eq_loop", "run_replicable", "runS_eq_run")]

#: objective names in the order of the Lean `BinObj.Obj.all` (= the order of the `v=`/`s=`/`lo=`/`up=` tokens of drv_c02)
LEAN_OBJ = ["binCount", "binCountAndLastEmpty", "binCountAndEmpty", "binCountAndLastSmall", "binCountAndSmall",
            "binCountAndLastSkyline", "binCountAndLowestSkyline"]
SKY_SPEC_MAX_W = 4000      # the Lean skyline spec sums column by column

EXPLANATION = (
    "C12 quantifies over whole runs (setup x instance x seed x budget) of moptipy algorithms driven by numpy's PCG64 "
    "generator; no executable Lean model of moptipy's Process/RLS/FEA/NSGA-II/CMA-ES or of numpy's generator can be tied to "
    "code here, so the universal statement is NOT proved. Level 'other' = (1) machine-checked corollaries (Props/C12.lean): "
    "each objective-function evaluation contributed by moptipyapps is a pure function of the candidate and equals its "
    "documented value (bin packing: decode1 + all seven objectives for any prior destination/scratch content; TSP, QAP, TTP "
    "length, TTP errors, game decoding), and for an ABSTRACT deterministic search process (Model/Search.lean; a shape, not "
    "a model of moptipy) purity of the objective implementation implies run_replicable, and every run reports "
    "bestF = f(best) with FEs <= budget (run_true_within_budget); (2) SAMPLED real runs of every bundled setup, each "
    "executed twice in-process (plus a sample a third time in a fresh interpreter with a different PYTHONHASHSEED), compared "
    "field by field, with the final solutions judged by the compiled Lean SPECIFICATIONS proved in C01/C02/C05/C07/C08/C09 "
    "(not by the package's own validator/objective) and by fresh objective objects; log files parsed back by the package's "
    "from_logs and by an independent section reader. The quantifier over seeds, budgets and instances is sampled, not "
    "discharged; wall-clock limits are never used. The expensive setups are run on reduced but module-provided parameters: "
    "instgen with INNER_MAX_FES/INNER_RUNS set to tiny values (module attributes read by cmaes() at call time), dynamic "
    "control on make_stuart_landau(n)/make_lorenz(n) with 1-2 training points instead of 111/4.")


# ============================================================================================== small helpers
@contextlib.contextmanager
def quiet():
    """pycommons' logger and some repo modules print to stdout."""
    with contextlib.redirect_stdout(io.StringIO()):
        yield


def read_log(path) -> dict[str, list[str]]:
    """Independent reader of moptipy log files: BEGIN_X / END_X sections."""
    secs: dict[str, list[str]] = {}
    cur = None
    for line in Path(path).read_text().splitlines():
        if line.startswith("BEGIN_"):
            cur = line[6:]
            secs[cur] = []
        elif line.startswith("END_"):
            cur = None
        elif cur is not None:
            secs[cur].append(line)
    return secs


def keyvals(lines) -> dict[str, str]:
    d = {}
    for ln in lines:
        if ": " in ln:
            k, v = ln.split(": ", 1)
            d[k] = v
    return d


def num(s: str):
    try:
        return int(s)
    except ValueError:
        return float(s)


_EXAMPLES: dict[str, object] = {}


def example(name: str):
    """Import examples/<name>.py from the repository under another module name (its __main__ block does not run)."""
    if name not in _EXAMPLES:
        path = REPO / "examples" / f"{name}.py"
        spec = importlib.util.spec_from_file_location(f"c12_example_{name}", path)
        mod = importlib.util.module_from_spec(spec)
        spec.loader.exec_module(mod)
        _EXAMPLES[name] = mod
    return _EXAMPLES[name]


def bp_objective(name: str):
    from moptipyapps.binpacking2d.packing_result import DEFAULT_OBJECTIVES
    from moptipyapps.binpacking2d.instance import Instance
    namer = _CACHE.setdefault("bp_namer", Instance.from_resource("a04"))
    table = _CACHE.setdefault("bp_objs", {str(o(namer)): o for o in DEFAULT_OBJECTIVES})
    return table[name]


def bp_encoding(k: int):
    from moptipyapps.binpacking2d.encodings.ibl_encoding_1 import ImprovedBottomLeftEncoding1
    from moptipyapps.binpacking2d.encodings.ibl_encoding_2 import ImprovedBottomLeftEncoding2
    return ImprovedBottomLeftEncoding1 if k == 1 else ImprovedBottomLeftEncoding2


_CACHE: dict = {}


def bp_instance(name: str):
    from moptipyapps.binpacking2d.instance import Instance
    key = ("bp", name)
    if key not in _CACHE:
        _CACHE[key] = Instance.from_resource(name)
    return _CACHE[key]


def ctrl_system(cfg):
    key = ("sys", cfg["system"], cfg["n_points"])
    if key not in _CACHE:
        with quiet():
            if cfg["system"] == "stuart_landau":
                from moptipyapps.dynamic_control.systems.stuart_landau import make_stuart_landau
                _CACHE[key] = make_stuart_landau(cfg["n_points"])
            else:
                from moptipyapps.dynamic_control.systems.lorenz import make_lorenz
                _CACHE[key] = make_lorenz(cfg["n_points"])
    return _CACHE[key]


def ctrl_controllers(system):
    """The controller families experiment_raw.make_instances uses (first member of each family), >= 2 parameters."""
    key = ("ctrls", id(system))
    if key not in _CACHE:
        from moptipyapps.dynamic_control.controllers.ann import anns
        from moptipyapps.dynamic_control.controllers.cubic import cubic
        from moptipyapps.dynamic_control.controllers.linear import linear
        from moptipyapps.dynamic_control.controllers.min_ann import min_anns
        from moptipyapps.dynamic_control.controllers.partially_linear import partially_linear
        from moptipyapps.dynamic_control.controllers.peaks import peaks
        from moptipyapps.dynamic_control.controllers.quadratic import quadratic
        cs = [linear(system), quadratic(system), cubic(system)]
        for fam in (anns, min_anns, partially_linear, peaks):
            cs.extend(list(fam(system))[:2])
        _CACHE[key] = {str(c): c for c in cs if c.param_dims >= 2}
    return _CACHE[key]


# ============================================================================================== building a run
def build(cfg: dict):
    """cfg -> (execution exactly as the bundled module builds it, instance object, auxiliary dict)."""
    kind = cfg["kind"]
    aux: dict = {}
    if kind == "bp":
        from moptipyapps.binpacking2d import experiment as bexp
        inst = bp_instance(cfg["instance"])
        fn = {"rls": bexp.rls, "fea": bexp.fea}[cfg["setup"]]
        exe = fn(inst, bp_encoding(cfg["encoding"]), bp_objective(cfg["objective"]))
        return exe, inst, aux
    if kind == "tsp":
        from moptipy.api.execution import Execution
        from moptipy.spaces.permutations import Permutations
        from moptipyapps.tsp.instance import Instance
        from moptipyapps.tsp.tour_length import TourLength
        inst = Instance.from_resource(cfg["instance"])
        space = Permutations.standard(inst.n_cities)
        if cfg["setup"] == "ea":
            from moptipyapps.tsp.ea1p1_revn import TSPEA1p1revn
            algo = TSPEA1p1revn(inst)
        elif cfg["setup"] == "fea":
            from moptipyapps.tsp.fea1p1_revn import TSPFEA1p1revn
            algo = TSPFEA1p1revn(inst)
        else:   # examples/tsp_rls.py (the file runs at import time, so its builder chain is repeated here)
            from moptipy.algorithms.so.rls import RLS
            from moptipy.operators.permutations.op0_shuffle import Op0Shuffle
            from moptipy.operators.permutations.op1_swapn import Op1SwapN
            algo = RLS(Op0Shuffle(space), Op1SwapN())
        exe = Execution().set_solution_space(space).set_algorithm(algo).set_objective(TourLength(inst))
        return exe, inst, aux
    if kind == "ttp":
        from moptipyapps.ttp.instance import Instance
        mod = example("ttp_example_experiment_rls_rs")
        inst = Instance.from_resource(cfg["instance"])
        return getattr(mod, cfg["setup"])(inst), inst, aux
    if kind == "ttpmo":
        from moptipyapps.ttp.instance import Instance
        mod = example("ttp_example_experiment_mo")
        inst = Instance.from_resource(cfg["instance"])
        return getattr(mod, cfg["setup"])(inst), inst, aux
    if kind == "qap":
        from moptipyapps.qap.instance import Instance
        mod = example("qap_example_experiment_rls_rs")
        inst = Instance.from_resource(cfg["instance"])
        return getattr(mod, cfg["setup"])(inst), inst, aux
    if kind == "instgen":
        from moptipyapps.binpacking2d.instgen import experiment as iexp
        from moptipyapps.binpacking2d.instgen.problem import Problem
        # the module's own parameters, read by cmaes() when it is called
        iexp.INNER_MAX_FES, iexp.INNER_RUNS = cfg["inner_fes"], cfg["inner_runs"]
        prob = Problem(cfg["instance"], cfg["slack"])
        aux["problem"] = prob
        return iexp.cmaes(prob), prob, aux
    if kind == "ctrl_raw":
        from moptipyapps.dynamic_control import experiment_raw as er
        from moptipyapps.dynamic_control.instance import Instance
        system = ctrl_system(cfg)
        inst = Instance(system, ctrl_controllers(system)[cfg["controller"]])
        return er.cmaes(inst), inst, aux
    if kind == "ctrl_sur":
        from moptipyapps.dynamic_control import experiment_surrogate as es
        from moptipyapps.dynamic_control.controllers.ann import make_ann
        from moptipyapps.dynamic_control.system_model import SystemModel
        system = ctrl_system(cfg)
        sd, cd = system.state_dims, system.control_dims
        inst = SystemModel(system, make_ann(sd, cd, cfg["ctrl_layers"]), make_ann(sd + cd, sd, cfg["model_layers"]))
        if cfg["setup"] == "cmaes_raw":
            return es.cmaes_raw(inst), inst, aux
        return es.cmaes_surrogate(inst, cfg["warmup"], cfg["training"], cfg["model_run"], False), inst, aux
    raise ValueError(kind)


def log_path(root: Path, tag: str, cfg: dict, exe, inst) -> Path:
    from moptipy.utils.strings import sanitize_name
    algo = sanitize_name(str(exe._algorithm))
    iname = sanitize_name(str(inst))
    parts = [tag, cfg["kind"]]
    if cfg["kind"] == "bp":
        parts += [cfg["objective"], f"enc{cfg['encoding']}"]
    d = root.joinpath(*parts, algo, iname)
    d.mkdir(parents=True, exist_ok=True)
    return d / f"{algo}_{iname}_0x{cfg['seed']:x}.txt"


def jsonable(v):
    import numpy as np
    if isinstance(v, np.ndarray):
        return v.tolist()
    if isinstance(v, np.generic):
        return v.item()
    return v


def run_config(cfg: dict, root: Path, tag: str, twice: bool = False) -> dict:
    """Execute one configuration; everything returned is JSON-able (so a fresh interpreter can be compared).
    `twice`: execute the SAME configured Execution object a second time (result under key "second")."""
    import numpy as np
    with quiet(), dependency_patch(cfg.get("patch_dep", False)):
        exe, inst, aux = build(cfg)
        lf = log_path(root, tag, cfg, exe, inst)
        exe.set_max_fes(int(cfg["budget"]), True).set_rand_seed(int(cfg["seed"])).set_log_file(str(lf))
        # every evaluation the run hands to its objective, in order (the process binds `objective.evaluate` when it is
        # created, so an instance attribute is what it calls): two runs with the same seed are the same SEQUENCE, and
        # where they are not, some shorter budget separates their results (see `prefix_budget`)
        seq: list = []
        obj = exe._objective
        if cfg["kind"] != "ttpmo" and hasattr(obj, "evaluate"):
            orig_eval = obj.evaluate

            def recording(x, _o=orig_eval):
                f = _o(x)
                seq.append([jsonable(np.array(x, copy=True)) if isinstance(x, np.ndarray) else repr(x)[:2000], jsonable(f)])
                return f
            try:
                obj.evaluate = recording
            except AttributeError:
                pass
        res = _execute_once(cfg, exe, lf, np)
        res["seq"] = list(seq)
        if twice and res["err"] is None:
            del seq[:]
            lf2 = log_path(root, tag + "_again", cfg, exe, inst)    # its own directory tree (log readers walk whole trees)
            exe.set_log_file(str(lf2))
            res["second"] = _execute_once(cfg, exe, lf2, np)
            res["second"]["seq"] = list(seq)
    return res


def _execute_once(cfg: dict, exe, lf, np) -> dict:
    res: dict = {"err": None, "log": str(lf), "algo": str(exe._algorithm)}
    try:
        with time_limit(cfg.get("time_limit", 0)), exe.execute() as p:
            res["has_best"] = bool(p.has_best())
            if res["has_best"]:
                res["f"] = jsonable(p.get_best_f())
                res["fes"] = int(p.get_consumed_fes())
                res["li"] = int(p.get_last_improvement_fe())
                res["max_fes"] = p.get_max_fes()
                x = p.create()
                p.get_copy_of_best_x(x)
                res["x"] = jsonable(x)
                ss = exe._solution_space
                y = ss.create()
                p.get_copy_of_best_y(y)
                if cfg["kind"] == "instgen":
                    res["y"] = ss.to_str(y)
                else:
                    res["y"] = jsonable(np.asarray(y))
                if cfg["kind"] == "bp":
                    res["nbins"] = jsonable(y.n_bins)
                if cfg["kind"] == "ttpmo":
                    fs = exe._objective.f_create()
                    p.get_copy_of_best_fs(fs)
                    res["fs"] = jsonable(fs)
                    res["weights"] = [jsonable(w) for w in (exe._objective.weights or ())]
                    res["archive"] = sorted([jsonable(r.x), jsonable(r.fs)] for r in p.get_archive())
    except RunTimeout:
        res["err"] = res["timeout"] = f"time limit of {cfg.get('time_limit')} s of the harness exceeded"
    except Exception as e:  # noqa: BLE001 - a run that raises is a finding, not an internal error
        res["err"] = f"{type(e).__name__}: {e}"
        res["err_frames"] = " ".join(f"{os.path.basename(fr.filename)}:{fr.name}" for fr in traceback.extract_tb(e.__traceback__))
    return res


class RunTimeout(BaseException):
    """raised by the harness' own alarm (BaseException: moptipy's `except Exception` must not swallow it)"""


@contextlib.contextmanager
def time_limit(seconds: int):
    if not seconds:
        yield
        return

    def handler(signum, frame):
        raise RunTimeout

    old_handler = signal.signal(signal.SIGALRM, handler)
    signal.alarm(int(seconds))
    try:
        yield
    finally:
        signal.alarm(0)
        signal.signal(signal.SIGALRM, old_handler)


@contextlib.contextmanager
def dependency_patch(on: bool):
    """Neutralise the dependency defect behind the known finding `control_run_raises` for an ADDITIONAL pass over the
    surrogate setups: moptipy's cmaes_lib renders its restart table with pycommons' num_to_str, which rejects numpy.int64."""
    if not on:
        yield
        return
    import numpy as np
    from moptipy.algorithms.so.vector import cmaes_lib
    orig = cmaes_lib.num_to_str
    # (the same table row also holds the bool `is_small_pop`, which num_to_str rejects as well)
    cmaes_lib.num_to_str = lambda v: str(v) if isinstance(v, bool) else orig(v.item() if isinstance(v, np.generic) else v)
    try:
        yield
    finally:
        cmaes_lib.num_to_str = orig


def error_key(cfg: dict, r: dict) -> str:
    """`control_run_raises` ONLY for the known dependency defect in the surrogate setups; anything else is `run_raises`."""
    fr = r.get("err_frames", "")
    if (cfg["kind"] == "ctrl_sur" and not cfg.get("patch_dep")
            and (r.get("err") or "").startswith("TypeError: value should be an instance of float but is numpy.int64")
            and "cmaes_lib.py:solve" in fr and "string_conv.py:num_to_str" in fr):
        return "control_run_raises"
    return "run_raises"


def prefix_budget(sa: list, sb: list):
    """smallest number k of evaluations after which the best objective value seen so far differs between the two
    recorded sequences (None if there is none): a run with budget k ends exactly there"""
    best_a = best_b = None
    for k in range(1, min(len(sa), len(sb)) + 1):
        fa, fb = sa[k - 1][1], sb[k - 1][1]
        try:
            best_a = fa if best_a is None or fa < best_a else best_a
            best_b = fb if best_b is None or fb < best_b else best_b
        except TypeError:
            return None
        if best_a != best_b and k >= 2:
            return k
    return None


CMP_FIELDS = ("err", "has_best", "f", "fes", "li", "x", "y", "nbins", "fs", "archive")


def differences(a: dict, b: dict) -> list[str]:
    out = []
    for k in CMP_FIELDS:
        va, vb = a.get(k), b.get(k)
        if va != vb and not (isinstance(va, float) and isinstance(vb, float) and math.isnan(va) and math.isnan(vb)):
            sa, sb = json.dumps(va, default=str), json.dumps(vb, default=str)
            out.append(f"{k}: {sa[:120]} != {sb[:120]}")
    return out


# ============================================================================================== configurations
def sample_configs(ck: Check) -> list[dict]:
    rng, q = ck.rng, ck.quick
    cfgs: list[dict] = []
    seen = set()

    def add(c):
        key = json.dumps({k: v for k, v in c.items() if k != "budget"}, sort_keys=True)
        if key not in seen:
            seen.add(key)
            cfgs.append(c)

    def seed():
        return rng.getrandbits(63)

    # (1) bin packing: rls/fea x 7 objectives x 2 encodings x small shipped instances x seeds
    from moptipyapps.binpacking2d.instance import Instance as BInst
    pool = []
    for nm in BInst.list_resources():
        inst = bp_instance(nm)
        if inst.n_items <= (25 if q else 45) and inst.bin_width <= SKY_SPEC_MAX_W:
            pool.append(nm)
    ck.count("bp_instance_pool", len(pool))
    n_inst, n_seed = (3, 1) if q else (16, 4)
    for setup in ("rls", "fea"):
        for obj in LEAN_OBJ:
            for enc in (1, 2):
                for nm in rng.sample(pool, n_inst):
                    for _ in range(n_seed):
                        add({"kind": "bp", "setup": setup, "objective": obj, "encoding": enc, "instance": nm,
                             "seed": seed(), "budget": rng.choice([30, 50, 80, 120, 200, 300])})
    # (2) TSP
    from moptipyapps.tsp.instance import Instance as TInst, ncities_from_tsplib_name
    tpool = [nm for nm in TInst.list_resources(True, False) if ncities_from_tsplib_name(nm) <= (30 if q else 60)]
    n_inst, n_seed = (4, 1) if q else (min(12, len(tpool)), 5)
    for setup in ("ea", "fea", "rls"):
        for nm in rng.sample(tpool, n_inst):
            for _ in range(n_seed):
                add({"kind": "tsp", "setup": setup, "instance": nm, "seed": seed(),
                     "budget": rng.choice([30, 60, 100, 200, 300])})
    # (3) TTP and QAP example searches
    ttp_small = ["circ4", "circ6", "circ8"] if q else ["circ4", "circ6", "circ8", "circ10", "circ12"]
    for setup in ("rls", "rs"):
        for nm in rng.sample(ttp_small, 3 if q else 5):
            for _ in range(1 if q else 3):
                add({"kind": "ttp", "setup": setup, "instance": nm, "seed": seed(),
                     "budget": rng.choice([30, 60, 120, 300])})
    # very short runs on larger instances: their best plans still contain byes (dropped games) inside long home/away
    # runs - the situations in which the error count's rules interact (found missing by seeded change
    # C12-bye-keeps-streak, which the long-budget runs on circ4/circ6 never reach)
    ttp_mid = ["circ8", "circ10", "circ12", "circ14", "circ16"]
    for setup in ("rls", "rs"):
        for nm in (ttp_mid if not q else rng.sample(ttp_mid, 4)):
            for _ in range(2 if q else 4):
                add({"kind": "ttp", "setup": setup, "instance": nm, "seed": seed(), "budget": rng.choice([3, 5, 8, 16])})
    from moptipyapps.ttp.instance import Instance as PInst
    mo_small = [nm for nm in PInst.list_resources() if re.fullmatch(r"[a-z]+\d+", nm) and int(re.search(r"\d+", nm)[0]) <= (6 if q else 10)]
    for setup in ("rls", "mo_nsga2"):
        for nm in rng.sample(mo_small, 2 if q else 5):
            for _ in range(1 if q else 2):
                add({"kind": "ttpmo", "setup": setup, "instance": nm, "seed": seed(),
                     "budget": rng.choice([40, 80, 150, 300])})
    from moptipyapps.qap.instance import Instance as QInst
    qpool = [nm for nm in QInst.list_resources() if int((re.search(r"\d+", nm) or [99])[0]) <= (16 if q else 26)]
    for setup in ("rls", "rs"):
        for nm in rng.sample(qpool, 4 if q else 10):
            for _ in range(1 if q else 3):
                add({"kind": "qap", "setup": setup, "instance": nm, "seed": seed(),
                     "budget": rng.choice([30, 60, 120, 300])})
    # (4) instance generation (tiny inner budgets) and controller synthesis (reduced systems)
    ig = [("beng01", 0.25), ("cl01_020_01", 0.125), ("beng02", 0.125)] if q else \
        [("beng01", 0.25), ("beng02", 0.125), ("cl01_020_01", 0.125), ("cl02_020_01", 0.25), ("cl04_020_01", 0.25),
         ("cl01_040_01", 0.125), ("beng03", 0.25), ("cl07_020_01", 0.125)]
    for nm, slack in ig:
        add({"kind": "instgen", "instance": nm, "slack": slack, "inner_fes": rng.choice([10, 20, 30]),
             "inner_runs": rng.choice([1, 2]), "seed": seed(), "budget": rng.choice([6, 8, 10, 12] if q else [8, 12, 20, 30])})
    sl = {"system": "stuart_landau", "n_points": 1}
    sl2 = {"system": "stuart_landau", "n_points": 2}
    lo = {"system": "lorenz", "n_points": 1}
    # one FE integrates the controlled system with scipy's RK45 (Python speed); some controller families make single
    # FEs take seconds to minutes for some parameter vectors, so the quick tier draws from the cheap families only
    # and every controller-synthesis run is executed under a harness time limit (a run that exceeds it yields no verdict)
    cheap = {"stuart_landau": ["linear", "linear_2", "cubic", "quadratic", "peaks_1", "peaks_2"],
             "lorenz": ["ann", "cubic", "quadratic", "peaks_1", "min_ann_1"]}
    limit = 90 if q else 300     # a ceiling against hangs only (a loaded machine must not turn runs into "no verdict")
    raw = [sl2, lo] if q else [sl2] * 5 + [lo] * 4 + [sl] * 2
    for sysd in raw:
        names = sorted(ctrl_controllers(ctrl_system({**sysd})).keys())
        if q:
            names = [n for n in names if n in cheap[sysd["system"]]]
        add({"kind": "ctrl_raw", **sysd, "controller": rng.choice(names), "seed": seed(),
             "budget": rng.choice([4, 5, 6] if q else [6, 8, 10]), "time_limit": limit})
    sur = [(sl, "cmaes_raw"), (sl, "cmaes_surrogate")] if q else \
        [(sl, "cmaes_raw"), (sl2, "cmaes_raw"), (lo, "cmaes_raw"), (sl, "cmaes_surrogate"), (sl2, "cmaes_surrogate"),
         (lo, "cmaes_surrogate")]
    for patched in (False, True):
        # second pass: the same bundled setups with the dependency defect behind the known finding `control_run_raises`
        # neutralised in-process (see dependency_patch), so that the surrogate loop itself is sampled as well
        for sysd, setup in sur:
            sd = 2 if sysd["system"] == "stuart_landau" else 3
            c = {"kind": "ctrl_sur", "setup": setup, **sysd, "ctrl_layers": [sd, sd], "model_layers": [sd, sd, sd],
                 "warmup": 2, "training": rng.choice([4, 6, 8]), "model_run": rng.choice([4, 6, 8]),
                 "seed": seed(), "budget": rng.choice([4, 5] if q else [5, 6]), "time_limit": limit}
            if patched:
                c["patch_dep"] = True
            add(c)
    # the SAME configured setup executed twice (a user repeats a run by calling execute() again): one configuration of every
    # kind, plus surrogate setups whose inner budgets are large enough for stale state of the first run to matter
    # (found missing by seeded change C12-surrogate-initialize-stays-disabled)
    have = set()
    for c in cfgs:
        if c["kind"] not in have and not (c["kind"] == "ctrl_sur" and not c.get("patch_dep")):
            have.add(c["kind"])
            c["same_exe"] = True
    # (thorough tier only: one such configuration costs minutes - model training with 256 FEs)
    for sysd in ([] if q else [sl, sl2]):
        sd = 2 if sysd["system"] == "stuart_landau" else 3
        add({"kind": "ctrl_sur", "setup": "cmaes_surrogate", **sysd, "ctrl_layers": [sd, sd], "model_layers": [sd, sd, sd],
             "warmup": 2, "training": 256, "model_run": 32, "seed": seed(), "budget": 3, "time_limit": 900,
             "patch_dep": True, "same_exe": True})
    return cfgs


# ============================================================================================== oracles
def short(cfg: dict) -> dict:
    return dict(cfg)


def oracle_lines(cfg: dict, res: dict, inst) -> list[tuple[str, str]]:
    """(driver, protocol line) pairs for the Lean specifications that judge the final solution of this run."""
    import numpy as np
    kind = cfg["kind"]
    if not res.get("has_best"):
        return []
    if kind == "bp":
        items = [[int(v) for v in r] for r in inst]
        W, H = int(inst.bin_width), int(inst.bin_height)
        rows = res["y"]
        k = res["nbins"]
        zeros = [0] * int(inst.n_items)
        return [("drv_c01", f"feas {W} {H} ; {fmt_matrix(items)} ; {int(k)} ; {fmt_matrix(rows)}"),
                ("drv_c02", f"obj {W} {H} {int(k)} {int(inst.lower_bound_bins)} 1 ; {fmt_matrix(items)} ; "
                            f"{fmt_matrix(rows)} ; {fmt_ints(zeros)}")]
    if kind == "tsp":
        M = np.asarray(inst).tolist()
        return [("drv_c05", f"tspL {fmt_matrix(M)} ; {fmt_ints(res['y'])}")]
    if kind in ("ttp", "ttpmo"):
        n = int(inst.n_cities)
        c = [inst.home_streak_min, inst.home_streak_max, inst.away_streak_min, inst.away_streak_max,
             inst.separation_min, inst.separation_max]
        t1 = [0] * (n * (n - 1) // 2)
        t2 = [[0] * n for _ in range(n)]
        out = [("drv_c07", f"ttpE {n} {int(inst.rounds)} ; {fmt_ints(c)} ; {fmt_matrix(res['y'])} ; {fmt_ints(t1)} ; "
                           f"{fmt_matrix(t2)}")]
        if kind == "ttpmo":
            pen = 2 * int(np.asarray(inst).max()) + 1
            M = np.asarray(inst).tolist()
            out.append(("drv_c08", f"ttpL {n} {pen} ; {fmt_matrix(M)} ; {fmt_matrix(res['y'])}"))
        return out
    if kind == "qap":
        return [("drv_c09", f"qapE {fmt_matrix(inst.flows.tolist())} ; {fmt_matrix(inst.distances.tolist())} ; "
                            f"{fmt_ints(res['y'])}")]
    if kind == "instgen":
        # the generated instance text: name;n_different;W;H;w,h[,rep];...
        parts = res["y"].split(";")
        W, H = int(parts[2]), int(parts[3])
        items = []
        for it in parts[4:]:
            v = [int(t) for t in it.split(",")]
            items.append(v + [1] if len(v) == 2 else v)
        return [("drv_c01", f"inst {W} {H} ; {fmt_matrix(items)}")]
    return []


def safe_fresh(cfg: dict, res: dict, inst) -> str:
    try:
        with quiet():
            return str(fresh_value(cfg, res, inst))
    except Exception as e:  # noqa: BLE001
        return f"raised:{type(e).__name__}"


def fresh_value(cfg: dict, res: dict, inst):
    """Independent re-evaluation of the reported solution with a FRESH objective object of the real code."""
    import numpy as np
    kind = cfg["kind"]
    if kind == "bp":
        from moptipyapps.binpacking2d.packing import Packing
        y = Packing(inst)
        y[:, :] = np.array(res["y"], dtype=np.int64)
        y.n_bins = res["nbins"]
        return int(bp_objective(cfg["objective"])(inst).evaluate(y))
    if kind == "tsp":
        from moptipyapps.tsp.tour_length import TourLength
        return int(TourLength(inst).evaluate(np.array(res["y"], dtype=np.int64)))
    if kind in ("ttp", "ttpmo"):
        from moptipyapps.ttp.errors import Errors
        from moptipyapps.ttp.game_plan_space import GamePlanSpace
        y = GamePlanSpace(inst).create()
        y[:, :] = np.array(res["y"], dtype=np.int64)
        e = int(Errors(inst).evaluate(y))
        if kind == "ttp":
            return e
        from moptipyapps.ttp.plan_length import GamePlanLength
        return [e, int(GamePlanLength(inst).evaluate(y))]
    if kind == "qap":
        from moptipyapps.qap.objective import QAPObjective
        return int(QAPObjective(inst).evaluate(np.array(res["y"], dtype=np.int64)))
    if kind == "instgen":
        from moptipyapps.binpacking2d.instgen.errors import Errors
        from moptipyapps.binpacking2d.instgen.errors_and_hardness import ErrorsAndHardness
        from moptipyapps.binpacking2d.instgen.hardness import Hardness
        space = inst.solution_space
        with quiet():
            y = space.from_str(res["y"])
            whole = ErrorsAndHardness(space, cfg["inner_fes"], cfg["inner_runs"]).evaluate(y)
            h = Hardness(cfg["inner_fes"], cfg["inner_runs"]).evaluate(y)
            e = Errors(space).evaluate(y)
        return [whole, max(0.0, min(1.0, ((h * 1000.0) + e) / 1001.0)), h, e]
    if kind in ("ctrl_raw", "ctrl_sur"):
        from moptipyapps.dynamic_control.instance import Instance
        from moptipyapps.dynamic_control.objective import FigureOfMeritLE
        with quiet():
            f = FigureOfMeritLE(Instance(inst.system, inst.controller))
            f.initialize()
            return float(f.evaluate(np.array(res["x"], dtype=float)))
    return None


# ============================================================================================== the streams
def streams(ck: Check) -> None:
    """Sampled runs of every bundled setup (B/C): replicability, Lean oracles on the final solutions, log round trip."""
    import numpy as np
    root = ck.work / "runs"
    if root.exists():
        shutil.rmtree(root)
    root.mkdir(parents=True)
    cfgs = sample_configs(ck)
    t_kind: dict[str, float] = {}
    runs: list[tuple[dict, dict, dict, object]] = []
    for cfg in cfgs:
        t0 = time.time()
        a = run_config(cfg, root, "A", twice=bool(cfg.get("same_exe")))
        if a.get("timeout"):    # one replacement with another seed; a run beyond the harness time limit yields no verdict
            ck.count(f"reseeded_after_harness_time_limit:{cfg['kind']}")
            ck.notes.append(f"harness time limit hit, configuration re-drawn with another seed: {json.dumps(cfg)}")
            cfg["seed"] = ck.rng.getrandbits(63)
            a = run_config(cfg, root, "A")
        b = dict(a) if a.get("timeout") else run_config(cfg, root, "B")
        line = json.dumps(cfg, sort_keys=True)
        ck.case(line)
        ck.case(line)
        ck.count(f"cfg:{cfg['kind']}:{cfg.get('setup', 'cmaes')}" + ("+dependency_patch" if cfg.get("patch_dep") else ""))
        ck.count(f"budget<={[b2 for b2 in (10, 30, 100, 300, 10**9) if cfg['budget'] <= b2][0]}")
        if cfg["kind"] == "bp":
            ck.count(f"bp:{cfg['objective']}:enc{cfg['encoding']}")
        with quiet():
            _, inst, _ = build(cfg)
        runs.append((cfg, a, b, inst))
        t_kind[cfg["kind"]] = t_kind.get(cfg["kind"], 0.0) + time.time() - t0
    ck.extra["seconds_per_kind"] = {k: round(v, 1) for k, v in t_kind.items()}

    # ---- a sample of the configurations a third time, in a fresh interpreter with another hash seed
    cand = [c for c in cfgs if c["kind"] in ("bp", "tsp", "ttp", "ttpmo", "qap")]
    ck.rng.shuffle(cand)
    sub, have = [], set()
    for c in cand:          # at least one configuration of every setup, then random ones
        if (c["kind"], c["setup"]) not in have:
            have.add((c["kind"], c["setup"]))
            sub.append(c)
    for c in cand:
        if len(sub) >= (16 if ck.quick else 60):
            break
        if c not in sub:
            sub.append(c)
    fresh = run_in_subprocess(ck, sub, root)
    by_line = {json.dumps(c, sort_keys=True): r for c, r in zip(sub, fresh)} if fresh is not None else {}

    # ---- run-level clauses
    ops: dict[str, list[str]] = {}
    where: list[tuple[int, str, int]] = []
    for i, (cfg, a, b, inst) in enumerate(runs):
        case = short(cfg)
        kind = cfg["kind"]
        key_rep = {"instgen": "instgen_repeat", "ctrl_raw": "control_repeat", "ctrl_sur": "control_repeat"}.get(kind, "replicable")
        if a.get("timeout") or b.get("timeout"):
            ck.count(f"skipped_harness_time_limit:{kind}")
            ck.notes.append(f"skipped (harness time limit, no verdict): {json.dumps(case)}")
            continue
        for tag, r in (("first", a), ("second", b)):
            if r["err"] is not None:
                ck.spec(False, error_key(cfg, r), f"{kind}/{cfg.get('setup', 'cmaes')}: the {tag} run raised {r['err'][:200]} "
                        f"(consumed FEs before the exception: {r.get('fes')} of {cfg['budget']}; frames: …{r.get('err_frames', '')[-160:]})", case)
                break
        diff = differences(a, b)
        ck.spec(not diff, key_rep, f"{kind}/{cfg.get('setup', 'cmaes')}: two runs with the same seed differ: " + "; ".join(diff)[:400], case)
        if a.get("second") is not None:
            ck.count(f"same_setup_executed_twice:{kind}")
            d3 = differences(a, a["second"])
            ck.spec(not d3, key_rep, f"{kind}/{cfg.get('setup', 'cmaes')}: executing the SAME configured setup a second time "
                    f"(same seed) gives another result: " + "; ".join(d3)[:400], case)
        if not diff and a["err"] is None and a.get("seq") != b.get("seq"):
            # same final result, but the two runs did not evaluate the same candidates: find the budget at which the
            # best-so-far of the two sequences differs and RUN that budget twice - only real runs are a verdict
            ck.count(f"evaluation_sequences_differ:{kind}")
            k = prefix_budget(a["seq"], b["seq"])
            if k is None:
                # no prefix separates them yet: give the diverging runs room (a larger budget, still run twice each)
                found = False
                for extra in (4, 8, 16):
                    c2 = dict(cfg, budget=int(cfg["budget"]) + extra)
                    a2, b2 = run_config(c2, root, "A2"), run_config(c2, root, "B2")
                    if a2.get("timeout") or b2.get("timeout"):
                        break
                    d2 = differences(a2, b2)
                    ck.count(f"diverging_sequences_rerun:{kind}")
                    if d2:
                        found = True
                        ck.spec(False, key_rep, f"{kind}/{cfg.get('setup', 'cmaes')}: two runs with the same seed and budget "
                                f"{c2['budget']} differ: " + "; ".join(d2)[:400], short(c2))
                        break
                if not found:
                    ck.notes.append(f"{kind}/{cfg.get('setup', 'cmaes')}: two runs with the same seed evaluated different "
                                    f"candidates but their results agree up to budget {int(cfg['budget']) + 16} (no verdict): "
                                    f"{json.dumps(case)}")
            else:
                c2 = dict(cfg, budget=k)
                a2, b2 = run_config(c2, root, "A2"), run_config(c2, root, "B2")
                d2 = differences(a2, b2)
                ck.spec(not d2, key_rep, f"{kind}/{cfg.get('setup', 'cmaes')}: two runs with the same seed and budget {k} "
                        f"differ: " + "; ".join(d2)[:400], short(c2))
        line = json.dumps(cfg, sort_keys=True)
        if line in by_line:
            ck.count("third_run_in_fresh_interpreter")
            diff = differences(a, by_line[line])
            ck.spec(not diff, key_rep, f"{kind}/{cfg.get('setup')}: run in a fresh interpreter (other PYTHONHASHSEED) differs: "
                    + "; ".join(diff)[:400], case)
        if not a.get("has_best"):
            ck.spec(False, "run_raises", f"{kind}: run ended without any evaluated solution ({a['err']})", case)
            continue
        ck.spec(1 <= a["fes"] <= cfg["budget"] and 1 <= a["li"] <= a["fes"], "budget",
                f"{kind}/{cfg.get('setup', 'cmaes')}: consumed FEs {a['fes']} (last improvement {a['li']}) not within budget {cfg['budget']}", case)
        # log file: final state and logged solution, read with the independent section reader
        try:
            secs = read_log(a["log"])
            st = keyvals(secs.get("STATE", []))
            ck.spec(num(st["bestF"]) == a["f"] and int(st["totalFEs"]) == a["fes"] and int(st["lastImprovementFE"]) == a["li"],
                    "logged_f", f"{kind}: log STATE section (bestF={st.get('bestF')}, totalFEs={st.get('totalFEs')}, "
                    f"lastImprovementFE={st.get('lastImprovementFE')}) differs from the process ({a['f']}, {a['fes']}, {a['li']})", case)
            setup_kv = keyvals(secs.get("SETUP", []))
            ck.spec(int(setup_kv.get("p.maxFEs", -1)) == cfg["budget"] and int(setup_kv.get("p.randSeed", -1)) == cfg["seed"],
                    "logged_f", f"{kind}: log SETUP records maxFEs={setup_kv.get('p.maxFEs')} randSeed={setup_kv.get('p.randSeed')}", case)
            if kind != "instgen" and "RESULT_Y" in secs:
                toks = [t for t in ";".join(secs["RESULT_Y"]).replace("\n", ";").split(";") if t.strip()]
                flat = [v for r in a["y"] for v in (r if isinstance(r, list) else [r])]
                if kind in ("ttp", "ttpmo"):
                    pass   # game plans are logged as a table of team names (C19)
                else:
                    ck.spec([num(t) for t in toks] == flat, "logged_f",
                            f"{kind}: the solution in the log's RESULT_Y section differs from the process' best y", case)
            prog = [ln.split(";") for ln in secs.get("PROGRESS", [])[1:]]
            if prog and kind not in ("ttpmo",):
                fcol = secs["PROGRESS"][0].split(";").index("f")
                fe_col = secs["PROGRESS"][0].split(";").index("fes")
                best_logged = min(num(r[fcol]) for r in prog)
                ck.spec(best_logged == a["f"] and int(prog[-1][fe_col]) <= a["fes"], "logged_f",
                        f"{kind}: best f in the log's PROGRESS section {best_logged} != reported best f {a['f']}", case)
        except (OSError, KeyError, ValueError) as e:
            ck.spec(a["err"] is not None, "logged_f", f"{kind}: log file unreadable: {type(e).__name__} {e}", case)
        # fresh objective object of the real code
        try:
            with quiet():
                fv = fresh_value(cfg, a, inst)
        except Exception as e:  # noqa: BLE001 - the real code raising on a reported solution is a finding
            ck.spec(False, "run_raises",
                    f"{kind}/{cfg.get('setup', 'cmaes')}: re-evaluating the reported solution with a fresh objective raised "
                    f"{type(e).__name__}: {e}"[:500], case)
            fv = None
        if fv is None:
            pass
        elif kind == "ttpmo":
            w = a["weights"]
            ck.spec(fv == a["fs"] and a["f"] == w[0] * fv[0] + w[1] * fv[1], "ttp_truth",
                    f"ttpmo/{cfg['setup']}: reported fs={a['fs']} f={a['f']} but fresh Errors/GamePlanLength give {fv} (weights {w})", case)
        elif kind == "instgen":
            ck.spec(fv[0] == a["f"] and fv[1] == a["f"] and 0.0 <= a["f"] <= 1.0, "instgen_truth",
                    f"instgen: reported best f {a['f']!r} but a fresh ErrorsAndHardness gives {fv[0]!r}, "
                    f"(1000*hardness+errors)/1001 from fresh objects gives {fv[1]!r} (hardness {fv[2]!r}, errors {fv[3]!r})", case)
        elif kind.startswith("ctrl"):
            ck.spec(fv == a["f"], "control_truth",
                    f"{kind}/{cfg.get('setup', 'cmaes')}: reported best f {a['f']!r} but a fresh FigureOfMeritLE gives {fv!r} on the reported x", case)
        else:
            key = {"bp": "logged_f", "tsp": "tsp_truth", "ttp": "ttp_truth", "qap": "qap_truth"}[kind]
            ck.spec(fv == a["f"], key, f"{kind}/{cfg['setup']}: reported best f {a['f']} but a fresh objective object gives {fv} on the reported y", case)
        for drv, ln in oracle_lines(cfg, a, inst):
            where.append((i, drv, len(ops.setdefault(drv, []))))
            ops[drv].append(ln)

    outs = {drv: ck.model(lines, drv=drv) for drv, lines in ops.items()}
    lean: dict[int, dict[str, dict]] = {}
    for i, drv, j in where:
        lean.setdefault(i, {})[drv] = kv(outs[drv][j])
    for i, (cfg, a, b, inst) in enumerate(runs):
        if i not in lean:
            continue
        judge(ck, cfg, a, inst, lean[i])

    bp_from_logs(ck, root, runs, lean)
    hardness_repeat(ck)


def judge(ck: Check, cfg: dict, a: dict, inst, d: dict) -> None:
    """The Lean specifications applied to the final solution of one run."""
    kind, case = cfg["kind"], short(cfg)
    if kind == "bp":
        f1, f2 = d["drv_c01"], d["drv_c02"]
        ck.spec(f1.get("feas") == "true", "feasible_final",
                f"bp/{cfg['setup']}: the final packing (n_bins={a['nbins']}) is not feasible by the Lean specification Pack.Feasible", case)
        j = LEAN_OBJ.index(cfg["objective"])
        vals, specs = f2.get("v", "").split(","), f2.get("s", "").split(",")
        if len(vals) == 7:
            ck.compare("bp:objective-model", json.dumps(case), vals[j], safe_fresh(cfg, a, inst))
        if f2.get("feas") == "true" and len(specs) == 7:
            ck.spec(specs[j] == str(a["f"]), "logged_f",
                    f"bp/{cfg['setup']}: reported best f {a['f']} but the documented value (Lean spec) of the reported packing is {specs[j]}", case)
            lo, up = f2["lo"].split(","), f2["up"].split(",")
            ck.spec(int(lo[j]) <= a["f"] <= int(up[j]), "logged_f",
                    f"bp/{cfg['setup']}: best f {a['f']} outside the Lean bounds [{lo[j]}, {up[j]}]", case)
    elif kind == "tsp":
        t = d["drv_c05"]
        ck.compare("tsp:kernel-model", json.dumps(case), t.get("val", "?"), safe_fresh(cfg, a, inst))
        ck.spec(t.get("perm") == "true", "feasible_final", f"tsp/{cfg['setup']}: the final tour is not a permutation of the cities: {a['y']}", case)
        ck.spec(t.get("spec") == str(a["f"]), "tsp_truth",
                f"tsp/{cfg['setup']}: reported best f {a['f']} but the cyclic edge sum (Lean spec) of the reported tour is {t.get('spec')}", case)
        ck.spec(inst.tour_length_lower_bound <= a["f"] <= inst.tour_length_upper_bound, "tsp_truth",
                f"tsp: best f {a['f']} outside the instance bounds", case)
    elif kind in ("ttp", "ttpmo"):
        t = d["drv_c07"]
        rec = t.get("r", "").split(",")
        ck.spec(t.get("inspace") == "1" and t.get("cons") == "1", "feasible_final",
                f"{kind}/{cfg['setup']}: the final game plan is not in the game-plan space or not mutually consistent "
                f"(inspace={t.get('inspace')} cons={t.get('cons')})", case)
        e_rep = a["f"] if kind == "ttp" else a["fs"][0]
        if len(rec) == 12:
            ck.compare("ttp:errors-model", json.dumps(case), rec[0], str(e_rep))
            if t.get("cons") == "1" and rec[9] == "1":
                ck.spec(rec[11] == str(e_rep), "ttp_truth",
                        f"{kind}/{cfg['setup']}: reported error count {e_rep} but the documented per-rule count (Lean spec) is {rec[11]}", case)
                ck.spec((rec[10] == "1") == (e_rep == 0), "ttp_truth",
                        f"{kind}/{cfg['setup']}: error count {e_rep} but Lean FeasiblePlan = {rec[10]}", case)
        else:
            ck.proof_failures.append(f"drv_c07 answered {t} for {case}")
        if kind == "ttpmo":
            t8 = d["drv_c08"]
            ck.compare("ttp:length-model", json.dumps(case), t8.get("val", "?"), str(a["fs"][1]))
            ck.spec(t8.get("spec") == str(a["fs"][1]) and t8.get("rows") == "true", "ttp_truth",
                    f"ttpmo/{cfg['setup']}: reported plan length {a['fs'][1]} but the documented walk length (Lean spec) is {t8.get('spec')}", case)
    elif kind == "qap":
        t = d["drv_c09"]
        ck.compare("qap:kernel-model", json.dumps(case), t.get("val", "?"), safe_fresh(cfg, a, inst))
        ck.spec(t.get("perm") == "true", "feasible_final", f"qap/{cfg['setup']}: the final assignment is not a permutation: {a['y']}", case)
        ck.spec(t.get("spec") == str(a["f"]), "qap_truth",
                f"qap/{cfg['setup']}: reported best f {a['f']} but the flow-distance double sum (Lean spec) of the reported assignment is {t.get('spec')}", case)
        ck.spec(inst.lower_bound <= a["f"] <= inst.upper_bound, "qap_truth", f"qap: best f {a['f']} outside the instance bounds", case)
    elif kind == "instgen":
        t = d["drv_c01"]
        ck.spec(t.get("valid") == "true", "feasible_final",
                f"instgen: the generated instance {a['y'][:200]} is not a valid bin-packing instance by the Lean predicate Inst.Valid", case)


def bp_from_logs(ck: Check, root: Path, runs, lean) -> None:
    """Clause 'parsing the log files of bin-packing runs yields the same packing, objective values and bounds'."""
    import numpy as np
    from moptipyapps.binpacking2d.packing import Packing
    from moptipyapps.binpacking2d.packing_result import from_logs
    parsed: dict[str, dict] = {}
    for tag in ("A", "B"):
        res: list = []
        d = root / tag / "bp"
        if not d.exists():
            continue
        try:
            with quiet():
                from_logs(str(d), res.append)
        except Exception as e:  # noqa: BLE001
            ck.spec(False, "from_logs", f"packing_result.from_logs raised {type(e).__name__}: {e} on the logs of the bin-packing runs ({tag})"[:600],
                    {"dir": str(d)})
            continue
        parsed[tag] = {(r.end_result.objective, r.end_result.encoding, r.end_result.algorithm, r.end_result.instance,
                        r.end_result.rand_seed): r for r in res}
    for i, (cfg, a, b, inst) in enumerate(runs):
        if cfg["kind"] != "bp" or not a.get("has_best"):
            continue
        case = short(cfg)
        enc = "ibf1" if cfg["encoding"] == 1 else "ibf2"
        key = (cfg["objective"], enc, a["algo"], cfg["instance"], cfg["seed"])
        pa = parsed.get("A", {}).get(key)
        if pa is None:
            ck.spec("A" not in parsed, "from_logs", f"from_logs delivered no record for {key}", case)
            try:    # the directory parse failed as a whole: parse this run's file alone, so that the case names the run
                from moptipyapps.binpacking2d.packing_result import from_single_log
                with quiet():
                    pa = from_single_log(a["log"])
            except Exception as e:  # noqa: BLE001
                ck.spec(False, "from_logs", f"packing_result.from_single_log raised {type(e).__name__}: {e}"[:500], case)
                continue
        er = pa.end_result
        ck.spec(er.best_f == a["f"] and er.total_fes == a["fes"] and er.last_improvement_fe == a["li"] and er.max_fes == cfg["budget"],
                "from_logs", f"from_logs end result (best_f={er.best_f}, total_fes={er.total_fes}, last_improvement_fe="
                f"{er.last_improvement_fe}, max_fes={er.max_fes}) differs from the process ({a['f']}, {a['fes']}, {a['li']}, {cfg['budget']})", case)
        ck.spec(pa.n_items == inst.n_items and pa.bin_width == inst.bin_width and pa.bin_height == inst.bin_height
                and pa.n_different_items == inst.n_different_items, "from_logs", "from_logs instance features differ from the instance", case)
        f2 = lean.get(i, {}).get("drv_c02", {})
        if f2.get("feas") == "true":
            specs, lo, up = f2["s"].split(","), f2["lo"].split(","), f2["up"].split(",")
            bad = [nm for j, nm in enumerate(LEAN_OBJ) if str(pa.objectives.get(nm)) != specs[j]]
            ck.spec(not bad, "from_logs", f"from_logs objective values {dict(pa.objectives)} differ from the documented values "
                    f"(Lean spec) {dict(zip(LEAN_OBJ, specs))} of the run's final packing for {bad}", case)
            badb = [nm for j, nm in enumerate(LEAN_OBJ)
                    if str(pa.objective_bounds.get(nm + ".lowerBound")) != lo[j] or str(pa.objective_bounds.get(nm + ".upperBound")) != up[j]]
            ck.spec(not badb, "from_logs", f"from_logs objective bounds {dict(pa.objective_bounds)} differ from the Lean bounds lo={lo} up={up} for {badb}", case)
            ck.spec(pa.bin_bounds.get("bins.lowerBound") == inst.lower_bound_bins
                    and str(pa.bin_bounds.get("bins.lowerBound.geometric")) == f2.get("geo"), "from_logs",
                    f"from_logs bin bounds {dict(pa.bin_bounds)} differ from lower_bound_bins={inst.lower_bound_bins} / Lean geometric bound {f2.get('geo')}", case)
        try:
            with quiet():
                pk = Packing.from_log(a["log"])
            ck.spec(np.asarray(pk).tolist() == a["y"] and pk.n_bins == a["nbins"] and pk.instance.name == cfg["instance"], "from_logs",
                    f"Packing.from_log yields a packing (n_bins={pk.n_bins}) that differs from the process' best y (n_bins={a['nbins']})", case)
        except Exception as e:  # noqa: BLE001
            ck.spec(False, "from_logs", f"Packing.from_log raised {type(e).__name__}: {e}"[:400], case)
        pb = parsed.get("B", {}).get(key)
        if pb is not None:
            ck.spec(dict(pb.objectives) == dict(pa.objectives) and pb.end_result.best_f == er.best_f
                    and pb.end_result.total_fes == er.total_fes, "replicable",
                    "the parsed logs of the two runs with the same seed differ in objective values / best f / FEs", case)
        ck.count("bp_logs_parsed_back")


def hardness_repeat(ck: Check) -> None:
    """Hardness evaluated twice (same object, other instance in between, fresh object, list argument) is one value in [0,1],
    and equals the documented formula recomputed here from seeded inner runs."""
    from moptipy.utils.nputils import rand_seeds_from_str
    from moptipyapps.binpacking2d.instgen import hardness as hmod
    rng = ck.rng
    names = ["a04", "beng01", "cl01_020_03", "asqas08", "a42", "cl02_020_05", "beng02", "cl04_020_02"]
    for _ in range(3 if ck.quick else 8):
        na, nb = rng.sample(names, 2)
        A, B = bp_instance(na), bp_instance(nb)
        mf, nr = rng.choice([10, 25, 60]), rng.choice([1, 2, 3])
        case = {"kind": "hardness", "instance": na, "other": nb, "max_fes": mf, "n_runs": nr}
        ck.case(json.dumps(case, sort_keys=True))
        ck.count("cfg:hardness")
        try:
            v1, v2, v3, vb, vb2, doc = _hardness_values(hmod, rand_seeds_from_str, A, B, mf, nr)
        except Exception as e:  # noqa: BLE001
            ck.spec(False, "run_raises", f"Hardness({mf},{nr}).evaluate raised {type(e).__name__}: {e}"[:500], case)
            continue
        ck.spec(v1 == v2 == v3 and vb == vb2, "instgen_repeat",
                f"Hardness({mf},{nr}) of {na}: {v1!r}, again after evaluating {nb}: {v2!r}, fresh object on [instance]: {v3!r}; "
                f"{nb}: {vb!r} vs fresh {vb2!r}", case)
        ck.spec(0.0 <= v1 <= 1.0 and 0.0 <= vb <= 1.0, "hardness_range", f"Hardness outside [0,1]: {v1!r}, {vb!r}", case)
        ck.spec(doc == v1, "instgen_truth", f"Hardness({mf},{nr}) of {na} = {v1!r} but the documented mean of "
                f"(1000*quality+runtime)/1001 over the seeded inner runs is {doc!r}", case)


def _hardness_values(hmod, rand_seeds_from_str, A, B, mf, nr):
    with quiet():
        h = hmod.Hardness(mf, nr)
        v1 = h.evaluate(A)
        vb = h.evaluate(B)
        v2 = h.evaluate(A)
        v3 = hmod.Hardness(mf, nr).evaluate([A])
        vb2 = hmod.Hardness(mf, nr).evaluate(B)
        # the documented formula, recomputed from the module's executors with the seeds derived from the instance name
        seeds = list(rand_seeds_from_str(f"seed for {A.name}", nr))
        total, cnt = 0.0, 0
        for ex in hmod.DEFAULT_EXECUTORS:
            exe, f = ex(A)
            lb, ub = f.lower_bound(), f.upper_bound()
            exe.set_max_fes(mf)
            for s in seeds:
                exe.set_rand_seed(s)
                with exe.execute() as p:
                    q = (ub - p.get_best_f()) / (ub - lb)
                    rt = (mf - p.get_last_improvement_fe()) / (mf - 1)
                    total += max(0.0, min(1.0, ((q * 1000.0) + rt) / 1001.0))
                    cnt += 1
        doc = max(0.0, min(1.0, total / cnt))
    return v1, v2, v3, vb, vb2, doc


# ============================================================================================== fresh interpreter
def run_in_subprocess(ck: Check, cfgs: list[dict], root: Path):
    if not cfgs:
        return []
    spec = root / "third.json"
    spec.write_text(json.dumps(cfgs))
    env = dict(os.environ)
    env["PYTHONHASHSEED"] = str(ck.rng.randint(1, 2**31))
    p = subprocess.run([sys.executable, "-m", "harness.c12", "--worker", str(spec), str(root)], cwd=ROOT, env=env,
                       capture_output=True, text=True, check=False, timeout=3000)
    try:
        return json.loads(p.stdout.strip().splitlines()[-1])
    except (ValueError, IndexError):
        ck.proof_failures.append(f"C12 worker failed (rc={p.returncode}): {p.stderr[-600:]}")
        return None


def check(ck: Check) -> None:
    ck.level = "other"
    ck.extra["explanation"] = EXPLANATION
    ck.rule = ("a case is one run of one configuration (setup, instance, seed, budget, + objective/encoding or reduced-system "
               "parameters); every configuration is run twice in-process (evaluations = runs; distinct = configurations by JSON), a "
               "sample a third time in a fresh interpreter; configurations: bin packing rls/fea x 7 DEFAULT_OBJECTIVES x 2 encodings x "
               "sampled shipped instances (<= 25 / 45 items) x seeds, budgets 30..300; TSP EA/FEA/RLS on symmetric TSPLIB instances "
               "(<= 30 / 60 cities); TTP rls/rs (errors), TTP prioritised RLS and NSGA-II (errors, length), QAP rls/rs from the example "
               "files; instgen CMA-ES with tiny inner budgets; Hardness repeats; experiment_raw / experiment_surrogate on "
               "1-2-point systems; all random choices from VERIF_SEED")
    ck.assumptions += [
        "moptipy Execution/Process, RLS, FEA1plus1, RandomSampling, NSGA2, BiPopCMAES (cmaes library) and numpy's PCG64 generator are "
        "deterministic functions of the seed: NOT modelled; their composition with moptipyapps' components is what the sampled runs test",
        "Model/Search.lean is an abstract search process (arbitrary deterministic algorithm transducer + best-so-far bookkeeping); "
        "that moptipy's processes have this shape is an assumption, the theorems run_replicable / run_true_within_budget are about the shape",
        "the Lean oracles are the specifications proved in C01 (Pack.Feasible), C02 (documented objective values, bounds), C05 (cyclic sum), "
        "C07 (InSpace, Consistent, documented error count), C08 (walk length), C09 (double sum); their drivers are compiled Lean (trusted for testing)",
        "instgen: INNER_MAX_FES / INNER_RUNS of binpacking2d.instgen.experiment are set to tiny values in-process (module attributes read "
        "by cmaes() at call time); dynamic control: systems from make_stuart_landau(n) / make_lorenz(n) with n in {1,2} training points",
        "wall-clock budgets (max_time_millis) are never used; time stamps in logs are ignored",
    ]
    ck.not_proved += [
        "known finding control_run_raises: with the pinned moptipy 0.9.136 / pycommons 0.8.58 every run of experiment_surrogate.cmaes_raw "
        "and cmaes_surrogate raises TypeError from moptipy's cmaes_lib restart-table rendering (num_to_str on numpy.int64), because "
        "surrogate_optimizer._bpcmaes asks for the restart log and base_setup always logs; cmaes_surrogate stops right after the warm-up "
        "FEs, so the model-training / on-model loop of the bundled setup cannot be run as shipped. Those runs are still compared up to "
        "the exception; the loop is sampled only in an additional pass with that dependency call patched in-process (cfg patch_dep)",
        "the universal statement of C12 (every setup x instance x seed x budget): sampled only - level 'other'",
        "replicability across machines / library versions; encoding 2 statelessness is C14's theorem, not restated here",
    ]
    ck.lean(["Props.C12"], THEOREMS)
    streams(ck)


# ============================================================================================== worker / replay
def _main(argv: list[str]) -> int:
    from . import common
    common.setup_env("jit")
    if argv[:1] == ["--worker"]:
        cfgs = json.loads(Path(argv[1]).read_text())
        root = Path(argv[2])
        out = [run_config(c, root, "C") for c in cfgs]
        sys.stdout.write("\n" + json.dumps(out) + "\n")
        return 0
    if argv[:1] == ["--one"]:
        cfg = json.loads(argv[1])
        root = common.WORK / "C12" / "one"
        a, b = run_config(cfg, root, "A"), run_config(cfg, root, "B")
        print(json.dumps({"first": a, "second": b, "differences": differences(a, b)}, indent=1)[:6000])
        return 1 if differences(a, b) or a["err"] else 0
    print(__doc__)
    return 2


if __name__ == "__main__":
    sys.exit(_main(sys.argv[1:]))
