"""C16 (part A) — controller blueprints and system equations compute their formulas.

Tie between model and code = the translator `harness/translate/py2lean.py`, re-run here on every
check *before* the Lean build: `lean/Gen/{Controllers,Systems}.lean` are regenerated from the
current source under `$VERIF_REPO`, and the theorems of `lean/Props/C16.lean` are about those
generated definitions.  Because the generated definitions live over an abstract field while the
code runs on binary64, the streams below tie them to the *compiled* kernels:

  exact      real numba kernels on small dyadic inputs where + − × are exact in binary64,
             compared exactly (as rationals) with the `Gen` definition evaluated over `Rat`;
  fracexec   the kernels' source text executed in Python over `Fraction`s, `np.*` replaced by
             rational test functions, compared exactly with `Gen` over `Rat` with the same test
             functions (covers division, literals such as 0.1, exp/tanh/sin, pi);
  float      real numba kernels on random floats compared with `Gen` over binary64 `Float`
             with a tolerance — this one is a *test*, it is labelled so in the evidence.

Spec oracle (C): the specifications of `lean/Model/ControlSpec.lean`, evaluated by the driver,
applied to what the implementation returns (exactly where the kernel is exact, with tolerance
otherwise), plus `inputs_not_modified` on every real call.
"""
from __future__ import annotations

import ast
import importlib
import importlib.util
import itertools
import json
import math
import os
import struct
from fractions import Fraction
from pathlib import Path

from . import common
from .common import Check, kv
from .translate import py2lean

THEOREMS = ["C16." + t for t in (
    "linear_complete_2d", "linear_complete_3d", "quadratic_complete_2d", "quadratic_complete_3d",
    "cubic_complete_2d", "cubic_complete_3d", "monomial_counts",
    "partially_linear_2_nearest_2d", "partially_linear_2_nearest_3d",
    "partially_linear_3_nearest_2d", "partially_linear_3_nearest_3d",
    "partially_linear_4_nearest_2d", "partially_linear_4_nearest_3d",
    "peaks_1_eq_spec_2d", "peaks_2_eq_spec_2d", "peaks_3_eq_spec_2d",
    "peaks_1_eq_spec_3d", "peaks_2_eq_spec_3d", "peaks_3_eq_spec_3d",
    "predefined_cornejo_maceda_eq_spec", "predefined_table_3_1_ga_eq_spec",
    "predefined_table_3_1_lgpc_eq_spec",
    "stuart_landau_eq", "lorenz_eq", "lorenz_beta_close", "three_coupled_oscillators_eq",
    "controller_indices_in_range", "controller_params_all_used", "system_indices_in_range",
    "kernels_time_invariant", "all_registrations_covered")]
MODULES = ["Props.C16"]

PI_Q = Fraction(22, 7)   # the driver's `ratOps.pi`
TOL = 1e-9


# --------------------------------------------------------------------------- number formats

def q(x) -> str:
    f = Fraction(x)
    return f"{f.numerator}/{f.denominator}"


def qs(xs) -> str:
    return " ".join(q(x) for x in xs)


def bits(x: float) -> int:
    return struct.unpack("<Q", struct.pack("<d", float(x)))[0]


def unbits(s: str) -> float:
    return struct.unpack("<d", struct.pack("<Q", int(s)))[0]


def bs(xs) -> str:
    return " ".join(str(bits(x)) for x in xs)


def close(a: float, b: float, scale: float = 1.0) -> bool:
    if math.isnan(a) or math.isnan(b):
        return math.isnan(a) and math.isnan(b)
    if math.isinf(a) or math.isinf(b):
        return a == b
    return abs(a - b) <= TOL * (scale + abs(a) + abs(b))


# --------------------------------------------------------------------------- translator

_META = None


def meta(ck: Check | None = None) -> dict:
    """Run the translator (once per process): regenerates lean/Gen/{Controllers,Systems}.lean."""
    global _META
    if _META is None:
        _META = py2lean.translate(common.REPO, common.LEAN, common.WORK / "C16" / "translate.json")
    return _META


# --------------------------------------------------------------------------- implementation

class Impl:
    """The real compiled kernels, found through the public factories / system objects."""

    def __init__(self) -> None:
        import numpy as np
        from moptipyapps.dynamic_control.controller import Controller
        from moptipyapps.dynamic_control.controllers.cubic import cubic
        from moptipyapps.dynamic_control.controllers.linear import linear
        from moptipyapps.dynamic_control.controllers.partially_linear import partially_linear
        from moptipyapps.dynamic_control.controllers.peaks import peaks
        from moptipyapps.dynamic_control.controllers.predefined import predefined
        from moptipyapps.dynamic_control.controllers.quadratic import quadratic
        from moptipyapps.dynamic_control.systems.lorenz import LORENZ_4
        from moptipyapps.dynamic_control.systems.stuart_landau import STUART_LANDAU_4
        from moptipyapps.dynamic_control.systems.three_coupled_oscillators import THREE_COUPLED_OSCILLATORS
        self.np = np
        self.kernels: dict[str, object] = {}        # python function name -> callable
        self.controller_regs: list[dict] = []
        self.system_regs: list[dict] = []
        self.controllers: dict[tuple[str, int], object] = {}   # (controller name, state dims) -> Controller
        for fac in (linear, quadratic, cubic, partially_linear, peaks, predefined):
            for sysm in (STUART_LANDAU_4, LORENZ_4):
                r = fac(sysm)
                for c in ([r] if isinstance(r, Controller) else list(r)):
                    fn = c.controller
                    py = getattr(fn, "py_func", fn).__name__
                    self.kernels[py] = fn
                    self.controllers[(c.name, c.state_dims)] = c
                    self.controller_regs.append({"factory": fac.__name__, "name": c.name, "state_dims": c.state_dims,
                                                 "control_dims": c.control_dims, "param_dims": c.param_dims,
                                                 "kernel": py})
        for mk, sysm in (("make_stuart_landau", STUART_LANDAU_4), ("make_lorenz", LORENZ_4),
                         ("make_3_couple_oscillators", THREE_COUPLED_OSCILLATORS)):
            fn = sysm.equations
            py = getattr(fn, "py_func", fn).__name__
            self.kernels[py] = fn
            self.system_regs.append({"factory": mk, "name": sysm.name, "state_dims": sysm.state_dims,
                                     "control_dims": sysm.control_dims, "kernel": py})

    def call(self, ck: Check, py: str, state, t, arg, out):
        """Call the compiled kernel on float64 arrays; returns the new `out` as a list of floats
        (or "OOB" under NUMBA_BOUNDSCHECK=1) and checks `inputs_not_modified`."""
        np = self.np
        s = np.array([float(x) for x in state], dtype=np.float64)
        a = np.array([float(x) for x in arg], dtype=np.float64)
        o = np.array([float(x) for x in out], dtype=np.float64)
        sb, ab = s.tobytes(), a.tobytes()
        try:
            self.kernels[py](s, float(t), a, o)
        except IndexError:
            return "OOB"
        except Exception as e:  # noqa: BLE001 - a controller/system is a total function of (state, t, parameters)
            ck.spec(False, "kernel_raises", f"{py} raised {type(e).__name__}: {e} instead of returning its documented value",
                    {"kernel": py, "state": [float(x) for x in state], "t": float(t), "arg": [float(x) for x in arg]})
            return f"RAISED:{type(e).__name__}"
        ck.spec(s.tobytes() == sb and a.tobytes() == ab, "inputs_not_modified",
                f"{py} modified its input arrays", {"kernel": py, "state": [float(x) for x in state],
                                                  "arg": [float(x) for x in arg],
                                                  "state_after": s.tolist(), "arg_after": a.tolist()})
        return [float(v) for v in o]


_IMPL = None


def impl() -> Impl:
    global _IMPL
    if _IMPL is None:
        _IMPL = Impl()
    return _IMPL


# --------------------------------------------------------------------------- source text over Fractions

class _NP:
    """The rational test functions of the driver's `ratOps`."""

    @staticmethod
    def exp(x):
        return x * x * x + 2 * x + 1

    @staticmethod
    def arctan(x):
        return x * x * x + x

    @staticmethod
    def tanh(x):
        return x * x * x + 3 * x

    @staticmethod
    def sin(x):
        return 2 * x * x * x + x

    @staticmethod
    def cos(x):
        return x * x * x + 5 * x + 2


class _Lit(ast.NodeTransformer):
    """number literals -> Fraction('<the literal's text>'), except inside subscripts"""

    def __init__(self, source: str) -> None:
        self.source = source

    def visit_Subscript(self, node: ast.Subscript):
        node.value = self.visit(node.value)
        return node

    def visit_Constant(self, node: ast.Constant):
        if isinstance(node.value, bool) or not isinstance(node.value, (int, float)):
            return node
        text = (ast.get_source_segment(self.source, node) or repr(node.value)).replace("_", "")
        return ast.copy_location(ast.Call(func=ast.Name(id="Fraction", ctx=ast.Load()),
                                          args=[ast.Constant(value=text)], keywords=[]), node)


def frac_namespace(kind: str, module: str) -> dict:
    """Execute the njit functions (decorators and annotations stripped) and the simple numeric
    module constants of the module's *source text* in a namespace where numbers are Fractions."""
    path = common.REPO / "moptipyapps" / "dynamic_control" / kind / f"{module}.py"
    source = path.read_text(encoding="utf-8")
    tree = ast.parse(source)
    body = []
    simple = (ast.BinOp, ast.UnaryOp, ast.Name, ast.Constant, ast.operator, ast.unaryop, ast.expr_context)
    for n in tree.body:
        if isinstance(n, ast.FunctionDef) and py2lean._is_njit(n):
            n.decorator_list = []
            n.returns = None
            for a in n.args.args:
                a.annotation = None
            body.append(n)
        elif isinstance(n, (ast.Assign, ast.AnnAssign)) and n.value is not None:
            tgt = n.targets[0] if isinstance(n, ast.Assign) else n.target
            if isinstance(tgt, ast.Name) and all(isinstance(x, simple) for x in ast.walk(n.value)) \
                    and not (isinstance(n.value, ast.Constant) and isinstance(n.value.value, str)):
                body.append(ast.copy_location(
                    ast.Assign(targets=[ast.Name(id=tgt.id, ctx=ast.Store())], value=n.value), n))
    mod = ast.Module(body=[_Lit(source).visit(b) for b in body], type_ignores=[])
    ast.fix_missing_locations(mod)
    ns: dict = {"Fraction": Fraction, "np": _NP, "pi": PI_Q}
    for b in mod.body:   # a statement that cannot run (unknown name) is skipped; the kernel that needs it fails later
        try:
            exec(compile(ast.Module(body=[b], type_ignores=[]), str(path), "exec"), ns)
        except Exception:  # noqa: BLE001
            pass
    return ns


def frac_call(ns: dict, py: str, state, t, arg, out):
    s, a, o = [Fraction(x) for x in state], [Fraction(x) for x in arg], [Fraction(x) for x in out]
    try:
        ns[py](s, Fraction(t), a, o)
    except IndexError:
        return "OOB"
    except ZeroDivisionError:
        return "DIV0"
    return o


# --------------------------------------------------------------------------- generators

def dy(rng, lim=12, den=4):
    return Fraction(rng.randint(-lim, lim), den)


def gen_exact_inputs(ck: Check, k: dict, nstate: int, narg: int):
    """(stream, state, arg): exhaustive unit vectors x grid for small kernels, boundary, random dyadics."""
    rng = ck.rng
    quick = ck.quick
    # exhaustive small scope: every unit / all-ones argument vector against a full grid of states
    grid_vals = (-2, -1, 0, 1, 2) if nstate <= 3 else (-1, 0, 1)
    grid = list(itertools.product(grid_vals, repeat=min(nstate, 3)))
    units = [[1 if j == i else 0 for j in range(narg)] for i in range(narg)] + [[1] * narg, [-1] * narg]
    if narg <= 3 and nstate <= 3:
        units = [list(u) for u in itertools.product((-1, 0, 1), repeat=narg)]
    for u in units:
        pts = grid if (not quick or len(grid) * len(units) <= 700) else rng.sample(grid, max(5, 700 // len(units)))
        for g in pts:
            st = list(g) + [rng.randint(-1, 1) for _ in range(nstate - len(g))]
            yield "exhaustive", st, u
    # boundary: zeros, equal values (ties in comparisons), extremes of the dyadic range
    for v in (0, 1, -1, Fraction(1, 4), 3, -3):
        yield "boundary", [v] * nstate, [v] * narg
        yield "boundary", [v] * nstate, [-v] * narg
        yield "boundary", [0] * nstate, [v] * narg
    n = 120 if quick else 6000
    for _ in range(n):
        if rng.random() < 0.5:
            yield "random", [rng.randint(-6, 6) for _ in range(nstate)], [rng.randint(-6, 6) for _ in range(narg)]
        else:
            yield "random", [dy(rng) for _ in range(nstate)], [dy(rng) for _ in range(narg)]


def gen_float_inputs(ck: Check, k: dict, nstate: int, narg: int, is_ctrl: bool):
    rng = ck.rng
    n = 60 if ck.quick else 4000
    for _ in range(n):
        st = [rng.uniform(-3, 3) for _ in range(nstate)]
        if is_ctrl:
            ar = [rng.uniform(-4, 4) for _ in range(narg)]
            if k["py"].endswith("lgpc"):   # keep sin's argument moderate: |a| = |s0*p0 + p1| not tiny
                while abs(st[0] * ar[0] + ar[1]) < 0.05:
                    ar[1] = rng.uniform(-4, 4)
            if k["py"].endswith("cornejo_maceda"):
                ar = [x if abs(x) > 0.05 else 0.5 for x in ar]
        else:
            ar = [rng.uniform(-2, 2) for _ in range(narg)]
        yield "random", st, ar
    # protected divisions: exact zeros
    if k["py"].endswith("cornejo_maceda"):
        for z in itertools.product((0.0, 1.5), repeat=3):
            yield "boundary", [0.75, -0.5], list(z)
    if k["py"].endswith("lgpc"):
        yield "boundary", [2.0, 0.0, 0.0], [1.0, -2.0, 3.0, 0.5]
        yield "boundary", [0.0, 1.0, 1.0], [1.0, 0.0, 3.0, 0.5]


# --------------------------------------------------------------------------- streams

def _dims(m: dict):
    """kernel python name -> (state length, arg length, out length) from the registrations."""
    d = {}
    for r in m["controller_regs"]:
        d.setdefault(r["kernel"], (r["state_dims"], r["param_dims"], r["control_dims"]))
    for r in m["system_regs"]:
        d.setdefault(r["kernel"], (r["state_dims"], r["control_dims"], r["state_dims"]))
    return d


def registrations(ck: Check, m: dict, im: Impl) -> None:
    """Gen registration data (parsed from the factories' source) vs the objects the factories return."""
    def canon(r, keys):
        return " ".join(f"{k}={r[k]}" for k in keys)
    ck_keys = ("factory", "name", "state_dims", "control_dims", "param_dims", "kernel")
    sk_keys = ("factory", "name", "state_dims", "control_dims", "kernel")
    gen_c = sorted(canon(r, ck_keys) for r in m["controller_regs"])
    imp_c = sorted(canon(r, ck_keys) for r in im.controller_regs)
    gen_s = sorted(canon(r, sk_keys) for r in m["system_regs"])
    imp_s = sorted(canon(r, sk_keys) for r in im.system_regs)
    for g, i in itertools.zip_longest(gen_c + gen_s, imp_c + imp_s, fillvalue="<missing>"):
        ck.case("reg " + i, nontrivial=True)
        ck.count("registration")
        ck.compare("registrations", "reg", g, i)


def kernel_streams(ck: Check, m: dict, im: Impl) -> None:
    dims = _dims(m)
    ops: list[str] = []
    exp: list[tuple] = []
    namespaces: dict[tuple, dict] = {}
    boundscheck = os.environ.get("NUMBA_BOUNDSCHECK") == "1"
    for k in m["kernels"]:
        py, ln = k["py"], k["lean"]
        if py not in dims or py not in im.kernels:
            ck.notes.append(f"kernel {py} is translated but not registered / not reachable: not exercised")
            continue
        ns_, na_, no_ = dims[py]
        is_ctrl = k["kind"] == "controllers"
        exact_idx = k["out_idx"] if k["exact_branchy"] else k["exact_out"]
        key = (k["kind"], k["module"])
        if key not in namespaces:
            namespaces[key] = frac_namespace(*key)
        ns = namespaces[key]
        sentinel = [Fraction(7, 2)]     # one extra `out` cell that must stay untouched
        for stream, st, ar in gen_exact_inputs(ck, k, ns_, na_):
            out0 = [Fraction(-9)] * no_ + sentinel
            line = f"kq {ln} ; 0 ; {qs(st)} ; {qs(ar)} ; {qs(out0)}"
            # (1) source text over Fractions — every kernel
            fo = frac_call(ns, py, st, 0, ar, list(out0))
            ops.append(line)
            exp.append(("fracexec", k, "out=" + ",".join(q(v) for v in fo) if isinstance(fo, list) else fo,
                        None, (st, ar)))
            ck.case(line)
            ck.count(f"fracexec:{stream}")
            # (2) the compiled kernel where binary64 is exact
            if exact_idx:
                ro = im.call(ck, py, st, 0.0, ar, out0)
                ops.append(line)
                exp.append(("exact", k, ro, exact_idx + [no_], (st, ar)))
                ck.case(line + " #compiled")
                ck.count(f"exact:{stream}")
        for stream, st, ar in gen_float_inputs(ck, k, ns_, na_, is_ctrl):
            out0 = [-9.0] * no_ + [3.5]
            tt = 0.0 if ck.rng.random() < 0.7 else ck.rng.uniform(0, 50)
            line = f"kf {ln} ; {bits(tt)} ; {bs(st)} ; {bs(ar)} ; {bs(out0)}"
            ro = im.call(ck, py, st, tt, ar, out0)
            ops.append(line)
            exp.append(("float", k, ro, None, (st, ar)))
            ck.case(line)
            ck.count(f"float:{stream}")
        # malformed: arrays one element too short (only meaningful when numba checks bounds)
        if boundscheck:
            for short in ("state", "arg", "out"):
                st = [1.0] * (ns_ - (short == "state"))
                ar = [1.0] * (na_ - (short == "arg"))
                out0 = [0.0] * (no_ - (short == "out"))
                if min(len(st), len(ar), len(out0)) == 0:
                    continue
                ro = im.call(ck, py, st, 0.0, ar, out0)
                if ro != "OOB" and k.get("has_branch"):
                    # an index that only occurs in a branch not taken: the model's answer is about the
                    # kernel text (all literal indices), the run only touches the path taken
                    ck.count("malformed:branch-not-taken-skipped")
                    continue
                line = f"kq {ln} ; 0 ; {qs(st)} ; {qs(ar)} ; {qs(out0)}"
                ops.append(line)
                exp.append(("oob", k, ro, None, (st, ar)))
                ck.case(line)
                ck.count("malformed:short-" + short)
    outs = ck.model(ops)
    for line, (mode, k, want, idx, inp), got in zip(ops, exp, outs):
        if mode == "fracexec":
            ck.compare("fracexec(source text over Fractions vs Gen over Rat)", line, got, want)
        elif mode == "oob":
            w = "OOB" if want == "OOB" else "out=" + ",".join(q(v) for v in want)
            ck.compare("malformed(short arrays, boundscheck)", line, got, w)
        elif mode == "exact":
            if want == "OOB" or not got.startswith("out="):
                ck.compare("exact(compiled kernel vs Gen over Rat)", line, got, str(want))
                continue
            gl = got[4:].split(",")
            ck.compare("exact(compiled kernel vs Gen over Rat)", line,
                       ",".join(gl[i] for i in idx), ",".join(q(want[i]) for i in idx))
        else:
            if want == "OOB" or not got.startswith("out="):
                ck.compare("float-tolerance(test: compiled kernel vs Gen over Float)", line, got, str(want))
                continue
            gl = [unbits(x) for x in got[4:].split(",")]
            scale = 1.0 + sum(abs(x) for x in inp[0]) ** 3
            ok = len(gl) == len(want) and all(close(a, b, scale) for a, b in zip(gl, want))
            ck.compare("float-tolerance(test: compiled kernel vs Gen over Float)", line,
                       "ok" if ok else repr(gl), "ok" if ok else repr(want))


# ---- C: complete polynomials

POLY = {"linear": 1, "quadratic": 2, "cubic": 3}


def oracle_poly(ck: Check, im: Impl) -> None:
    for (name, d), c in sorted(im.controllers.items()):
        if name not in POLY:
            continue
        deg = POLY[name]
        py = getattr(c.controller, "py_func", c.controller).__name__
        grid = list(itertools.product((-2, -1, 0, 1, 2), repeat=d))
        lines = [f"monos {d} {deg}"] + [f"monoval {d} {deg} ; {qs(g)}" for g in grid]
        outs = ck.model(lines)
        info = kv(outs[0])
        spec_exps = [tuple(int(x) for x in e.split(",")) for e in info["exps"].split("|")]
        nspec = int(info["n"])
        ck.count(f"poly:{name}{d}d")
        ctx = {"controller": name, "state_dims": d, "param_dims": c.param_dims}
        ck.spec(c.param_dims == nspec == int(info["count"]), f"param_dims_{name}_{d}d",
                f"{name} controller for {d} state dimensions declares {c.param_dims} parameters, but there are "
                f"{nspec} monomials of degree 1..{deg} in {d} variables", ctx)
        # table of every monomial of the specification on the grid
        cols = [[Fraction(v) for v in kv(o)["vals"].split(",")] for o in outs[1:]]   # per grid point
        spec_tab = {e: tuple(cols[g][j] for g in range(len(grid))) for j, e in enumerate(spec_exps)}
        by_tab = {t: e for e, t in spec_tab.items()}
        ones = grid.index(tuple([1] * d))
        sigma: dict[int, tuple] = {}
        for i in range(c.param_dims):
            unit = [1 if j == i else 0 for j in range(c.param_dims)]
            tab = []
            for g in grid:
                ro = im.call(ck, py, g, 0.0, unit, [0.0])
                tab.append(Fraction(ro[0]))
                ck.case(f"polyunit {name} {d} {i} {g}", nontrivial=any(g))
            e = by_tab.get(tuple(tab))
            wit = {**ctx, "params": f"unit vector e_{i}", "state": list(grid[ones]), "returned": float(tab[ones]),
                   "expected": "the value 1 of a monomial"}
            if not ck.spec(e is not None, f"monomial_{name}_{d}d",
                           f"{name}/{d}d with params = e_{i} (only params[{i}] = 1) is not a monomial of degree "
                           f"1..{deg}: at state {list(grid[ones])} it returns {float(tab[ones])} (every monomial "
                           f"gives 1); table on the grid matches no monomial of the specification", wit):
                continue
            dup = [j for j, ee in sigma.items() if ee == e]
            ck.spec(not dup, f"monomial_{name}_{d}d",
                    f"{name}/{d}d: params[{i}] and params[{dup[0] if dup else '?'}] multiply the same monomial {e}",
                    {**ctx, "monomial": list(e)})
            sigma[i] = e
        missing = [e for e in spec_exps if e not in sigma.values()]
        ck.spec(not missing, f"monomial_{name}_{d}d",
                f"{name}/{d}d: no parameter multiplies the monomial(s) {missing} — e.g. the polynomial "
                f"{'*'.join(f's{j}^{x}' for j, x in enumerate(missing[0]) if x) if missing else ''} cannot be represented",
                {**ctx, "missing": [list(e) for e in missing]})
        if len(sigma) != c.param_dims:
            continue
        # linearity in the parameters: f(s, θ) = Σ θ_i · m_σ(i)(s), values of m from the driver
        n = 40 if ck.quick else 600
        pts = [([ck.rng.randint(-4, 4) for _ in range(d)], [ck.rng.randint(-5, 5) for _ in range(c.param_dims)])
               for _ in range(n)]
        vals = ck.model([f"monoval {d} {deg} ; {qs(s)}" for s, _ in pts])
        for (s, th), o in zip(pts, vals):
            mv = dict(zip(spec_exps, (Fraction(v) for v in kv(o)["vals"].split(","))))
            want = sum(Fraction(t) * mv[sigma[i]] for i, t in enumerate(th))
            ro = im.call(ck, py, s, 0.0, th, [0.0])
            ck.case(f"polylin {name} {d} {s} {th}")
            ck.spec(Fraction(ro[0]) == want, f"polynomial_{name}_{d}d",
                    f"{name}/{d}d returned {ro[0]} but Σ θ_i·m_i(s) = {float(want)}",
                    {**ctx, "state": s, "params": th})


# ---- C: nearest anchor

def gen_anchor_cases(ck: Check, d: int, k: int):
    rng = ck.rng
    # exhaustive: every assignment of distance ranks (with ties) to the k anchors
    for ranks in itertools.product(range(1, k + 1), repeat=k):
        s = [rng.randint(-2, 2) or 1 for _ in range(d)]
        th = []
        laws = set()
        for j, r in enumerate(ranks):
            axis = rng.randrange(d)
            anchor = list(s)
            anchor[axis] += rng.choice((-1, 1)) * r
            while True:
                w = [rng.randint(-4, 4) for _ in range(d)]
                v = sum(a * b for a, b in zip(s, w))
                if v not in laws:
                    laws.add(v)
                    break
            th += anchor + w
        yield "exhaustive-ranks", s, th
    # boundary: all anchors identical; state on an anchor; equidistant pairs
    for _ in range(10):
        a = [rng.randint(-2, 2) for _ in range(d)]
        th = []
        for j in range(k):
            th += a + [j + 1] + [0] * (d - 1)
        yield "boundary", [a[0] + 1] + a[1:], th
        yield "boundary", a, th
    for _ in range(150 if ck.quick else 12000):
        yield "random", [rng.randint(-4, 4) for _ in range(d)], [rng.randint(-4, 4) for _ in range(2 * d * k)]
    for _ in range(50 if ck.quick else 4000):
        yield "random-dyadic", [dy(rng) for _ in range(d)], [dy(rng) for _ in range(2 * d * k)]


def oracle_nearest(ck: Check, im: Impl) -> None:
    ops, ctxs = [], []
    for (name, d), c in sorted(im.controllers.items()):
        if not (name.startswith("linear_") and name[7:].isdigit()):
            continue
        k = int(name[7:])
        py = getattr(c.controller, "py_func", c.controller).__name__
        ck.spec(c.param_dims == 2 * d * k, f"param_dims_{name}_{d}d",
                f"{name}/{d}d declares {c.param_dims} parameters, {k} anchors with {d} coordinates and {d} weights need "
                f"{2 * d * k}", {"controller": name, "state_dims": d})
        for stream, s, th in gen_anchor_cases(ck, d, k):
            if len(th) != c.param_dims:
                continue
            ro = im.call(ck, py, s, 0.0, th, [0.0])
            line = f"nearestq {d} {k} ; {qs(s)} ; {qs(th)}"
            ops.append(line)
            ctxs.append((name, d, k, s, th, ro))
            ck.case(line)
            ck.count(f"nearest:{name}/{d}d:{stream}")
    outs = ck.model(ops)
    for line, (name, d, k, s, th, ro), o in zip(ops, ctxs, outs):
        r = kv(o)
        if "law" not in r:
            ck.compare("nearest-spec", line, o, "j=… law=…")
            continue
        want = Fraction(r["law"])
        dists = [float(Fraction(x)) for x in r["dists"].split(",")]
        ck.spec(ro != "OOB" and Fraction(ro[0]) == want, f"nearest_anchor_{name}_{d}d",
                f"{name}/{d}d returned {ro[0] if ro != 'OOB' else ro}, but the first nearest anchor is #{r['j']} "
                f"(squared distances {dists}) whose law gives {float(want)}",
                {"controller": name, "state_dims": d, "state": [float(x) for x in s],
                 "params": [float(x) for x in th], "squared_distances": dists, "nearest": int(r["j"])})


# ---- C: peaks, predefined, systems

def spec_name(k: dict, reg: dict) -> str | None:
    if k["module"] == "peaks":
        return f"peaks_{reg['state_dims']}_{reg['name'].split('_')[1]}"
    if k["module"] == "predefined":
        return reg["name"]
    if k["kind"] == "systems":
        return reg["name"]
    return None


def oracle_formulas(ck: Check, m: dict, im: Impl) -> None:
    regs = {}
    for r in m["controller_regs"] + m["system_regs"]:
        regs.setdefault(r["kernel"], r)
    dims = _dims(m)
    ops, ctxs = [], []
    namespaces: dict[tuple, dict] = {}
    for k in m["kernels"]:
        py = k["py"]
        if py not in regs or py not in im.kernels:
            continue
        sn = spec_name(k, regs[py])
        if sn is None:
            continue
        ns_, na_, no_ = dims[py]
        is_ctrl = k["kind"] == "controllers"
        key = (k["kind"], k["module"])
        if key not in namespaces:
            namespaces[key] = frac_namespace(*key)
        # floats: compiled kernel vs the specification over binary64 (tolerance)
        for stream, st, ar in gen_float_inputs(ck, k, ns_, na_, is_ctrl):
            ro = im.call(ck, py, st, 0.0, ar, [0.0] * no_)
            line = f"specf {sn} ; {bs(st)} ; {bs(ar)}"
            ops.append(line)
            ctxs.append(("float", sn, st, ar, ro, None))
            ck.case(line)
            ck.count(f"spec-float:{sn}")
        # exact: source text over Fractions vs the specification over Rat; compiled kernel where exact
        exact_idx = k["out_idx"] if k["exact_branchy"] else k["exact_out"]
        n = 40 if ck.quick else 600
        for _ in range(n):
            st = [dy(ck.rng) for _ in range(ns_)]
            ar = [dy(ck.rng) for _ in range(na_)]
            if ck.rng.random() < 0.15 and is_ctrl:
                ar[ck.rng.randrange(na_)] = Fraction(0)
            fo = frac_call(namespaces[key], py, st, 0, ar, [Fraction(0)] * no_)
            line = f"specq {sn} ; {qs(st)} ; {qs(ar)}"
            ops.append(line)
            ctxs.append(("frac", sn, st, ar, fo, None))
            ck.case(line)
            ck.count(f"spec-exact:{sn}")
            if exact_idx:
                ro = im.call(ck, py, st, 0.0, ar, [0.0] * no_)
                ops.append(line)
                ctxs.append(("exact", sn, st, ar, ro, exact_idx))
                ck.case(line + " #compiled")
                ck.count(f"spec-compiled-exact:{sn}")
    outs = ck.model(ops)
    for line, (mode, sn, st, ar, ro, idx), o in zip(ops, ctxs, outs):
        if not o.startswith("out="):
            ck.compare("formula-spec", line, o, "out=…")
            continue
        case = {"spec": sn, "state": [float(x) for x in st], "arg": [float(x) for x in ar]}
        if mode == "float":
            want = [unbits(x) for x in o[4:].split(",")]
            scale = 1.0 + sum(abs(x) for x in st) ** 3
            ok = ro != "OOB" and len(want) == len(ro) and all(close(a, b, scale) for a, b in zip(ro, want))
            ck.spec(ok, f"formula_{sn}", f"{sn}: compiled kernel returned {ro}, the documented formula gives {want} "
                    f"(binary64, tolerance {TOL})", {**case, "returned": ro, "expected": want})
        else:
            want = [Fraction(x) for x in o[4:].split(",")]
            if mode == "frac":
                ok = isinstance(ro, list) and ro == want
                ck.spec(ok, f"formula_{sn}", f"{sn}: the kernel's source evaluated exactly (np.* = rational test "
                        f"functions) gives {[float(x) for x in ro] if isinstance(ro, list) else ro}, the documented "
                        f"formula gives {[float(x) for x in want]}",
                        {**case, "state_exact": [str(x) for x in st], "arg_exact": [str(x) for x in ar]})
            else:
                ok = ro != "OOB" and all(Fraction(ro[i]) == want[i] for i in idx)
                ck.spec(ok, f"formula_{sn}", f"{sn}: compiled kernel returned {ro}, the documented formula gives "
                        f"{[float(x) for x in want]} (exact on outputs {idx})", {**case, "returned": ro})


def streams(ck: Check) -> None:
    """Correspondence (B) and spec oracle (C) for the translated kernels; callable on its own."""
    m = meta(ck)
    im = impl()
    registrations(ck, m, im)
    kernel_streams(ck, m, im)
    oracle_poly(ck, im)
    oracle_nearest(ck, im)
    oracle_formulas(ck, m, im)


def check(ck: Check) -> None:
    ck.rule = ("per translated kernel: exhaustive unit/all-ones parameter vectors x full state grid {-2..2}^d, boundary "
               "(zeros, ties), random integers and dyadics k/4 — each run through (a) the kernel's source text over "
               "Fractions, (b) the compiled kernel where binary64 is exact, (c) random floats with tolerance (test); "
               "nearest-anchor: every rank assignment of the anchors' distances incl. ties (k^k) + random; polynomial: "
               "every unit parameter vector on the grid + random linear combinations; a case is one protocol line "
               "(fed to the model driver) together with the corresponding real call; distinct by line hash")
    ck.assumptions += [
        "IEEE-754 rounding of the kernels is not modelled: theorems are over an arbitrary linear ordered field; the "
        "compiled kernels are tied to the generated definitions exactly only on inputs where binary64 is exact, "
        "otherwise through the source text over Fractions (exact) and a 1e-9 tolerance test on floats",
        "numba compiles the kernels as written (fastmath reassociation/contraction changes no exact result)",
        "np.exp/np.tanh/np.sin/np.arctan/np.cos and math.pi are uninterpreted symbols in the theorems",
        "the translator harness/translate/py2lean.py and its grammar; float literals are read as the exact decimal "
        "written in the source",
        "the documented formulas of predefined.py (theses/xMLC book are not available offline) are taken from the "
        "function docstrings plus the protected-division convention visible in the code",
    ]
    ck.notes.append("inputs_not_modified holds by construction of the translation (only out[i] stores are "
                    "translatable); on the implementation it is tested after every real call")
    ck.notes.append("stream 'float-tolerance' and the float part of the formula oracle are tests with tolerance "
                    f"{TOL}, not exact correspondence")
    ck.gen_begin()   # lean/Gen is shared: held until the end of ck.lean
    m = meta(ck)
    for f in m["failures"]:
        ck.proof_failures.append("proof obligation not regenerable (translator rejected the kernel): " + f)
    ck.extra["translator"] = {"kernels": len(m["kernels"]), "failures": m["failures"],
                              "regenerated_files_changed": m["changed"]}
    # the driver must exist even if a theorem no longer compiles (the search step needs the specification)
    rc, log = common.run(["lake", "build", ck.drv], cwd=common.LEAN, timeout=3600)
    if rc != 0:
        ck.proof_failures.append("lake build drv_c16 failed: " + log[-1500:])
    modules, theorems, extra = list(MODULES), list(THEOREMS), []
    # part B (ANN code generator, min_ann) is built by another builder; merged in when present
    c16_ann = None
    if os.environ.get("VERIF_C16_PART", "").upper() != "A" and \
            importlib.util.find_spec(f"{__package__}.c16_ann") is not None:
        c16_ann = importlib.import_module(f"{__package__}.c16_ann")
    if c16_ann is not None:
        theorems += list(c16_ann.THEOREMS)
        modules += [x for x in c16_ann.MODULES if x not in modules]
        extra += list(getattr(c16_ann, "BUILD_EXTRA", []))
        if isinstance(getattr(c16_ann, "DRV", None), str) and c16_ann.DRV not in extra:
            extra.append(c16_ann.DRV)     # part B has its own driver executable
    ck.lean(modules, theorems, build_extra=extra or None)
    streams(ck)
    if c16_ann is not None:
        c16_ann.streams(ck)
