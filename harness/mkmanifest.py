"""Regenerate /verif/MANIFEST.json from the table below (run: /venv/bin/python -m harness.mkmanifest)."""
import json
from pathlib import Path

ROOT = Path(__file__).resolve().parent.parent
BASELINE = ("cd /repo && /venv/bin/python -m pytest -ra -q -p no:cacheprovider --timeout=900 "
            "--continue-on-collection-errors")

TB = ("Trusted: Lean 4.33 kernel; axioms as printed by #print axioms (subset of propext, Classical.choice, Quot.sound; "
      "no native_decide/bv_decide); the hand-written model is tied to /repo by the correspondence stream of this check "
      "(compiled modeldrv vs. the real numba/Python code in-process), which is sampled + small-scope exhaustive, not a proof; ")

# id -> (category, text, note, technique, design_ref) ; None = not claimed (reason)
CHECKS = {
    "C05": ("proof",
            "Lean theorems over unbounded matrices/tours: loop = cyclic edge sum, nearest/farthest-neighbour bounds for every "
            "permutation, symmetry flag iff, stored = given and fits the chosen dtype, no int64 overflow; model tied to the code by "
            "differential correspondence (exhaustive small scope, dtype thresholds, random, shipped instances).",
            TB + "numba int64 promotion and x[-1] wrap, moptipy int_range_to_dtype (modelled, threshold-checked), sanitize_name.",
            "Lean 4 proof (induction over tours, List.Perm re-indexing) + model/implementation correspondence", "6/C05"),
}
NOT_YET = "check not built yet (work in progress; see DESIGN.md section 6)"


def main() -> None:
    props = [json.loads(l)["id"] for l in (ROOT / "properties.jsonl").read_text().splitlines() if l.strip()]
    checks, na = [], []
    for p in props:
        c = CHECKS.get(p)
        if c is None or isinstance(c, str):
            na.append({"property_id": p, "reason": c or NOT_YET})
            continue
        cat, text, note, tech, ref = c
        checks.append({
            "property_id": p,
            "quick_cmd": f"./check {p} --tier quick",
            "thorough_cmd": f"./check {p} --tier thorough",
            "evidence_file": f"evidence/{p}.json",
            "replay_cmd_template": f"./check {p} --replay {{path}}",
            "engine": "lean-model",
            "level_claimed": {"category": cat, "text": text, "design_ref": f"DESIGN.md section {ref}"},
            "level_note": note,
            "technique": tech,
        })
    m = {
        "version": 1,
        "setup_cmd": "cd lean && lake build " + " ".join(
            f"Props.{c['property_id']} drv_{c['property_id'].lower()}" for c in checks),
        "hooks": {"guard": "MOPTIPYAPPS_VERIF",
                  "enable": "no hooks are installed: checks drive the public API and the module-level kernels of /repo "
                            "from outside (numba env vars NUMBA_CACHE_DIR/NUMBA_BOUNDSCHECK only)",
                  "baseline_off_cmd": BASELINE, "source_commits": [], "add_only": True},
        "engines": [{"name": "lean-model", "path": "lean/",
                     "serves_properties": [c["property_id"] for c in checks],
                     "kind_free_text": "Lean 4 models + theorems (lake project, no Mathlib in models), compiled line-protocol "
                                       "driver modeldrv, Python correspondence harness under harness/"}],
        "checks": checks,
        "notes": "Every check = (A) lake build + escape-hatch grep + #print axioms of the property theorems, (B) model vs "
                 "implementation correspondence, (C) the Lean spec applied to implementation outputs. See DESIGN.md.",
        "not_applicable": na,
    }
    (ROOT / "MANIFEST.json").write_text(json.dumps(m, indent=1) + "\n")


if __name__ == "__main__":
    main()
