"""Regenerate /verif/MANIFEST.json from the table below (run: /venv/bin/python -m harness.mkmanifest)."""
import json
from pathlib import Path

ROOT = Path(__file__).resolve().parent.parent
BASELINE = ("cd /repo && /venv/bin/python -m pytest -ra -q -p no:cacheprovider --timeout=900 "
            "--continue-on-collection-errors")

TB = ("Trusted: Lean 4.33 kernel; axioms as printed by #print axioms (subset of propext, Classical.choice, Quot.sound; "
      "no native_decide/bv_decide); the hand-written model is tied to /repo by the correspondence stream of this check "
      "(compiled modeldrv vs. the real numba/Python code in-process), which is sampled + small-scope exhaustive, not a proof; ")

# id -> (category, text, note, technique, design_ref) ; None = not claimed (reason)
CHECKS = {
    "C05": ("proof",
            "Lean theorems over unbounded matrices/tours: loop = cyclic edge sum, nearest/farthest-neighbour bounds for every "
            "permutation, symmetry flag iff, stored = given and fits the chosen dtype, no int64 overflow; model tied to the code by "
            "differential correspondence (exhaustive small scope, dtype thresholds, random, shipped instances). The kernel `tour_length` is additionally TRANSLATED from the current source on every run (harness/translate/loop2lean.py -> lean/Gen) and theorem C05Gen.* proves the generated definition equal to the hand model Tsp.tourLen? for all inputs.",
            TB + "numba int64 promotion and x[-1] wrap, moptipy int_range_to_dtype (modelled, threshold-checked), sanitize_name.",
            "Lean 4 proof (induction over tours, List.Perm re-indexing) + model/implementation correspondence", "6/C05", ["Props.C05Gen"]),
    "C06": ("proof",
            "15 Lean theorems, no residue: the O(1) delta equals the true change of tour length for every i<j<n except the whole array "
            "(symmetric d, any permutation, incl. the x[i-1] wrap and (j+1)%n), reversal = segment reversal and permutation-preserving, "
            "every (x,y) registered by EA and FEA is (permutation, exact cyclic edge sum) for all start tours and all draw sequences, EA "
            "lengths non-increasing, every FEA table index in [0, ub] on accepted instances, kernels/solve memory-safe, int64 arithmetic "
            "within +-2^62. Tie: stub-process replay of both real solve methods, direct kernel calls on all (i,j), bounds-checked pre-pass. The kernels `rev_if_not_worse` and `rev_if_h_not_worse` are additionally TRANSLATED from the current source on every run (loop2lean -> lean/Gen/RevIf*.lean; slice assignment with Python's slice rules, result = written arrays + value) and theorems C06Gen.rev_if_not_worse_eq_model / rev_if_h_not_worse_eq_model prove them equal to the hand models for all inputs, in-place updates of x and h included.",
            TB + "numpy RNG (scripted), moptipy Process (stub), numba compilation of slices/negative wrap.",
            "Lean 4 proof (induction over move lists, list-segment reversal lemmas) + stub-process correspondence", "6/C06", ["Props.C06GenEA", "Props.C06GenFEA"]),
    "C08": ("proof",
            "12 Lean theorems: kernel = tournament walk model (home, venue of each away opponent, home) + penalty per bye for all "
            "plans/matrices; no OOB on the space; lower/upper bound and strict increase on replacing any game by a bye for every "
            "constructor-accepted instance (no triangle inequality); upper bound tight; int64 range under upper_bound < 2^63. The four-team "
            "optimum clause is a finite table decided by exhaustive enumeration of all 7 x 12^6 plans with the real kernels (labelled "
            "enumeration, not proof). The kernel `game_plan_length` is additionally TRANSLATED from the current source on every run (harness/translate/loop2lean.py -> lean/Gen) and theorem C08Gen.* proves the generated definition equal to the hand model TtpLength.planLength? for all inputs.",
            TB + "known finding overflow_int64 (upper_bound() can exceed 2^63 for accepted instances); count_errors == 0 as feasibility "
            "filter in the optimum clause (C07).",
            "Lean 4 proof (per-team walk induction) + correspondence + exhaustive enumeration of the four-team table", "6/C08", ["Props.C08Gen"]),
    "C09": ("proof",
            "17 Lean theorems: loop = documented double sum; no OOB; rearrangement-inequality bounds lb <= value <= ub for every "
            "permutation (exchange argument on sorted lists); uint64 trivial_bounds kernel and int64 accumulator exact (partial sums < 2^53 "
            "when ub < 10^15); stored = given for every accepted constructor call; the QAPLIB parser accepts exactly the texts listing n, n^2 "
            "flows, n^2 distances on separate lines (iff), straddling lines raise, no silent misparse. Tie: differential correspondence "
            "(all dtype thresholds +-1, all wrappings of small texts, random, shipped QAPLIB). The kernel `_evaluate` is additionally TRANSLATED from the current source on every run (harness/translate/loop2lean.py -> lean/Gen) and theorem C09Gen.* proves the generated definition equal to the hand model Qap.qapEval? (up to the int64 wrap of the accumulator) for all inputs.",
            TB + "numba 0.60 int64 accumulator / uint64 wrap, numpy sort/astype, moptipy int_range_to_dtype, Python str.split/int() on ASCII.",
            "Lean 4 proof (sorted-list exchange argument, parser state machine) + correspondence", "6/C09", ["Props.C09Gen"]),
    "C15": ("proof",
            "19 Lean theorems for all n >= 2, all rounds, all integer lists: the blueprint contains each pairing exactly `rounds` times with "
            "pair and team home/away counts differing by <= 1 (closed-form parity argument), and the array-level model of map_games returns "
            "exactly the plan of the unique earliest-slot schedule, independent of prior destination content: consistent, no self-play, once "
            "per day, values in -n..n, no game more often than in x, no OOB, ZeroDivisionError exactly for n < 2. Tie: all blueprints n <= "
            "40/120 x rounds <= 7, exhaustive permutations of multisets of <= 8 games, random, dirty destinations, real GameEncoding objects. The kernel `map_games` is additionally TRANSLATED from the current source on every run (harness/translate/loop2lean.py -> lean/Gen) and theorem C15Gen.* proves the generated definition equal to the hand model GameEnc.mapGames for all inputs.",
            TB + "numba floor-division semantics, moptipy Permutations (only non-emptiness/sortedness used).",
            "Lean 4 proof (refinement of the loop to an explicit list, inductive EarliestSlot relation + uniqueness) + correspondence", "6/C15", ["Props.C15Gen"]),
    "C16": ("proof",
            "Part A (translator): the njit controller and system kernels are re-translated from the current source to Lean on every run; 31 "
            "theorems show the generated definitions equal the documented formulas over any linear ordered field: linear/quadratic/cubic are "
            "the complete polynomials with one parameter per monomial (ring identity + exponent-table bijection + declared param_dims), "
            "partially linear = law of the first nearest anchor, peaks/predefined/Stuart-Landau/Lorenz/oscillators = published formulas, all "
            "literal indices in range, only out[] is written. Part B: compiler correctness of the ANN code generator for ALL architectures "
            "(annGen_correct, parameter count, each parameter once, indices in range), tied to make_ann by byte-identical generated text; "
            "min-ANN search: interval/argmin invariant over exact ordered fields (partial: fuel, no float rounding).",
            TB + "the translator harness/translate/py2lean.py and its grammar; float rounding/fastmath outside (tied to compiled kernels exactly on "
            "binary64-exact inputs and via source-over-Fractions, plus a 1e-9 float test); min-ANN float termination is a test.",
            "translator (Python AST -> Lean, regenerated every run) + Lean 4 proof (ring/linarith/decide; compiler-correctness induction) + "
            "exact-arithmetic correspondence", "6/C16", ["Props.C16Ann", "drv_c16ann"]),
    "C01": ("proof",
            "Lean theorems for ALL valid instances, ALL signed permutations with repetitions, ALL prior contents of the destination and "
            "scratch arrays: both improved-bottom-left decoders stay inside their arrays and return a packing that satisfies the shared "
            "feasibility specification Pack.Feasible (inside the bin, pairwise non-overlapping per bin, ids with prescribed multiplicities "
            "and dimensions up to rotation, bins 1..k all used, reported count = k); the move loop terminates (fuel never cuts it short); "
            "forced rotation always fits; all stored values incl. the transient start position fit the dtype the instance selects. Proof by "
            "loop invariants over the permutation prefix (window covers exactly the rows of a bin). Tie: correspondence of all six columns + "
            "n_bins with dirty destinations/scratch and reused encoder objects, exhaustive over all signed permutations of small instances.",
            TB + "rows >= i of the destination are never read (visible in loop bounds, exercised by dirty destinations); numba int64 "
            "arithmetic on loaded values; huge bins are only constructible when thin (constructor cost).",
            "Lean 4 proof (geometric move lemmas with omega, invariant induction over the permutation) + correspondence", "6/C01"),
    "C20": ("proof",
            "19 Lean theorems (core only): de-duplication/mapping clause, positional distances |i-j|, and all flow clauses (zero diagonal, "
            "zero beyond horizon, equal on ties, antitone; plus positivity/strictness inside the horizon) for every square integer distance "
            "matrix, integer flow powers 1..99 and any horizon; swap distance = n - cycles = minimum number of transpositions (upper bound "
            "constructive, lower bound by orbit merging) for all lengths; no OOB on permutations. Tie: correspondence over exhaustive small "
            "distance tables, 8 distance functions, both rank paths, all permutation pairs up to length 5/6, BFS minimum as extra enumeration. The kernel `swap_distance` is additionally TRANSLATED from the current source on every run (loop2lean -> lean/Gen/SwapDistance.lean; the `while` loop by fuel, fuel exhausted = none; np.argsort a parameter instantiated with the model's argsort) and C20Gen.swap_distance_eq_model proves it equal to the hand model at the model's own fuel 2n for all inputs; swap_distance_perm gives n - cycles for permutations and every fuel >= 2n.",
            TB + "scipy rankdata modelled by doubled ranks, np.argsort, float pow exact below 2^53; float flow powers and distances >= 2^63 by "
            "testing only.",
            "Lean 4 proof (orbit/class counting for transpositions, rank monotonicity) + correspondence", "6/C20", ["Props.C20Gen"]),
    "C13": ("proof",
            "(A) Lean noOOB / index-range theorems for every modelled kernel: on every input the public spaces accept, the checked-accessor "
            "model returns `some` (decoders, tour length, EA/FEA move kernels incl. frequency-table indices, plan length, game mapping, QAP "
            "objective, swap distance; all literal indices of translated controller/system kernels, of ALL generated ANN architectures, and of the six min-ANN "
            "kernels (extracted from min_ann.py on every run into lean/Gen/MinAnnIdx.lean). "
            "(B/C) every stream of those properties is re-run in separate processes under NUMBA_BOUNDSCHECK=1 (own numba cache): an "
            "IndexError on a valid input is a violation with that input; model OOB <=> IndexError on the malformed streams.",
            TB + "NUMBA_BOUNDSCHECK=1 only adds IndexError (numba); min-ANN search loops are not modelled (no array access besides the extracted literals).",
            "Lean 4 proof (checked-accessor models return some) + bounds-checked differential re-run of all kernel streams", "6/C13"),
    "C18": ("proof",
            "18 Lean theorems: the four explicit-format walkers rebuild the prescribed matrix for every n (one generic index-state-machine "
            "invariant), line wrapping/blank lines are irrelevant, character-level writer -> reader round trip for every constructor-accepted "
            "instance (n <= 10^9, non-blank comments), tour parser yields permutations; integer characterisations of nint/ceil/ATT. The "
            "coordinate-metric clause (EUC_2D/CEIL_2D/ATT against an exact binary64 model, GEO against an 80-digit evaluation) and the shipped "
            "optimal tours are differential testing / exhaustive enumeration, labelled so.",
            TB + "ASCII input and the shape of sanitize_name fixed points assumed; float distance functions not proved; Instance.__new__ as "
            "modelled for C05.",
            "Lean 4 proof (token/character two-layer parser model, walker invariant) + correspondence; metrics by differential testing", "6/C18"),
    "C04": ("proof",
            "Lean theorem PackVal.validate_ok_iff: for every instance the constructor accepts and every packing object (any dtype tag, "
            "ragged rows, any n_bins) the statement-by-statement model of PackingSpace.validate returns ok IFF the packing belongs to the "
            "instance, has its dtype and shape (n_items,6) and satisfies the shared feasibility specification Pack.Feasible (both "
            "directions: multiplicity check on occurring ids suffices, min/max/len <=> bins 1..k, overlap loop <=> pairwise disjointness); "
            "fromStr_toStr / fromStr_validates for the text form at character level. Tie: correspondence on verdict AND error kind "
            "(1.0e5 quick / 1.96e6 thorough cases incl. the complete 3^12 matrix enumeration, ~30 corruption classes) and the spec oracle "
            "on real validate / from_str / copy results.",
            TB + "np.fromstring's lenient parser is external (checked on to_str output and wrong-count texts only); TypeError paths, values "
            "outside the dtype and ndim != 2 arrays are outside the model.",
            "Lean 4 proof (validator model <=> declarative feasibility, decimal text round trip) + correspondence", "6/C04"),
    "C02": ("proof",
            "29 Lean theorems: all seven objective kernels (array-level, arbitrary row order, arbitrary scratch content) equal their "
            "documented values on every feasible packing; the skyline sweep equals the sum of the skyline function for ALL inputs; "
            "to_bin_count inverts; bins <= n_items; tie part in [1, scale]; lower <= value <= upper (unconditional for the geometric bound, "
            "given lower_bound_bins <= k for the instance's bound = C03); strict dominance of fewer bins under every objective; the "
            "out-of-bounds condition of the scratch kernels characterised exactly; range theorem n_items*W*H < 2^63 => no int64 wrap. Uses "
            "the shared area lemma (pairwise disjoint rectangles inside the bin have area <= W*H). The four for-loop kernels (bin_count_and_last_empty, _empty, _last_small, _small) are additionally TRANSLATED from the current source on every run (loop2lean -> lean/Gen/BinCountAnd*.lean) and theorems C02Gen.*_eq_model prove them equal to the hand models for all row lists and scratch contents; the two skyline kernels (while loops) are outside the translator's subset.",
            TB + "known finding int64-wrap (accepted instances with n_items*W*H >= 2^63); lower-bound clause depends on C03 for the DAMV part.",
            "Lean 4 proof (loop invariants, column counting for skylines, Finset cell counting for areas) + correspondence", "6/C02", ["Props.C02GenLastEmpty", "Props.C02GenEmpty", "Props.C02GenLastSmall", "Props.C02GenSmall"]),
    "C07": ("proof",
            "Lean theorems for every n >= 2, rounds, plan in the space, accepted setting and scratch content: countErrors = 0 <=> the plan is a "
            "feasible round-robin schedule (both directions, spec written from the property text), equals the documented per-rule count on "
            "consistent plans, is non-negative, scratch-independent and never out of bounds (incl. self-play entries). The declared upper "
            "bound is REFUTED in general (theorem upperBound_claim_false = known finding) and proved on the class of consistent plans with "
            "minima <= 1 and non-binding separation_max; every added hypothesis has a Lean counterexample reproduced on the real code. Plus "
            "exhaustive enumeration of all 12^6 four-team plans (thorough; 2 % slice quick). The kernel `count_errors` is additionally TRANSLATED from the current source on every run (harness/translate/loop2lean.py -> lean/Gen/CountErrors.lean) and theorem C07Gen.count_errors_eq_model proves the generated definition equal to the hand model TtpErrors.countErrors? for all inputs (any plan shape, any scratch contents; none on exactly the same inputs).",
            TB + "known finding upper_bound_exceeded; numba int64 arithmetic on int8 loads.",
            "Lean 4 proof (column scan state machine <=> declarative run/separation/pair-count specification) + correspondence + enumeration",
            "6/C07", ["Props.C07Gen"]),
    "C03": ("proof",
            "FULL statement proved (Pack.lowerBound_le_bins): for every instance the constructor accepts and every feasible packing with "
            "90-degree rotation into k bins, lower_bound_bins <= k - the complete Dell'Amico/Martello/Vigo argument: the CUTSQ squares tile "
            "each item, S1-S4 exclusivity and waste-strip geometry via the shared area lemma, optimality of the greedy S2-S3 matching "
            "(exchange argument), the arithmetic and the orientation swap; plus lower_bound_bins >= ceil(area/bin area), 1 <= bound <= "
            "n_items, InstanceSpace.min_bins = bound, final range checks never reject, no division by zero. Tie: correspondence on all 557 "
            "shipped instances, exhaustive small scope, thresholds/random; witness packings (exact optimum, guillotine, bottom-left) are "
            "validated by the Lean feasibility spec.",
            TB + "float halves modelled as 2*l > W (exact below 2^53); list sort; the exact packer/generators are untrusted (witnesses are "
            "validated).",
            "Lean 4 proof (tiling by Euclid-style cutting, Finset cell counting, exchange argument) + correspondence + exact small optimum", "6/C03"),
    "C10": ("proof",
            "PARTIAL by nature: 9 Lean theorems over exact rationals for the logic of the simulation - retry state machine (at most 5 cycles; "
            "result is exactly `steps` rows or the single failure row), row acceptance (first row = start, strictly increasing times <= the "
            "original limit, every entry in range, control = controller(state, t)), time-limit monotonicity (after fix 63f4879), the "
            "integration-state bookkeeping, figure-of-merit cursor fills exactly (no OOB) and J = documented formula >= 0 - for EVERY "
            "integrator/controller behaviour satisfying the recorded runtime assumptions EnvOk. scipy's inner stepping, float evaluation and "
            "integrator accuracy are recorded and tested, not proved.",
            TB + "EnvOk (linspace grid shape, dense/controller output lengths, integrator stops, nextafter) is checked on every recorded run; "
            "analytic-solution clause is a tolerance test.",
            "Lean 4 proof of the control skeleton over an abstract integrator + scripted/recorded-integrator correspondence", "6/C10"),
    "C11": ("proof",
            "9 Lean theorems about the objective's object state machine for ALL histories of evaluate/initialize/set_model/set_raw/"
            "get_differentials, both variants, all training-set sizes and stale buffer contents: refinement to a state-free documented "
            "machine; evaluate returns the value of a fresh objective (in range or the failure value); model toggling does not interfere; "
            "recorded data is a prefix-monotone log growing only in raw-mode evaluations; get_differentials idempotent and content-"
            "preserving. run_ode/j_from_ode/diff_from_ode are abstract pure functions in the proof; their purity is TESTED by bit-exact "
            "history correspondence against fresh objects.",
            TB + "purity/determinism of RK45 and numba kernels is an assumption tested by the history correspondence, not derived.",
            "Lean 4 proof (refinement of the object state machine) + bit-exact history correspondence", "6/C11"),
    "C14": ("proof",
            "11 Lean theorems: the array-level models of both decoders (C01, correspondence-checked) EQUAL an executable specification "
            "written from the documentation (falls to the highest stop, slides to the rightmost stop incl. the left end of supporting items, "
            "down-first loop, rotation rule, next-fit / first-fit over lists of bins) for every valid instance, signed permutation and prior "
            "memory; the spec loop terminates unconditionally at the unique rest position; statelessness for single calls and for arbitrary "
            "histories of mixed-encoder calls on one destination. Tie: fresh-vs-history decodes on shared encoder objects with dirty "
            "destinations/scratch, overhang/touching/support-tie scenes.",
            TB + "the specification is our formal reading of the docstrings.",
            "Lean 4 proof (refinement model = documented rule; window = rows of a bin) + correspondence over decode histories", "6/C14"),
    "C17": ("proof",
            "15 Lean theorems, for ARBITRARY int-truncation oracles (hence all real vectors of every admissible length): phase 1 terminates; "
            "the decoded instance is valid, has the template's W/H/n_items, is packable into exactly min_bins bins (explicit guillotine "
            "layout carried as ghost fields -> Pack.Feasible), keeps total area in ((k-1)WH, kWH] through the slack phase (needs fix "
            "501ce37), ceil(area/WH) = min_bins, and - combined with C03's full lower-bound theorem - lower_bound_bins = min_bins; decoding "
            "is a function of the vector; Errors in [0,1] and 0 for the template; hardness clamps in [0,1]. The two float->int uses "
            "int(k*x) are tied to the code by an exact binary64 multiply-truncate model checked on +-1, +-0, nextafter neighbours etc.",
            TB + "numpy shuffle is an arbitrary permutation parameter (recomputed by the harness for exact order comparison); Hardness "
            "optimisation runs are sampled tests; templates > 1e8 items carry a guard.",
            "Lean 4 proof (guillotine-cut invariants with explicit layout) + correspondence with an exact binary64 model", "6/C17",
            ["Props.C17LB"]),
    "C12": ("other",
            "Independent VERIFIED ORACLES + SAMPLED RUNS (not a proof of the universal statement, which quantifies over whole runs of "
            "moptipy algorithms under numpy RNG and budgets): 15 Lean corollaries (component purity re-exported from C01/C02/C05/C07/"
            "C08/C09/C15 + an abstract search process: best-so-far bookkeeping is true, within budget and replicable for scratch-"
            "independent objectives); every bundled setup is built with the repository's own functions, run twice in-process plus a "
            "stratified third run in a fresh interpreter, and its final solution, logged value and parsed log files are judged by the "
            "compiled Lean specifications (Pack.Feasible, objective specs, cyclic tour sum, plan walk, QAP double sum, error count).",
            TB + "moptipy Execution/Process/RNG determinism assumed; the shape of Model/Search.lean is an assumption about moptipy; known "
            "finding control_run_raises (pinned moptipy/pycommons cannot render the CMA-ES restart log).",
            "verified Lean oracles applied to sampled replicated runs (level: other)", "6/C12"),
    "C19": ("proof",
            "22 Lean theorems: compact instance strings, instance-space strings, game plans and orderings round-trip for ALL valid objects "
            "(character level, no size bound; derived attributes are functions of the parsed fields; readers only return members of the "
            "space); PackingResult and PackingStatistics CSV tables round-trip at table (cell) level for all record sets in the stated "
            "domain (heterogeneous objectives/bin bounds/optional columns, trimmed and padded rows), MODULO the embedded moptipy/pycommons "
            "record codecs (explicit hypotheses). Packing text: token layer here, validator in C04. Tie: in-process correspondence incl. "
            "real experiment logs, perturbed tables, field-by-field comparison.",
            TB + "CSV: cells, not characters; bin-bound keys inside the scope 'bins.lowerBound' (what the package produces); known finding "
            "stats_goal_mixed_moptipy (dependency).",
            "Lean 4 proof (decimal text round trips, CSV column-layout model) + correspondence", "6/C19"),
}
NOT_YET = "check not built yet (work in progress; see DESIGN.md section 6)"


def main() -> None:
    props = [json.loads(l)["id"] for l in (ROOT / "properties.jsonl").read_text().splitlines() if l.strip()]
    checks, na, extra_targets = [], [], []
    for p in props:
        c = CHECKS.get(p)
        if c is None or isinstance(c, str):
            na.append({"property_id": p, "reason": c or NOT_YET})
            continue
        cat, text, note, tech, ref = c[:5]
        extra_targets.extend(c[5] if len(c) > 5 else [])
        checks.append({
            "property_id": p,
            "quick_cmd": f"./check {p} --tier quick",
            "thorough_cmd": f"./check {p} --tier thorough",
            "evidence_file": f"evidence/{p}.json",
            "replay_cmd_template": f"./check {p} --replay {{path}}",
            "engine": "lean-model",
            "level_claimed": {"category": cat, "text": text, "design_ref": f"DESIGN.md section {ref}"},
            "level_note": note,
            "technique": tech,
        })
    m = {
        "version": 1,
        "setup_cmd": "cd lean && lake build " + " ".join(
            [t for c in checks for t, f in ((f"Props.{c['property_id']}", f"lean/Props/{c['property_id']}.lean"),
                                             (f"drv_{c['property_id'].lower()}", f"lean/Driver/{c['property_id']}Main.lean"))
             if (ROOT / f).exists()] + extra_targets),
        "hooks": {"guard": "MOPTIPYAPPS_VERIF",
                  "enable": "no hooks are installed: checks drive the public API and the module-level kernels of /repo "
                            "from outside (numba env vars NUMBA_CACHE_DIR/NUMBA_BOUNDSCHECK only)",
                  "baseline_off_cmd": BASELINE, "source_commits": [], "add_only": True},
        "engines": [{"name": "lean-model", "path": "lean/",
                     "serves_properties": [c["property_id"] for c in checks],
                     "kind_free_text": "Lean 4 models + theorems (lake project, no Mathlib in models), compiled line-protocol "
                                       "driver modeldrv, Python correspondence harness under harness/"}],
        "checks": checks,
        "notes": "Every check = (A) lake build + escape-hatch grep + #print axioms of the property theorems, (B) model vs "
                 "implementation correspondence, (C) the Lean spec applied to implementation outputs. See DESIGN.md.",
        "not_applicable": na,
    }
    (ROOT / "MANIFEST.json").write_text(json.dumps(m, indent=1) + "\n")


if __name__ == "__main__":
    main()
