"""Stand-alone reproduction of the C10 finding `time_limit_grows` (run: /venv/bin/python harness/c10_repro.py).

`run_ode` raises its own time limit to 1.797e308 when scipy's RK45 gives up with status
"failed" (step size below 10 ulp) although no evaluation of the right-hand side ever left
(-1e10, 1e10): then `min_error_t` is still `inf`, and the first shrink formula
`nextafter(min(min_error_t, 0.8*max_ok_t + 0.2*min_error_t), -inf)` evaluates to
`nextafter(inf, -inf) = 1.7976931348623157e308`.

Consequences shown below with one deterministic, stateless, bounded right-hand side
(|dx/dt| <= 9e9, zero outside two time windows) and the controller u = 0:
 (1) `run_ode(..., steps=100, max_time=50.0)` returns 100 rows whose last time is 77.78 > 50
     (property C10: "times strictly increasing from 0 to at most the time limit");
 (2) with only the first window the second cycle integrates towards t = 1.8e308 in steps of at
     most 100 time units: the call does not return (shown with a step budget).
"""
import math
import os
import sys

sys.path.insert(0, os.environ.get("VERIF_REPO", "/repo"))
os.environ.setdefault("NUMBA_CACHE_DIR", "/tmp/c10-repro-numba")

import numpy as np  # noqa: E402

import moptipyapps.dynamic_control.ode as ode  # noqa: E402


def make_eq(windows):
    def eq(_state, t, _ctrl, out):
        out[0] = 9e9 * math.sin(1e15 * t) if any(lo < t < hi for lo, hi in windows) else 0.0
    return eq


def ctrl(_state, _t, _params, dest):
    dest[0] = 0.0


def main() -> int:
    bounds = []
    real = ode.RK45

    class Budget(Exception):
        pass

    class Rec(real):  # records t_bound of every cycle, stops after 200000 steps
        def __init__(self, fun, t0, y0, t_bound, **kw):
            bounds.append(float(t_bound))
            self._k = 0
            super().__init__(fun, t0, y0, t_bound, **kw)

        def step(self):
            self._k += 1
            if self._k > 200000:
                raise Budget
            return super().step()

    ode.RK45 = Rec
    bad = 0
    res = ode.run_ode(np.array([0.0]), make_eq([(40.0, 48.0), (55.0, 63.0)]), ctrl, None, 1, 100, 50.0)
    print("(1) rows", res.shape, "last time", res[-1, -1], "time limits per cycle", bounds)
    if res[-1, -1] > 50.0:
        print("    DEFECT: simulated time exceeds max_time=50")
        bad = 1
    bounds.clear()
    try:
        res = ode.run_ode(np.array([0.0]), make_eq([(40.0, 48.0)]), ctrl, None, 1, 100, 50.0)
        print("(2) returned", res.shape, "time limits per cycle", bounds)
    except Budget:
        print("(2) step budget of 200000 RK45 steps exhausted in cycle", len(bounds), "time limits per cycle", bounds)
        print("    DEFECT: the time limit grew; the call would need ~1e306 integrator steps")
        bad = 1
    if any(b > 50.0 for b in bounds):
        bad = 1
    return bad


if __name__ == "__main__":
    sys.exit(main())
