"""Measure which lines of a property's anchored source files its streams execute.

usage: /venv/bin/python -m harness.covrun Cxx [quick|thorough]
Runs the property's `streams(ck)` in-process with NUMBA_DISABLE_JIT=1 (njit kernels run as plain Python so that
coverage.py can trace them) and prints, per anchored file, the executable lines that were never executed.  This is a
generator-quality measurement (which branches of the modelled code do the streams reach?), not a verdict.
"""
from __future__ import annotations

import importlib
import json
import os
import sys


def main() -> int:
    prop = sys.argv[1].upper()
    tier = sys.argv[2] if len(sys.argv) > 2 else "quick"
    os.environ["NUMBA_DISABLE_JIT"] = "1"
    from . import anchors, common
    common.setup_env("nojit")
    import coverage
    files = [str(common.REPO / f) for f in anchors.anchored_files(prop)]
    cov = coverage.Coverage(include=files, branch=True, data_file=None)
    mod = importlib.import_module(f"harness.{prop.lower()}")
    ck = common.Check(prop, tier, int(os.environ.get("VERIF_SEED", "0") or 0))
    ck.work = common.WORK / "cov" / prop
    ck.work.mkdir(parents=True, exist_ok=True)
    cov.start()
    try:
        mod.streams(ck)
    finally:
        cov.stop()
    out = {}
    for f in files:
        try:
            _, stmts, _, missing, _ = cov.analysis2(f)
        except Exception as e:  # noqa: BLE001
            out[f] = f"not measured: {e}"
            continue
        rel = os.path.relpath(f, common.REPO)
        out[rel] = {"statements": len(stmts), "missing": len(missing),
                    "missing_lines": missing if len(missing) <= 80 else missing[:80] + ["..."]}
        print(f"{rel}: {len(stmts) - len(missing)}/{len(stmts)} statements executed; missing {missing[:60]}")
    (common.WORK / "cov").mkdir(exist_ok=True)
    (common.WORK / "cov" / f"{prop}.json").write_text(json.dumps(out, indent=1))
    print(f"cases={ck.evaluations} mismatches={len(ck.corr_mismatch)} spec_violations={len(ck.spec_violations)}")
    return 0


if __name__ == "__main__":
    sys.exit(main())
