"""loop2lean — translate small integer loop kernels of /repo to a SHALLOW Lean embedding (DESIGN.md section 10.1).

Re-run by the property's own check on every run (`harness/c05.py`, `c09.py`, `c08.py`): parses the CURRENT source under
`$VERIF_REPO` with `ast` and writes one Lean file per kernel

    tsp/tour_length.py   tour_length       -> lean/Gen/TourLength.lean   (namespace Gen.TourLength)
    qap/objective.py     _evaluate         -> lean/Gen/QapEval.lean      (namespace Gen.QapEval)
    ttp/plan_length.py   game_plan_length  -> lean/Gen/PlanLength.lean   (namespace Gen.PlanLength)
    ttp/game_encoding.py map_games         -> lean/Gen/MapGames.lean     (namespace Gen.MapGames)
    ttp/errors.py        count_errors      -> lean/Gen/CountErrors.lean  (namespace Gen.CountErrors)
    binpacking2d/objectives/bin_count_and_{last_empty,empty,last_small,small}.py
                                           -> lean/Gen/BinCountAnd{LastEmpty,Empty,LastSmall,Small}.lean
    tsp/ea1p1_revn.py    rev_if_not_worse  -> lean/Gen/RevIfNotWorse.lean     (result: (x, returned value))
    tsp/fea1p1_revn.py   rev_if_h_not_worse -> lean/Gen/RevIfHNotWorse.lean   (result: (h, x, returned value))
    order1d/distances.py swap_distance     -> lean/Gen/SwapDistance.lean      (parameters `np_argsort`, `fuel`)

The output is a Lean `def` in the `Option` monad written in `do` notation (`let mut`, `for … in … do`, `if`, `continue`
are native Lean), so it reads like the Python source.  `Props/C05Gen.lean`, `C09Gen.lean`, `C08Gen.lean`, `C15Gen.lean` prove that
the generated definition equals the hand-written model for ALL inputs; a change of the kernel changes the generated
text and the theorem is re-checked against it.

Semantics of the embedding
* every Python `int` (locals, parameters, array elements, loop counters) is an unbounded Lean `Int`
  (machine overflow is the subject of separate theorems about the hand-written models);
* a 1-D ndarray is a `List Int`, a 2-D ndarray a `List (List Int)` (list of rows) — the representation of the hand
  models; `a.shape` of a 2-D array is an explicit extra parameter `a_shape : Int × Int` (a list of rows does not know
  its width when there are no rows);
* every array read goes through a checked accessor (`get1?`, `get2?`): an index value `v < 0` wraps once (`v + len`,
  what numpy/numba do), anything still outside `[0, len)` yields `none` (= the access leaves the array; the compiled
  code has `boundscheck=False`, the model answers `OOB`).  A literal negative index `a[-k]` is written out as
  `len a - k`;
* `return int(e)` is `return e` (`int` of an integer);
* a function `-> None` that writes into array parameters (`a[i, j] = e`, `a.fill(e)`) is a procedure: the array is a
  `let mut` variable initialised with the parameter (its prior content is an input) and the generated function returns
  the final array; writes go through the checked `set1?`/`set2?` (same index rule as reads);
* a function `-> int` may also write into array parameters (scratch arrays): their prior content is an input, the
  result is the returned integer only (the final content of the scratch arrays is not part of the result);
* a Python `bool` local (annotated `bool`, or assigned only `True`/`False`) is a Lean `Bool`;
* `col = a[:, j]` (a column of a 2-D array that the function never writes into) is a local `List Int` obtained with
  the checked `getCol?`; `abs(e)` is `Int.natAbs`; `e // K`, `e % K` with a non-zero literal `K` are the total
  `Int.fdiv e K`, `Int.fmod e K`;
* `len(a)` is the number of elements (rows) of `a`; `max(a, b)` / `min(a, b)` are Lean's; `a[lo:hi].min()` /
  `.max()` of a 1-D array go through `sliceMin?` / `sliceMax?`: numpy's slice rules (a negative bound counts from the
  end, bounds are clipped to the array) and `none` for an empty slice (numpy raises `ValueError`);
* for the kernels registered with `result_arrays` the arrays the function writes into are NOT scratch: the generated
  function returns `(written arrays in parameter order …, returned value)`;
* `return e` may also be the last statement of an `if` branch outside any loop (Lean's `return` leaves the function);
* `a[lo:hi:1] = b[lo2:hi2:s]` (1-D, literal steps, target step 1, source step 1 or -1) is `a := (← setSlice? a lo hi
  (getSlice b lo2 hi2 s))`: Python's `slice.indices` rules (negative bounds count from the end, bounds are clipped, a
  missing bound is the end in the direction of the step), the right-hand side is read completely before the write
  (numpy's overlap rule), a length mismatch is `none` (`ValueError`);
* `while cond: body` is a loop BY FUEL: the generated function gets an extra parameter `fuel : Nat` and the loop
  becomes `for _ in List.range fuel do (if ¬ cond then break); body`, followed by `if cond then none` — running out
  of fuel is a failure of the `Option` monad, like an access outside an array (every `while` loop of the function
  gets the full `fuel`);
* `np.argsort` is not modelled: it becomes a parameter `np_argsort : List Int → List Int` of the generated function;
  `x = b[np.argsort(a)]` (fancy indexing) is the checked `gather? b (np_argsort a)`;
* `u = np.ones(n, DEFAULT_BOOL)` is a local `List Bool` (`onesB? n`, `none` for a negative `n`) that may be read in
  conditions (`if u[i]:`) and written with `u[i] = True | False`;
* a name that is not a local is looked up as a module-level integer constant (`NAME[: Final[int]] = INT` in the same
  module or in the module it is imported from with `from M import NAME`) and emitted as `def NAME : Int := INT`;
* `//` and `%` are Python's floor division and modulus (`Int.fdiv`, `Int.fmod`); a zero divisor yields `none`
  (the compiled code raises `ZeroDivisionError`).

Accepted grammar — everything else raises `Untranslatable` (never guessed):

    def   ::= def NAME(p: np.ndarray | int, …) -> int: [docstring] stmt* return
            | def NAME(p: np.ndarray | int, …) -> None: [docstring] stmt+      (procedure: must write into an array)
    stmt  ::= NAME [: int | Final[int]] = expr | NAME (+=|-=|*=) expr | NAME, NAME = ARR.shape
            | NAME [: bool] = True | False | BOOLNAME | NAME = ARR[:, ix]
            | ARR[ix] = expr | ARR[ix, ix] = expr | ARR[ix(, ix)] (+=|-=|*=) expr | ARR.fill(expr)
            | ARR[[expr]:[expr][:1]] = ARR[[expr]:[expr][:1|-1]]
            | NAME [: np.ndarray] = ARR[np.argsort(ARR)] | NAME [: np.ndarray] = np.ones(expr, DEFAULT_BOOL | bool)
            | BOOLARR[ix] = True | False | while cond: stmt+
            | for NAME in ARR: stmt+ | for NAME, NAME in enumerate(ARR): stmt+
            | for NAME in range(expr [, expr]): stmt+
            | if cond: stmt+ (elif cond: stmt+)* [else: stmt+] | continue | break
    return::= return expr            (last statement of the function, or of an `if` branch that is not inside a loop)
    expr  ::= INT | NAME | expr (+|-|*|//|%) expr | -expr | +expr | ARR[ix] | ARR[ix, ix] | int(expr) | (expr)
            | abs(expr) | expr if cond else expr      (no array read / non-literal division inside the branches)
            | len(ARR) | max(expr, expr) | min(expr, expr) | ARR[[expr]:[expr]].min() | ARR[[expr]:[expr]].max()
            | MODULE_CONSTANT
    ix    ::= expr | -INT            (literal negative index: first axis only)
    cond  ::= expr (<|<=|>|>=|==|!=) expr | BOOLNAME | BOOLARR[ix] | cond and cond | cond or cond | not cond
              (the right operand of and/or must not read an array or divide: Lean would hoist the partial operation
              out of the short-circuit.  One exception, translated faithfully: `if c1 or c2 …: block` without `else`
              whose block ends in `continue`/`break` becomes `if c1 then block; if c2 then block; …`)

Scoping: a name is declared (`let` / `let mut`) by its first assignment in a block and lives to the end of that block —
Lean's rule.  A Python program that reads a name outside the block of its first assignment (or before it, or assigns a
loop variable / a parameter) is rejected, so that Lean's scoping and Python's function-wide scoping agree on every
accepted program.  One widening: a name that is not yet declared and is assigned at the top level of EVERY branch of an
`if … elif … else` is declared (`let mut x := 0`, the value is never read) just before the `if`; inside a branch it may
be read only after the branch has assigned it.
"""
from __future__ import annotations

import ast
from pathlib import Path


class Untranslatable(Exception):
    """The construct is outside the accepted grammar."""


KERNELS = {
    "TourLength": ("moptipyapps/tsp/tour_length.py", "tour_length"),
    "QapEval": ("moptipyapps/qap/objective.py", "_evaluate"),
    "PlanLength": ("moptipyapps/ttp/plan_length.py", "game_plan_length"),
    "MapGames": ("moptipyapps/ttp/game_encoding.py", "map_games"),
    "CountErrors": ("moptipyapps/ttp/errors.py", "count_errors"),
    "BinCountAndLastEmpty": ("moptipyapps/binpacking2d/objectives/bin_count_and_last_empty.py", "bin_count_and_last_empty"),
    "BinCountAndEmpty": ("moptipyapps/binpacking2d/objectives/bin_count_and_empty.py", "bin_count_and_empty"),
    "BinCountAndLastSmall": ("moptipyapps/binpacking2d/objectives/bin_count_and_last_small.py", "bin_count_and_last_small"),
    "BinCountAndSmall": ("moptipyapps/binpacking2d/objectives/bin_count_and_small.py", "bin_count_and_small"),
}
KERNELS["SwapDistance"] = ("moptipyapps/order1d/distances.py", "swap_distance")
KERNELS["RevIfNotWorse"] = ("moptipyapps/tsp/ea1p1_revn.py", "rev_if_not_worse")
KERNELS["RevIfHNotWorse"] = ("moptipyapps/tsp/fea1p1_revn.py", "rev_if_h_not_worse")
# kernels whose written arrays are results (returned together with the value), not scratch
RESULT_ARRAYS = {"RevIfNotWorse", "RevIfHNotWorse"}
BINOBJ_KEYS = ["BinCountAndLastEmpty", "BinCountAndEmpty", "BinCountAndLastSmall", "BinCountAndSmall"]

# names of the prelude and of Lean itself that a Python identifier must not shadow
RESERVED = {"fuel", "np_argsort", "gather?", "onesB?", "getB?", "setB?", "idx?", "get1?", "get2?", "getCol?", "set1?", "set2?", "getSlice", "setSlice?", "pySlice", "listMin?", "listMax?", "sliceMin?",
            "sliceMax?", "max", "min", "fill1", "fill2", "pyFloorDiv", "pyMod", "pyRange", "pyEnumerate", "Int", "Nat", "List", "Option", "some",
            "none", "pure", "forIn", "ForInStep"}
LEAN_KEYWORDS = {
    "instance", "end", "at", "from", "fun", "do", "then", "else", "if", "let", "have", "show", "in", "with", "match",
    "def", "theorem", "lemma", "open", "namespace", "section", "variable", "universe", "import", "where", "deriving",
    "structure", "class", "inductive", "mutual", "private", "protected", "partial", "unsafe", "macro", "syntax",
    "notation", "infix", "infixl", "infixr", "prefix", "postfix", "by", "calc", "return", "for", "unless", "try",
    "catch", "finally", "break", "continue", "mut", "Type", "Sort", "Prop", "set_option", "attribute", "local",
    "scoped", "example", "abbrev", "opaque", "axiom", "noncomputable", "nomatch", "nofun", "exists", "forall", "using",
    "extends", "termination_by", "decreasing_by", "export", "elab", "initialize", "omit", "include", "public", "meta",
    "module", "all", "suffices", "obtain", "this", "fix", "hiding", "renaming", "instances", "mutable", "sorry",
    "admit", "extern", "macro_rules", "elab_rules", "declare_syntax_cat", "universes", "λ", "Π", "Σ",
}

PRELUDE = '''\
/-- an index VALUE: numpy/numba wrap a negative index once (`v + len`); anything still outside `[0, len)` is an
access outside the array (`none`) -/
def idx? (len : Nat) (v : Int) : Option Nat :=
  if v < 0 then (if 0 ≤ v + len then some (v + len).toNat else none)
  else if v < len then some v.toNat else none

/-- checked `a[i]` -/
def get1? (a : List Int) (i : Int) : Option Int := (idx? a.length i).bind (a[·]?)

/-- checked `a[i, j]` (list of rows) -/
def get2? (a : List (List Int)) (i j : Int) : Option Int :=
  (idx? a.length i).bind fun r => (a[r]?).bind fun row => (idx? row.length j).bind (row[·]?)

/-- `range(a, b)` -/
def pyRange (a b : Int) : List Int := (List.range (b - a).toNat).map fun (k : Nat) => a + (k : Int)

/-- `enumerate(a)`: (position, value), the position read as an `Int` -/
def pyEnumerate (a : List Int) : List (Int × Int) := a.zipIdx.map fun p => ((p.2 : Int), p.1)
'''

# emitted only into the files of kernels that use them (the text of the other generated files does not change)
PRELUDE_STORE = '''\
/-- checked `a[i] = v` -/
def set1? (a : List Int) (i : Int) (v : Int) : Option (List Int) := (idx? a.length i).map fun k => a.set k v

/-- checked `a[i, j] = v` (list of rows) -/
def set2? (a : List (List Int)) (i j : Int) (v : Int) : Option (List (List Int)) :=
  (idx? a.length i).bind fun r => (a[r]?).bind fun row => (idx? row.length j).map fun c => a.set r (row.set c v)

/-- `a.fill(v)` -/
def fill1 (a : List Int) (v : Int) : List Int := a.map fun _ => v
def fill2 (a : List (List Int)) (v : Int) : List (List Int) := a.map fun row => row.map fun _ => v
'''

PRELUDE_COL = '''\
/-- checked `a[:, j]` (a column of a list of rows) -/
def getCol? (a : List (List Int)) (j : Int) : Option (List Int) :=
  a.mapM fun row => (idx? row.length j).bind (row[·]?)
'''

PRELUDE_SLICE = '''\
/-- numpy's `a[lo:hi]` (step 1): a negative bound counts from the end, both bounds are clipped to `[0, len]` -/
def pySlice (a : List Int) (lo hi : Int) : List Int :=
  let norm := fun (k : Int) => if k < 0 then max (k + a.length) 0 else min k a.length
  (a.drop (norm lo).toNat).take ((norm hi).toNat - (norm lo).toNat)

/-- `.min()` / `.max()`; `none` = the array is empty (`ValueError`) -/
def listMin? : List Int → Option Int
  | [] => none
  | x :: xs => some (xs.foldl min x)
def listMax? : List Int → Option Int
  | [] => none
  | x :: xs => some (xs.foldl max x)

/-- `a[lo:hi].min()`, `a[lo:hi].max()` -/
def sliceMin? (a : List Int) (lo hi : Int) : Option Int := listMin? (pySlice a lo hi)
def sliceMax? (a : List Int) (lo hi : Int) : Option Int := listMax? (pySlice a lo hi)
'''

PRELUDE_SLICEASSIGN = '''\
/-- the elements of `a[lo:hi:step]` for `step = 1` or `step = -1` (Python's `slice.indices`): a negative bound counts
from the end, bounds are clipped, a missing bound (`none`) is the end of the array in the direction of the step -/
def getSlice (a : List Int) (lo hi : Option Int) (step : Int) : List Int :=
  let len : Int := a.length
  if step > 0 then
    let norm := fun (k : Int) => if k < 0 then max (k + len) 0 else min k len
    let l := match lo with | none => 0 | some k => norm k
    let h := match hi with | none => len | some k => norm k
    (a.drop l.toNat).take (h.toNat - l.toNat)
  else
    let norm := fun (k : Int) => if k < 0 then max (k + len) (-1) else min k (len - 1)
    let l := match lo with | none => len - 1 | some k => norm k
    let h := match hi with | none => -1 | some k => norm k
    ((a.take (l + 1).toNat).drop (h + 1).toNat).reverse

/-- `a[lo:hi:1] = v`; `none` = the lengths differ (`ValueError`) -/
def setSlice? (a : List Int) (lo hi : Option Int) (v : List Int) : Option (List Int) :=
  let len : Int := a.length
  let norm := fun (k : Int) => if k < 0 then max (k + len) 0 else min k len
  let l := match lo with | none => 0 | some k => norm k
  let h := match hi with | none => len | some k => norm k
  let cnt := h.toNat - l.toNat
  if v.length = cnt then some (a.take l.toNat ++ v ++ a.drop (l.toNat + cnt)) else none
'''

PRELUDE_GATHER = '''\
/-- `a[idx]` with an index ARRAY (fancy indexing): every index is resolved like a scalar index -/
def gather? (a idx : List Int) : Option (List Int) := idx.mapM (get1? a)
'''

PRELUDE_BOOLARR = '''\
/-- `np.ones(n, bool)`; `none` = negative `n` (`ValueError`) -/
def onesB? (n : Int) : Option (List Bool) := if n < 0 then none else some (List.replicate n.toNat true)

/-- checked `u[i]` / `u[i] = v` on a bool array -/
def getB? (u : List Bool) (i : Int) : Option Bool := (idx? u.length i).bind (u[·]?)
def setB? (u : List Bool) (i : Int) (v : Bool) : Option (List Bool) := (idx? u.length i).map fun k => u.set k v
'''

PRELUDE_DIV = '''\
/-- Python `a // b` (floor division); `none` = `ZeroDivisionError` -/
def pyFloorDiv (a b : Int) : Option Int := if b = 0 then none else some (a.fdiv b)

/-- Python `a % b` (sign of the divisor); `none` = `ZeroDivisionError` -/
def pyMod (a b : Int) : Option Int := if b = 0 then none else some (a.fmod b)
'''

BINOPS = {ast.Add: ("+", 65), ast.Sub: ("-", 65), ast.Mult: ("*", 70)}
DIVOPS = {ast.FloorDiv: "pyFloorDiv", ast.Mod: "pyMod"}
CMPOPS = {ast.Lt: "<", ast.LtE: "≤", ast.Gt: ">", ast.GtE: "≥", ast.Eq: "=", ast.NotEq: "≠"}


def lean_ident(py: str) -> str:
    if py in RESERVED:
        raise Untranslatable(f"identifier `{py}` collides with a name of the generated prelude")
    return f"«{py}»" if py in LEAN_KEYWORDS else py


def _is_name(node, name: str) -> bool:
    return isinstance(node, ast.Name) and node.id == name


class Fn:
    """Translator state for one function."""

    def __init__(self, fn: ast.FunctionDef, rel: str, consts=None, result_arrays: bool = False) -> None:
        self.fn, self.rel = fn, rel
        self.result_arrays = result_arrays          # the written arrays are part of the result
        self.uses_sliceassign = False
        self.uses_fuel = any(isinstance(n, ast.While) for n in ast.walk(fn))
        self.uses_argsort = any(self.is_argsort(n) for n in ast.walk(fn))
        self.uses_boolarr = False
        self.uses_gather = False
        self.consts = consts or (lambda name: None)   # module-level integer constants (name -> int | None)
        self.used_consts: dict[str, int] = {}
        self.uses_slice = False
        self.arrays: dict[str, int | None] = {}     # array parameter -> number of dimensions (inferred from use)
        self.ints: list[str] = []                   # int parameters
        self.shape_used: set[str] = set()
        self.scopes: list[dict[str, str]] = []      # name -> kind: "param" | "loop" | "let" | "mut"
        self.assign_count: dict[str, int] = {}
        self.loop_depth = 0
        self.lines: list[str] = []
        self.mutated: list[str] = []                # array parameters written by the function (procedure), in order
        self.procedure = False                      # `-> None`: the result is the final content of the written arrays
        self.uses_div = False
        self.in_if = 0
        self.uses_col = False
        self.types: dict[str, str] = {}             # local name -> "Int" | "Bool" | "Arr1"

    @staticmethod
    def is_argsort(n) -> bool:
        return (isinstance(n, ast.Call) and isinstance(n.func, ast.Attribute) and n.func.attr == "argsort"
                and isinstance(n.func.value, ast.Name) and n.func.value.id in ("np", "numpy")
                and len(n.args) == 1 and not n.keywords and isinstance(n.args[0], ast.Name))

    def bad(self, node, why: str):
        raise Untranslatable(f"{self.rel}:{self.fn.name}: line {getattr(node, 'lineno', '?')}: {why}")

    # ------------------------------------------------------------------ signature and array dimensions
    def signature(self) -> None:
        a = self.fn.args
        if a.vararg or a.kwarg or a.kwonlyargs or a.posonlyargs or a.defaults or a.kw_defaults:
            self.bad(self.fn, "only plain positional parameters without defaults are supported")
        for p in a.args:
            ann = p.annotation
            if ann is None:
                self.bad(p, f"parameter {p.arg} has no annotation")
            txt = ast.unparse(ann)
            if txt in ("np.ndarray", "numpy.ndarray", "ndarray"):
                self.arrays[p.arg] = None
            elif txt == "int":
                self.ints.append(p.arg)
            else:
                self.bad(p, f"parameter {p.arg}: unsupported annotation {txt}")
        ret = None if self.fn.returns is None else ast.unparse(self.fn.returns)
        if ret == "None":
            self.procedure = True
        elif ret != "int":
            self.bad(self.fn, f"unsupported return annotation {ret} (expected `int` or `None`)")

        def dim(name: str, d: int, node) -> None:
            if self.arrays[name] not in (None, d):
                self.bad(node, f"array {name} is used both as {self.arrays[name]}-D and as {d}-D")
            self.arrays[name] = d

        for node in ast.walk(self.fn):
            if isinstance(node, ast.Subscript) and isinstance(node.value, ast.Name) and node.value.id in self.arrays:
                if isinstance(node.slice, ast.Tuple):
                    if len(node.slice.elts) != 2:
                        self.bad(node, "only 1-D and 2-D indexing is supported")
                    dim(node.value.id, 2, node)
                elif isinstance(node.slice, ast.Slice):
                    dim(node.value.id, 1, node)     # only `a[lo:hi].min()/.max()` is accepted (checked in `expr`)
                else:
                    dim(node.value.id, 1, node)
            elif self.is_argsort(node) and node.args[0].id in self.arrays:
                dim(node.args[0].id, 1, node)
            elif isinstance(node, ast.For):
                it = node.iter
                if isinstance(it, ast.Name) and it.id in self.arrays:
                    dim(it.id, 1, node)
                elif (isinstance(it, ast.Call) and _is_name(it.func, "enumerate") and len(it.args) == 1
                      and isinstance(it.args[0], ast.Name) and it.args[0].id in self.arrays):
                    dim(it.args[0].id, 1, node)
            elif (isinstance(node, ast.Assign) and isinstance(node.value, ast.Attribute) and node.value.attr == "shape"
                  and isinstance(node.value.value, ast.Name) and node.value.value.id in self.arrays
                  and len(node.targets) == 1 and isinstance(node.targets[0], ast.Tuple)
                  and len(node.targets[0].elts) == 2):
                dim(node.value.value.id, 2, node)
                self.shape_used.add(node.value.value.id)
            if isinstance(node, (ast.Assign, ast.AugAssign)):
                for t in (node.targets if isinstance(node, ast.Assign) else [node.target]):
                    if isinstance(t, ast.Subscript) and isinstance(t.value, ast.Name) and t.value.id in self.arrays \
                            and t.value.id not in self.mutated:
                        self.mutated.append(t.value.id)
            if isinstance(node, ast.Expr) and isinstance(node.value, ast.Call) \
                    and isinstance(node.value.func, ast.Attribute) and node.value.func.attr == "fill" \
                    and isinstance(node.value.func.value, ast.Name) and node.value.func.value.id in self.arrays:
                arr = node.value.func.value.id
                if arr not in self.mutated:
                    self.mutated.append(arr)
            if isinstance(node, (ast.Assign, ast.AnnAssign, ast.AugAssign)):
                for t in (node.targets if isinstance(node, ast.Assign) else [node.target]):
                    for n in ([t] if isinstance(t, ast.Name) else t.elts if isinstance(t, ast.Tuple) else []):
                        if isinstance(n, ast.Name):
                            self.assign_count[n.id] = self.assign_count.get(n.id, 0) + 1
        for name, d in self.arrays.items():
            if d is None:
                self.bad(self.fn, f"the number of dimensions of array {name} cannot be inferred (it is never indexed)")
        self.mutated = [p.arg for p in self.fn.args.args if p.arg in self.mutated]      # parameter order
        if self.procedure and not self.mutated:
            self.bad(self.fn, "a `-> None` function that writes into no array parameter has no result")
        for node in ast.walk(self.fn):
            if isinstance(node, ast.For):
                it = node.iter
                src = it if isinstance(it, ast.Name) else (it.args[0] if isinstance(it, ast.Call) and it.args else None)
                if isinstance(src, ast.Name) and src.id in self.mutated:
                    self.bad(node, f"iteration over array {src.id}, which the function writes into, is not supported")

    # ------------------------------------------------------------------ scopes
    def lookup(self, name: str) -> str | None:
        for sc in reversed(self.scopes):
            if name in sc:
                return sc[name]
        return None

    def read(self, node: ast.Name) -> str:
        kind = self.lookup(node.id)
        if node.id in self.arrays:
            self.bad(node, f"array {node.id} is used as a value")
        if kind is None and node.id not in self.assign_count and node.id not in self.types:
            v = self.consts(node.id)
            if v is not None:
                self.used_consts[node.id] = v
                return lean_ident(node.id)
        if kind is None:
            self.bad(node, f"name {node.id} is read outside the block of its first assignment (or is not a local or "
                           f"a module-level integer constant)")
        if kind == "pending":
            self.bad(node, f"name {node.id} is read in a branch before the branch has assigned it")
        if kind in ("localarray", "localarrayB"):
            self.bad(node, f"array {node.id} is used as a value")
        if self.types.get(node.id) == "Bool":
            self.bad(node, f"bool {node.id} is used as an integer")
        return lean_ident(node.id)

    # ------------------------------------------------------------------ expressions (all of type Int)
    def index(self, arr: str, node, axis: int) -> str:
        """An index expression; a literal negative index is written out as `len - k` (first axis only)."""
        k = None
        if isinstance(node, ast.UnaryOp) and isinstance(node.op, ast.USub) and isinstance(node.operand, ast.Constant) \
                and type(node.operand.value) is int:
            k = node.operand.value
        elif isinstance(node, ast.Constant) and type(node.value) is int and node.value < 0:
            k = -node.value
        if k is not None and k > 0:
            if axis != 0:
                self.bad(node, "a literal negative index is supported on the first axis only")
            return f"(↑{lean_ident(arr)}.length - {k})"
        return self.expr(node, 100)

    def expr(self, node, prec: int = 0) -> str:
        """Lean text of an Int expression; `prec` = binding power required by the context."""
        if isinstance(node, ast.Constant):
            if type(node.value) is not int:
                self.bad(node, f"only integer literals are supported, not {node.value!r}")
            return str(node.value) if node.value >= 0 else f"({node.value})"
        if isinstance(node, ast.Name):
            return self.read(node)
        if isinstance(node, ast.BinOp) and type(node.op) in DIVOPS and isinstance(node.right, ast.Constant) \
                and type(node.right.value) is int and node.right.value != 0:
            fn = "Int.fdiv" if isinstance(node.op, ast.FloorDiv) else "Int.fmod"     # total: the divisor is a non-zero literal
            return f"({fn} {self.expr(node.left, 100)} {self.expr(node.right, 100)})"
        if isinstance(node, ast.BinOp) and type(node.op) in DIVOPS:
            self.uses_div = True
            return f"(← {DIVOPS[type(node.op)]} {self.expr(node.left, 100)} {self.expr(node.right, 100)})"
        if isinstance(node, ast.BinOp):
            if type(node.op) not in BINOPS:
                self.bad(node, f"operator {type(node.op).__name__} is not supported")
            sym, p = BINOPS[type(node.op)]
            s = f"{self.expr(node.left, p)} {sym} {self.expr(node.right, p + 1)}"
            return f"({s})" if p < prec else s
        if isinstance(node, ast.UnaryOp):
            if isinstance(node.op, ast.UAdd):
                return self.expr(node.operand, prec)
            if isinstance(node.op, ast.USub):
                return f"(-{self.expr(node.operand, 100)})"
            self.bad(node, f"unary operator {type(node.op).__name__} is not an integer expression")
        if isinstance(node, ast.Subscript):
            if isinstance(node.value, ast.Name) and self.lookup(node.value.id) == "localarrayB":
                self.bad(node, f"an element of the bool array {node.value.id} is used as an integer")
            if isinstance(node.value, ast.Name) and self.lookup(node.value.id) == "localarray":
                if isinstance(node.slice, (ast.Tuple, ast.Slice)):
                    self.bad(node, f"{node.value.id} is a 1-D array")
                arr = node.value.id
                return f"(← get1? {lean_ident(arr)} {self.index(arr, node.slice, 0)})"
            if not (isinstance(node.value, ast.Name) and node.value.id in self.arrays):
                self.bad(node, "only parameters of type ndarray can be indexed")
            arr = node.value.id
            if self.lookup(arr) not in ("param", "array"):
                self.bad(node, f"array name {arr} is shadowed")
            if isinstance(node.slice, ast.Slice):
                self.bad(node, "a slice is only supported as `a[lo:hi].min()` / `.max()`")
            if isinstance(node.slice, ast.Tuple):
                i, j = node.slice.elts
                return f"(← get2? {lean_ident(arr)} {self.index(arr, i, 0)} {self.index(arr, j, 1)})"
            return f"(← get1? {lean_ident(arr)} {self.index(arr, node.slice, 0)})"
        if isinstance(node, ast.Call):
            if _is_name(node.func, "int") and len(node.args) == 1 and not node.keywords:
                return self.expr(node.args[0], prec)     # int(e) of an integer
            if _is_name(node.func, "len") and len(node.args) == 1 and not node.keywords \
                    and isinstance(node.args[0], ast.Name) and self.is_array(node.args[0].id):
                return f"({lean_ident(node.args[0].id)}.length : Int)"
            if isinstance(node.func, ast.Name) and node.func.id in ("max", "min") and len(node.args) == 2 \
                    and not node.keywords:
                s_ = f"{node.func.id} {self.expr(node.args[0], 100)} {self.expr(node.args[1], 100)}"
                return f"({s_})"
            if (isinstance(node.func, ast.Attribute) and node.func.attr in ("min", "max") and not node.args
                    and not node.keywords and isinstance(node.func.value, ast.Subscript)
                    and isinstance(node.func.value.slice, ast.Slice) and isinstance(node.func.value.value, ast.Name)):
                sub = node.func.value
                arr = sub.value.id
                if not self.is_array(arr) or self.array_dim(arr) != 1:
                    self.bad(node, f"`{arr}[lo:hi].{node.func.attr}()` needs a 1-D array")
                if sub.slice.step is not None:
                    self.bad(node, "a slice step is not supported")
                lo = "0" if sub.slice.lower is None else self.expr(sub.slice.lower, 100)
                hi = f"({lean_ident(arr)}.length : Int)" if sub.slice.upper is None else self.expr(sub.slice.upper, 100)
                self.uses_slice = True
                fn_ = "sliceMin?" if node.func.attr == "min" else "sliceMax?"
                return f"(← {fn_} {lean_ident(arr)} {lo} {hi})"
            if _is_name(node.func, "abs") and len(node.args) == 1 and not node.keywords:
                return f"(({self.expr(node.args[0], 0)}).natAbs : Int)"
            self.bad(node, f"call of {ast.unparse(node.func)} is not supported")
        if isinstance(node, ast.IfExp):
            if self.partial(node.body) or self.partial(node.orelse):
                self.bad(node, "an array read or a non-literal division inside a conditional expression is not supported "
                               "(Lean would evaluate it before the condition)")
            return f"(if {self.cond(node.test)} then {self.expr(node.body, 0)} else {self.expr(node.orelse, 0)})"
        self.bad(node, f"expression {type(node).__name__} is not supported")

    def is_array(self, name: str) -> bool:
        return (name in self.arrays and self.lookup(name) in ("param", "array")) \
            or self.lookup(name) in ("localarray", "localarrayB")

    def array_dim(self, name: str) -> int:
        return 1 if self.lookup(name) in ("localarray", "localarrayB") else self.arrays[name]

    @staticmethod
    def partial(node) -> bool:
        """does evaluating the expression involve an operation that can fail (array read, `//`/`%` by a non-literal)?"""
        for n in ast.walk(node):
            if isinstance(n, ast.Subscript):
                return True
            if isinstance(n, ast.BinOp) and type(n.op) in DIVOPS and not (
                    isinstance(n.right, ast.Constant) and type(n.right.value) is int and n.right.value != 0):
                return True
        return False

    @staticmethod
    def reads_array(node) -> bool:
        """does evaluating the expression involve a partial operation (array read, `//`, `%`)?"""
        return Fn.partial(node)

    def cond(self, node, prec: int = 0) -> str:
        if isinstance(node, ast.Compare):
            if len(node.ops) != 1 or type(node.ops[0]) not in CMPOPS:
                self.bad(node, "only single comparisons < <= > >= == != are supported")
            s = f"{self.expr(node.left, 51)} {CMPOPS[type(node.ops[0])]} {self.expr(node.comparators[0], 51)}"
            return f"({s})" if prec > 50 else s
        if isinstance(node, ast.BoolOp):
            sym, p = ("∧", 35) if isinstance(node.op, ast.And) else ("∨", 30)
            for v in node.values[1:]:
                if self.reads_array(v):
                    self.bad(v, "an array read or a division in the right operand of and/or (short-circuit) is not supported")
            s = f" {sym} ".join(self.cond(v, p + 1) for v in node.values)
            return f"({s})" if p < prec else s
        if isinstance(node, ast.UnaryOp) and isinstance(node.op, ast.Not):
            return f"¬ {self.cond(node.operand, 51)}"
        if isinstance(node, ast.Subscript) and isinstance(node.value, ast.Name) \
                and self.lookup(node.value.id) == "localarrayB":
            if isinstance(node.slice, (ast.Tuple, ast.Slice)):
                self.bad(node, f"{node.value.id} is a 1-D array")
            s = f"(← getB? {lean_ident(node.value.id)} {self.index(node.value.id, node.slice, 0)}) = true"
            return f"({s})" if prec > 50 else s
        if isinstance(node, ast.Name) and self.types.get(node.id) == "Bool" and self.lookup(node.id) in ("let", "mut"):
            s = f"{lean_ident(node.id)} = true"
            return f"({s})" if prec > 50 else s
        self.bad(node, f"condition {type(node).__name__} is not a comparison or a bool local")

    # ------------------------------------------------------------------ statements
    def emit(self, ind: int, text: str) -> None:
        self.lines.append("  " * ind + text)

    def declare_or_assign(self, node, name: str, rhs: str, ind: int, ty: str = "Int") -> None:
        kind = self.lookup(name)
        if name in self.arrays or kind in ("param", "loop", "localarray", "array"):
            self.bad(node, f"assignment to {kind or 'array'} {name}")
        if kind is None:
            mut = self.assign_count.get(name, 0) > 1
            self.scopes[-1][name] = "mut" if mut else "let"
            self.types[name] = ty
            self.emit(ind, f"let {'mut ' if mut else ''}{lean_ident(name)} : {ty} := {rhs}")
        else:
            if kind not in ("mut", "pending"):
                self.bad(node, f"internal: {name} was classified immutable but is assigned again")
            if self.types.get(name) != ty:
                self.bad(node, f"{name} is a {self.types.get(name)} but is assigned a {ty}")
            if kind == "pending":
                self.scopes[-1][name] = "mut"       # from here on this branch may read it
            self.emit(ind, f"{lean_ident(name)} := {rhs}")

    @staticmethod
    def is_bool_const(node) -> bool:
        return isinstance(node, ast.Constant) and type(node.value) is bool

    def value_type(self, node) -> str:
        """"Bool" for `True`/`False`/a bool local, "Int" otherwise"""
        if self.is_bool_const(node) or (isinstance(node, ast.Name) and self.types.get(node.id) == "Bool"
                                        and self.lookup(node.id) in ("let", "mut")):
            return "Bool"
        return "Int"

    def bool_expr(self, node) -> str:
        if self.is_bool_const(node):
            return "true" if node.value else "false"
        if isinstance(node, ast.Name) and self.value_type(node) == "Bool":
            return lean_ident(node.id)
        self.bad(node, "only True, False or a bool local can be assigned to a bool")

    def assign_value(self, st, name: str, value, ind: int, ann: str | None = None) -> None:
        ty = self.value_type(value)
        if ann == "bool" and ty != "Bool":
            self.bad(st, "only True, False or a bool local can be assigned to a bool")
        if ann is not None and ann != "bool" and ty == "Bool":
            self.bad(st, f"a bool is assigned to {name}: {ann}")
        if ty == "Bool":
            self.declare_or_assign(st, name, self.bool_expr(value), ind, "Bool")
        else:
            self.declare_or_assign(st, name, self.expr(value), ind)

    def int_annotation(self, node) -> str:
        txt = ast.unparse(node.annotation)
        if txt not in ("int", "Final[int]", "Final", "bool"):
            self.bad(node, f"unsupported annotation {txt} of a local")
        return txt

    def block(self, stmts, ind: int, *, top: bool = False) -> None:
        self.scopes.append({})
        if not stmts:
            self.bad(self.fn, "empty block")
        for k, st in enumerate(stmts):
            last = top and k == len(stmts) - 1
            if isinstance(st, ast.Return):
                if self.procedure:
                    self.bad(st, "`return` in a `-> None` function is not supported")
                if not last and not (k == len(stmts) - 1 and self.loop_depth == 0 and self.in_if > 0):
                    self.bad(st, "`return` is supported as the last statement of the function or of an `if` branch "
                                 "outside any loop only")
                if st.value is None:
                    self.bad(st, "`return` without a value")
                val = self.expr(st.value)
                if self.result_arrays and self.mutated:
                    val = "(" + ", ".join([lean_ident(a) for a in self.mutated] + [val]) + ")"
                self.emit(ind, f"return {val}")
            elif last and not self.procedure:
                self.bad(st, "the function must end with `return expr`")
            else:
                self.stmt(st, ind)
        if top and self.procedure:
            if isinstance(stmts[-1], ast.Return):
                self.bad(stmts[-1], "`return` in a `-> None` function is not supported")
            res = [lean_ident(a) for a in self.mutated]
            self.emit(ind, "return " + (res[0] if len(res) == 1 else "(" + ", ".join(res) + ")"))
        self.scopes.pop()

    def stmt(self, st, ind: int) -> None:
        if isinstance(st, (ast.AnnAssign, ast.Assign)) and self.local_array_stmt(st, ind):
            return
        if isinstance(st, ast.While):
            self.while_(st, ind)
        elif isinstance(st, ast.AnnAssign):
            if not isinstance(st.target, ast.Name) or st.value is None or not st.simple:
                self.bad(st, "only `name: int = expr` is supported")
            self.assign_value(st, st.target.id, st.value, ind, self.int_annotation(st))
        elif isinstance(st, ast.Assign):
            if len(st.targets) != 1:
                self.bad(st, "chained assignment is not supported")
            t = st.targets[0]
            if isinstance(t, ast.Name) and self.is_column(st.value):
                self.column(st, t.id, st.value, ind)
            elif isinstance(t, ast.Name):
                self.assign_value(st, t.id, st.value, ind)
            elif isinstance(t, ast.Subscript) and isinstance(t.slice, ast.Slice):
                self.slice_assign(st, t, ind)
            elif isinstance(t, ast.Subscript):
                self.store(st, t, ind)
            elif (isinstance(t, ast.Tuple) and len(t.elts) == 2 and all(isinstance(e, ast.Name) for e in t.elts)
                  and isinstance(st.value, ast.Attribute) and st.value.attr == "shape"
                  and isinstance(st.value.value, ast.Name) and st.value.value.id in self.shape_used):
                arr = st.value.value.id
                if t.elts[0].id == t.elts[1].id:
                    self.bad(st, "the two targets of the shape unpacking are the same name")
                for pos, e in enumerate(t.elts, 1):
                    self.declare_or_assign(st, e.id, f"{lean_ident(arr + '_shape')}.{pos}", ind)
            else:
                self.bad(st, "only `name = expr` and `a, b = arr.shape` are supported")
        elif isinstance(st, ast.AugAssign) and isinstance(st.target, ast.Subscript):
            if type(st.op) not in BINOPS:
                self.bad(st, "only `arr[ix] (+=|-=|*=) expr` is supported")
            self.store(st, st.target, ind, aug=BINOPS[type(st.op)])
        elif isinstance(st, ast.AugAssign):
            if not isinstance(st.target, ast.Name) or type(st.op) not in BINOPS:
                self.bad(st, "only `name (+=|-=|*=) expr` is supported")
            name = st.target.id
            if self.lookup(name) is None:
                self.bad(st, f"augmented assignment to {name} outside the block of its first assignment")
            sym, p = BINOPS[type(st.op)]
            cur = self.read(st.target)
            self.declare_or_assign(st, name, f"{cur} {sym} {self.expr(st.value, p + 1)}", ind)
        elif isinstance(st, ast.For):
            self.for_(st, ind)
        elif isinstance(st, ast.If):
            self.if_(st, ind)
        elif isinstance(st, ast.Continue):
            if self.loop_depth == 0:
                self.bad(st, "`continue` outside a loop")
            self.emit(ind, "continue")
        elif isinstance(st, ast.Break):
            if self.loop_depth == 0:
                self.bad(st, "`break` outside a loop")
            self.emit(ind, "break")
        elif (isinstance(st, ast.Expr) and isinstance(st.value, ast.Call) and isinstance(st.value.func, ast.Attribute)
              and st.value.func.attr == "fill" and isinstance(st.value.func.value, ast.Name)
              and st.value.func.value.id in self.mutated):
            arr = st.value.func.value.id
            if len(st.value.args) != 1 or st.value.keywords:
                self.bad(st, "`arr.fill(v)` takes one argument")
            if self.lookup(arr) != "array":
                self.bad(st, f"array name {arr} is shadowed")
            a = lean_ident(arr)
            self.emit(ind, f"{a} := fill{self.arrays[arr]} {a} {self.expr(st.value.args[0], 100)}")
        elif isinstance(st, ast.Expr) and isinstance(st.value, ast.Constant) and isinstance(st.value.value, str):
            self.bad(st, "string expression statement (a docstring is accepted as the first statement only)")
        else:
            self.bad(st, f"statement {type(st).__name__} is not supported")

    def local_array_stmt(self, st, ind: int) -> bool:
        """`x = b[np.argsort(a)]`, `u = np.ones(n, DEFAULT_BOOL)`, `u[i] = True/False`; False = not one of these"""
        if isinstance(st, ast.AnnAssign):
            tgt, val = st.target, st.value
            if val is None:
                return False
            ann = ast.unparse(st.annotation)
        else:
            if len(st.targets) != 1:
                return False
            tgt, val, ann = st.targets[0], st.value, None
        # store into a local bool array
        if isinstance(tgt, ast.Subscript) and isinstance(tgt.value, ast.Name) and self.lookup(tgt.value.id) == "localarrayB":
            if isinstance(tgt.slice, (ast.Tuple, ast.Slice)) or not self.is_bool_const(val):
                self.bad(st, "only `u[i] = True | False` is supported on a bool array")
            u = lean_ident(tgt.value.id)
            self.emit(ind, f"{u} := (← setB? {u} {self.index(tgt.value.id, tgt.slice, 0)} "
                           f"{'true' if val.value else 'false'})")
            return True
        if not isinstance(tgt, ast.Name):
            return False
        gather = (isinstance(val, ast.Subscript) and isinstance(val.value, ast.Name) and self.is_argsort(val.slice))
        ones = (isinstance(val, ast.Call) and isinstance(val.func, ast.Attribute) and val.func.attr == "ones"
                and isinstance(val.func.value, ast.Name) and val.func.value.id in ("np", "numpy"))
        if not (gather or ones):
            if ann in ("np.ndarray", "numpy.ndarray", "ndarray"):
                self.bad(st, "a local array must be `b[np.argsort(a)]` or `np.ones(n, DEFAULT_BOOL)`")
            return False
        if ann not in (None, "np.ndarray", "numpy.ndarray", "ndarray"):
            self.bad(st, f"unsupported annotation {ann} of a local array")
        name = tgt.id
        if self.lookup(name) is not None or name in self.arrays or self.assign_count.get(name, 0) != 1:
            self.bad(st, f"the local array {name} must be a fresh name that is assigned once")
        if gather:
            b, a = val.value.id, val.slice.args[0].id
            for arr in (a, b):
                if not (arr in self.arrays and self.lookup(arr) == "param" and self.arrays[arr] == 1
                        and arr not in self.mutated):
                    self.bad(st, f"`b[np.argsort(a)]` needs 1-D array parameters that are never written ({arr})")
            self.uses_gather = True
            self.scopes[-1][name] = "localarray"
            self.types[name] = "Arr1"
            self.emit(ind, f"let {lean_ident(name)} : List Int := (← gather? {lean_ident(b)} (np_argsort {lean_ident(a)}))")
            return True
        if len(val.args) != 2 or val.keywords:
            self.bad(st, "only `np.ones(n, DEFAULT_BOOL)` is supported")
        dt = ast.unparse(val.args[1])
        if dt not in ("DEFAULT_BOOL", "bool", "np.bool_", "numpy.bool_"):
            self.bad(st, f"only a bool array is supported as a local `np.ones` array, not dtype {dt}")
        if self.partial(val.args[0]):
            self.bad(st, "an array read or a division in the size of `np.ones` is not supported")
        self.uses_boolarr = True
        self.scopes[-1][name] = "localarrayB"
        self.types[name] = "ArrB"
        self.emit(ind, f"let mut {lean_ident(name)} : List Bool := (← onesB? {self.expr(val.args[0], 100)})")
        return True

    def while_(self, st: ast.While, ind: int) -> None:
        """a loop by fuel: at most `fuel` iterations, then the condition must be false"""
        if st.orelse:
            self.bad(st, "`while … else` is not supported")
        self.emit(ind, "for _ in List.range fuel do  -- while (by fuel)")
        self.emit(ind + 1, f"if ¬ ({self.cond(st.test)}) then")
        self.emit(ind + 2, "break")
        self.loop_depth += 1
        self.block(st.body, ind + 1)
        self.loop_depth -= 1
        self.emit(ind, f"if {self.cond(st.test)} then")
        self.emit(ind + 1, "none  -- the fuel ran out before the loop ended")

    def is_column(self, v) -> bool:
        return (isinstance(v, ast.Subscript) and isinstance(v.slice, ast.Tuple) and len(v.slice.elts) == 2
                and isinstance(v.slice.elts[0], ast.Slice))

    def column(self, st, name: str, v: ast.Subscript, ind: int) -> None:
        """`col = a[:, j]`: a read-only column of a 2-D array parameter that the function never writes into"""
        sl = v.slice.elts[0]
        if sl.lower is not None or sl.upper is not None or sl.step is not None:
            self.bad(st, "only the full slice `a[:, j]` is supported")
        if not (isinstance(v.value, ast.Name) and v.value.id in self.arrays and self.arrays[v.value.id] == 2):
            self.bad(st, "`a[:, j]` needs a 2-D array parameter")
        arr = v.value.id
        if arr in self.mutated:
            self.bad(st, f"a column view of array {arr}, which the function writes into, is not supported")
        if self.lookup(arr) != "param":
            self.bad(st, f"array name {arr} is shadowed")
        if self.lookup(name) is not None or name in self.arrays or self.assign_count.get(name, 0) != 1:
            self.bad(st, f"the column variable {name} must be a fresh name that is assigned once")
        j = self.index(arr, v.slice.elts[1], 1)
        self.uses_col = True
        self.scopes[-1][name] = "localarray"
        self.types[name] = "Arr1"
        self.emit(ind, f"let {lean_ident(name)} : List Int := (← getCol? {lean_ident(arr)} {j})")

    def slice_parts(self, node, sl: ast.Slice, allowed_steps) -> tuple[str, str, int]:
        step = 1
        if sl.step is not None:
            k = sl.step
            if isinstance(k, ast.UnaryOp) and isinstance(k.op, ast.USub) and isinstance(k.operand, ast.Constant) \
                    and type(k.operand.value) is int:
                step = -k.operand.value
            elif isinstance(k, ast.Constant) and type(k.value) is int:
                step = k.value
            else:
                self.bad(node, "a slice step must be an integer literal")
        if step not in allowed_steps:
            self.bad(node, f"slice step {step} is not supported here (allowed: {sorted(allowed_steps)})")
        for b in (sl.lower, sl.upper):
            if b is not None and self.partial(b):
                self.bad(node, "an array read or a division inside a slice bound is not supported")
        lo = "none" if sl.lower is None else f"(some {self.expr(sl.lower, 100)})"
        hi = "none" if sl.upper is None else f"(some {self.expr(sl.upper, 100)})"
        return lo, hi, step

    def slice_assign(self, st, t: ast.Subscript, ind: int) -> None:
        """`a[lo:hi:1] = b[lo2:hi2:±1]` on 1-D integer arrays"""
        if not (isinstance(t.value, ast.Name) and t.value.id in self.mutated and self.arrays[t.value.id] == 1):
            self.bad(st, "a slice assignment needs a 1-D array parameter as its target")
        arr = t.value.id
        if self.lookup(arr) != "array":
            self.bad(st, f"array name {arr} is shadowed")
        v = st.value
        if not (isinstance(v, ast.Subscript) and isinstance(v.slice, ast.Slice) and isinstance(v.value, ast.Name)
                and self.is_array(v.value.id) and self.array_dim(v.value.id) == 1
                and self.types.get(v.value.id) != "ArrB"):
            self.bad(st, "the right-hand side of a slice assignment must be a slice of a 1-D integer array")
        lo, hi, _ = self.slice_parts(st, t.slice, {1})
        lo2, hi2, step2 = self.slice_parts(st, v.slice, {1, -1})
        self.uses_sliceassign = True
        a, b = lean_ident(arr), lean_ident(v.value.id)
        step_txt = str(step2) if step2 > 0 else f"({step2})"
        self.emit(ind, f"{a} := (← setSlice? {a} {lo} {hi} (getSlice {b} {lo2} {hi2} {step_txt}))")

    def store(self, st, t: ast.Subscript, ind: int, aug=None) -> None:
        if not (isinstance(t.value, ast.Name) and t.value.id in self.mutated):
            self.bad(st, "only array parameters can be written")
        arr = t.value.id
        if self.lookup(arr) != "array":
            self.bad(st, f"array name {arr} is shadowed")
        a = lean_ident(arr)
        if isinstance(t.slice, ast.Slice):
            self.bad(st, "slices are not supported")
        if isinstance(t.slice, ast.Tuple):
            if any(isinstance(e, ast.Slice) for e in t.slice.elts):
                self.bad(st, "slices are not supported")
            ix = [self.index(arr, e, k) for k, e in enumerate(t.slice.elts)]
            parts = list(t.slice.elts)
        else:
            ix = [self.index(arr, t.slice, 0)]
            parts = [t.slice]
        d = len(ix)
        if aug is None:
            rhs = self.expr(st.value, 100)      # Python evaluates the right-hand side first, then the subscript
        else:
            # `a[ix] op= e`: the subscript is evaluated once in Python; it is written twice here, so it must be total
            if any(self.partial(e) for e in parts):
                self.bad(st, "an array read or a division inside the subscript of an augmented assignment is not supported")
            sym, p = aug
            rhs = f"((← get{d}? {a} {' '.join(ix)}) {sym} {self.expr(st.value, p + 1)})"
        self.emit(ind, f"{a} := (← set{d}? {a} {' '.join(ix)} {rhs})")

    def for_(self, st: ast.For, ind: int) -> None:
        if st.orelse:
            self.bad(st, "`for … else` is not supported")
        it = st.iter
        loopvars: list[str] = []
        def is_arr1(n) -> bool:
            return isinstance(n, ast.Name) and ((n.id in self.arrays and self.lookup(n.id) == "param")
                                                or self.lookup(n.id) == "localarray")
        if isinstance(it, ast.Name) and (it.id in self.arrays or self.lookup(it.id) == "localarray"):
            if not isinstance(st.target, ast.Name):
                self.bad(st, "`for v in arr` needs a single loop variable")
            if not is_arr1(it):
                self.bad(st, f"array name {it.id} is shadowed")
            loopvars = [st.target.id]
            head = f"for {lean_ident(st.target.id)} in {lean_ident(it.id)} do"
        elif isinstance(it, ast.Call) and _is_name(it.func, "enumerate"):
            if len(it.args) != 1 or it.keywords or not (isinstance(it.args[0], ast.Name) and (
                    it.args[0].id in self.arrays or self.lookup(it.args[0].id) == "localarray")):
                self.bad(st, "only `enumerate(arr)` of a 1-D array is supported")
            t = st.target
            if not (isinstance(t, ast.Tuple) and len(t.elts) == 2 and all(isinstance(e, ast.Name) for e in t.elts)):
                self.bad(st, "`for i, v in enumerate(arr)` needs two loop variables")
            if not is_arr1(it.args[0]):
                self.bad(st, f"array name {it.args[0].id} is shadowed")
            loopvars = [t.elts[0].id, t.elts[1].id]
            head = (f"for ({lean_ident(loopvars[0])}, {lean_ident(loopvars[1])}) in "
                    f"pyEnumerate {lean_ident(it.args[0].id)} do")
        elif isinstance(it, ast.Call) and _is_name(it.func, "range"):
            if it.keywords or len(it.args) not in (1, 2):
                self.bad(st, "only `range(n)` and `range(a, b)` are supported")
            if not isinstance(st.target, ast.Name):
                self.bad(st, "`for v in range(…)` needs a single loop variable")
            if any(self.reads_array(a) for a in it.args):
                self.bad(st, "an array read in a range bound is not supported")
            lo = "0" if len(it.args) == 1 else self.expr(it.args[0], 100)
            hi = self.expr(it.args[-1], 100)
            loopvars = [st.target.id]
            head = f"for {lean_ident(st.target.id)} in pyRange {lo} {hi} do"
        else:
            self.bad(st, f"loop over {ast.unparse(it)} is not supported")
        if len(set(loopvars)) != len(loopvars):
            self.bad(st, "the loop variables must be distinct")
        for v in loopvars:
            if self.lookup(v) is not None or v in self.arrays:
                self.bad(st, f"loop variable {v} shadows another name")
        self.emit(ind, head)
        for v in loopvars:
            self.types[v] = "Int"
        self.scopes.append({v: "loop" for v in loopvars})
        self.loop_depth += 1
        self.block(st.body, ind + 1)
        self.loop_depth -= 1
        self.scopes.pop()

    def if_(self, st: ast.If, ind: int, kw: str = "if") -> None:
        t = st.test
        if (isinstance(t, ast.BoolOp) and isinstance(t.op, ast.Or) and any(self.reads_array(v) for v in t.values[1:])
                and kw == "if" and not st.orelse and isinstance(st.body[-1], (ast.Continue, ast.Break))):
            # `if c1 or c2: …; continue`  ==  `if c1: …; continue` followed by `if c2: …; continue` (c2 is only
            # evaluated when c1 is false: the short-circuit is kept, nothing is hoisted)
            for v in t.values:
                self.emit(ind, f"if {self.cond(v)} then")
                self.block(st.body, ind + 1)
            return
        hoisted: list[str] = []
        if kw == "if":
            hoisted = self.hoist(st, ind)
        self.emit(ind, f"{kw} {self.cond(st.test)} then")
        self.in_if += 1
        self.block(st.body, ind + 1)
        self.in_if -= 1
        self.if_tail(st, ind)
        for name in hoisted:        # every branch has assigned it
            self.scopes[-1][name] = "mut"

    def branches(self, st: ast.If):
        """the blocks of an if/elif/else chain, or None if it has no final else"""
        out = [st.body]
        while True:
            if not st.orelse:
                return None
            if len(st.orelse) == 1 and isinstance(st.orelse[0], ast.If):
                st = st.orelse[0]
                out.append(st.body)
            else:
                out.append(st.orelse)
                return out

    def hoist(self, st: ast.If, ind: int) -> list[str]:
        """declare the names that are not yet declared and are assigned at the top level of every branch"""
        brs = self.branches(st)
        if brs is None:
            return []
        per_branch = []
        for b in brs:
            names: dict[str, list] = {}
            for s_ in b:
                if isinstance(s_, ast.Assign) and len(s_.targets) == 1 and isinstance(s_.targets[0], ast.Name):
                    names.setdefault(s_.targets[0].id, []).append(s_.value)
                elif isinstance(s_, ast.AnnAssign) and isinstance(s_.target, ast.Name) and s_.value is not None:
                    names.setdefault(s_.target.id, []).append(s_.value)
            per_branch.append(names)
        out = []
        for name in per_branch[0]:
            if all(name in nb for nb in per_branch) and self.lookup(name) is None and name not in self.arrays:
                vals = [v for nb in per_branch for v in nb[name]]
                ty = "Bool" if all(self.is_bool_const(v) for v in vals) else "Int"
                self.types[name] = ty
                self.scopes[-1][name] = "pending"
                dflt = "false" if ty == "Bool" else "0"
                self.emit(ind, f"let mut {lean_ident(name)} : {ty} := {dflt}  -- assigned in every branch below; this value is never read")
                out.append(name)
        return out

    def if_tail(self, st: ast.If, ind: int) -> None:
        if st.orelse:
            nxt = st.orelse[0]
            if len(st.orelse) == 1 and isinstance(nxt, ast.If) and not self.reads_array(nxt.test):
                self.if_(nxt, ind, "else if")       # elif with a pure condition
            else:
                self.emit(ind, "else")              # (an elif that reads an array is nested: no hoisting of the read)
                self.in_if += 1
                self.block(st.orelse, ind + 1)
                self.in_if -= 1

    # ------------------------------------------------------------------ the function
    def translate(self) -> str:
        self.signature()
        body = list(self.fn.body)
        if body and isinstance(body[0], ast.Expr) and isinstance(body[0].value, ast.Constant) \
                and isinstance(body[0].value.value, str):
            body = body[1:]
        params = []
        top: dict[str, str] = {}
        for p in self.fn.args.args:
            if p.arg in top:
                self.bad(p, "duplicate parameter")
            top[p.arg] = "param"
            if p.arg in self.arrays:
                ty = "List Int" if self.arrays[p.arg] == 1 else "List (List Int)"
                params.append(f"({lean_ident(p.arg)} : {ty})")
                if p.arg in self.shape_used:
                    sh = p.arg + "_shape"
                    if sh in top or any(q.arg == sh for q in self.fn.args.args):
                        self.bad(p, f"name {sh} is needed for the shape parameter")
                    top[sh] = "param"
                    params.append(f"({lean_ident(sh)} : Int × Int)")
            else:
                params.append(f"({lean_ident(p.arg)} : Int)")
        extra = []
        if self.uses_argsort:
            extra.append("(np_argsort : List Int → List Int)")
        if self.uses_fuel:
            extra.append("(fuel : Nat)")
        for nm in ("np_argsort", "fuel"):
            if nm in top or nm in self.assign_count:
                self.bad(self.fn, f"the name {nm} is needed for a parameter of the generated function")
        params = extra + params
        self.scopes = [top]
        if self.procedure:
            tys = ["List Int" if self.arrays[a] == 1 else "List (List Int)" for a in self.mutated]
            rty = "(" + " × ".join(tys) + ")"
        elif self.result_arrays and self.mutated:
            tys = ["List Int" if self.arrays[a] == 1 else "List (List Int)" for a in self.mutated]
            rty = "(" + " × ".join(tys + ["Int"]) + ")"
        else:
            rty = "Int"
        self.lines = [f"def {lean_ident(self.fn.name)} {' '.join(params)} : Option {rty} := do"]
        for a in self.mutated:      # the array the function writes into: a mutable copy of the parameter
            top[a] = "array"
            self.lines.append(f"  let mut {lean_ident(a)} := {lean_ident(a)}")
        self.block(body, 1, top=True)
        return "\n".join(self.lines)


def source_without_docstring(fn: ast.FunctionDef, src: str) -> str:
    lines = src.splitlines()
    first = fn.lineno - 1
    if fn.decorator_list:
        first = min(d.lineno for d in fn.decorator_list) - 1
    body = fn.body
    skip: set[int] = set()
    if body and isinstance(body[0], ast.Expr) and isinstance(body[0].value, ast.Constant) \
            and isinstance(body[0].value.value, str):
        skip = set(range(body[0].lineno - 1, body[0].end_lineno))
    out = [lines[i].rstrip() for i in range(first, fn.end_lineno) if i not in skip and lines[i].strip()]
    return "\n".join(out).replace("/-", "/ -").replace("-/", "- /")


def _int_consts(tree: ast.Module) -> dict[str, int]:
    """top-level `NAME = INT` / `NAME: Final[int] = INT` of a module (a name bound more than once is dropped)"""
    out: dict[str, int] = {}
    seen: dict[str, int] = {}
    for st in tree.body:
        targets = []
        if isinstance(st, ast.Assign):
            targets = [t for t in st.targets if isinstance(t, ast.Name)]
            value = st.value
        elif isinstance(st, ast.AnnAssign) and isinstance(st.target, ast.Name) and st.value is not None:
            targets = [st.target]
            value = st.value
            if ast.unparse(st.annotation) not in ("int", "Final[int]", "Final"):
                targets = []
        for t in targets:
            seen[t.id] = seen.get(t.id, 0) + 1
            if isinstance(value, ast.Constant) and type(value.value) is int:
                out[t.id] = value.value
    return {k: v for k, v in out.items() if seen.get(k) == 1}


def module_consts(repo: Path, tree: ast.Module):
    """lookup of module-level integer constants: defined in the module itself or imported with `from M import NAME`"""
    own = _int_consts(tree)
    imports: dict[str, tuple[str, str]] = {}
    for st in tree.body:
        if isinstance(st, ast.ImportFrom) and st.module and st.level == 0:
            for a in st.names:
                imports[a.asname or a.name] = (st.module, a.name)

    def lookup(name: str):
        if name in own:
            return own[name]
        if name in imports:
            mod, orig = imports[name]
            base = Path(repo) / mod.replace(".", "/")
            for cand in (base.with_suffix(".py"), base / "__init__.py"):
                if cand.exists():
                    try:
                        return _int_consts(ast.parse(cand.read_text())).get(orig)
                    except SyntaxError:
                        return None
        return None
    return lookup


def translate_function(repo: Path, rel: str, fname: str, ns: str, result_arrays: bool = False) -> str:
    """The text of a generated file (namespace `Gen.<ns>`) for function `fname` of `repo/rel`."""
    path = Path(repo) / rel
    try:
        src = path.read_text()
        tree = ast.parse(src)
    except (OSError, SyntaxError) as e:
        raise Untranslatable(f"{rel}: cannot be read/parsed: {e!r}") from e
    fns = [n for n in tree.body if isinstance(n, ast.FunctionDef) and n.name == fname]
    if len(fns) != 1:
        raise Untranslatable(f"{rel}: expected exactly one top-level function {fname}, found {len(fns)}")
    fn = fns[0]
    tr = Fn(fn, rel, module_consts(repo, tree), result_arrays)
    code = tr.translate()
    prelude = (PRELUDE + ("\n" + PRELUDE_COL if tr.uses_col else "") + ("\n" + PRELUDE_STORE if tr.mutated else "")
               + ("\n" + PRELUDE_SLICE if tr.uses_slice else "")
               + ("\n" + PRELUDE_SLICEASSIGN if tr.uses_sliceassign else "")
               + ("\n" + PRELUDE_GATHER if tr.uses_gather else "")
               + ("\n" + PRELUDE_BOOLARR if tr.uses_boolarr else "")
               + ("\n" + PRELUDE_DIV if tr.uses_div else ""))
    consts = "".join(f"/-- module-level constant of the Python source -/\ndef {lean_ident(k)} : Int := {v}\n\n"
                     for k, v in tr.used_consts.items())
    return "\n".join([
        "/-!",
        "GENERATED by harness/translate/loop2lean.py from the working tree — do not edit.",
        f"Shallow embedding of `{rel}:{fname}` in the `Option` monad (`none` = an access outside an array);",
        "Python ints are unbounded `Int`, 1-D arrays `List Int`, 2-D arrays lists of rows, `a.shape` a parameter.",
        "",
        "```",
        source_without_docstring(fn, src),
        "```",
        "-/",
        f"namespace Gen.{ns}",
        "",
        prelude,
        consts + code,
        "",
        f"end Gen.{ns}",
        "",
    ])


def translate(repo: Path, key: str) -> str:
    """The text of `lean/Gen/<key>.lean` for the current source under `repo`."""
    rel, fname = KERNELS[key]
    return translate_function(repo, rel, fname, key, key in RESULT_ARRAYS)


def emit(repo: Path, lean_dir: Path, key: str) -> Path:
    """Regenerate `lean/Gen/<key>.lean`; the file is rewritten only if its text changed (no needless rebuild)."""
    text = translate(repo, key)
    out = Path(lean_dir) / "Gen" / f"{key}.lean"
    if not out.exists() or out.read_text() != text:
        out.write_text(text)
    return out


def emit_tour_length(repo: Path, lean_dir: Path) -> Path:
    return emit(repo, lean_dir, "TourLength")


def emit_qap_eval(repo: Path, lean_dir: Path) -> Path:
    return emit(repo, lean_dir, "QapEval")


def emit_plan_length(repo: Path, lean_dir: Path) -> Path:
    return emit(repo, lean_dir, "PlanLength")


def emit_map_games(repo: Path, lean_dir: Path) -> Path:
    return emit(repo, lean_dir, "MapGames")


def emit_count_errors(repo: Path, lean_dir: Path) -> Path:
    return emit(repo, lean_dir, "CountErrors")


def emit_swap_distance(repo: Path, lean_dir: Path) -> Path:
    return emit(repo, lean_dir, "SwapDistance")


def emit_rev_if_not_worse(repo: Path, lean_dir: Path) -> Path:
    return emit(repo, lean_dir, "RevIfNotWorse")


def emit_rev_if_h_not_worse(repo: Path, lean_dir: Path) -> Path:
    return emit(repo, lean_dir, "RevIfHNotWorse")


def emit_binobj(repo: Path, lean_dir: Path) -> dict[str, Exception | None]:
    """The four for-loop-only bin-packing objective kernels, each into its own file; per kernel `None` or the reason
    why it could not be translated (the other kernels are still regenerated)."""
    out: dict[str, Exception | None] = {}
    for key in BINOBJ_KEYS:
        try:
            emit(repo, lean_dir, key)
            out[key] = None
        except Exception as e:  # noqa: BLE001
            out[key] = e
    return out


if __name__ == "__main__":
    import sys
    repo_ = Path(sys.argv[1] if len(sys.argv) > 1 else "/repo")
    for key_ in (sys.argv[2:] or list(KERNELS)):
        print(translate(repo_, key_))
