"""loop2lean — translate small integer loop kernels of /repo to a SHALLOW Lean embedding (DESIGN.md section 10.1).

Re-run by the property's own check on every run (`harness/c05.py`, `c09.py`, `c08.py`): parses the CURRENT source under
`$VERIF_REPO` with `ast` and writes one Lean file per kernel

    tsp/tour_length.py   tour_length       -> lean/Gen/TourLength.lean   (namespace Gen.TourLength)
    qap/objective.py     _evaluate         -> lean/Gen/QapEval.lean      (namespace Gen.QapEval)
    ttp/plan_length.py   game_plan_length  -> lean/Gen/PlanLength.lean   (namespace Gen.PlanLength)
    ttp/game_encoding.py map_games         -> lean/Gen/MapGames.lean     (namespace Gen.MapGames)

The output is a Lean `def` in the `Option` monad written in `do` notation (`let mut`, `for … in … do`, `if`, `continue`
are native Lean), so it reads like the Python source.  `Props/C05Gen.lean`, `C09Gen.lean`, `C08Gen.lean`, `C15Gen.lean` prove that
the generated definition equals the hand-written model for ALL inputs; a change of the kernel changes the generated
text and the theorem is re-checked against it.

Semantics of the embedding
* every Python `int` (locals, parameters, array elements, loop counters) is an unbounded Lean `Int`
  (machine overflow is the subject of separate theorems about the hand-written models);
* a 1-D ndarray is a `List Int`, a 2-D ndarray a `List (List Int)` (list of rows) — the representation of the hand
  models; `a.shape` of a 2-D array is an explicit extra parameter `a_shape : Int × Int` (a list of rows does not know
  its width when there are no rows);
* every array read goes through a checked accessor (`get1?`, `get2?`): an index value `v < 0` wraps once (`v + len`,
  what numpy/numba do), anything still outside `[0, len)` yields `none` (= the access leaves the array; the compiled
  code has `boundscheck=False`, the model answers `OOB`).  A literal negative index `a[-k]` is written out as
  `len a - k`;
* `return int(e)` is `return e` (`int` of an integer);
* a function `-> None` that writes into array parameters (`a[i, j] = e`, `a.fill(e)`) is a procedure: the array is a
  `let mut` variable initialised with the parameter (its prior content is an input) and the generated function returns
  the final array; writes go through the checked `set1?`/`set2?` (same index rule as reads);
* `//` and `%` are Python's floor division and modulus (`Int.fdiv`, `Int.fmod`); a zero divisor yields `none`
  (the compiled code raises `ZeroDivisionError`).

Accepted grammar — everything else raises `Untranslatable` (never guessed):

    def   ::= def NAME(p: np.ndarray | int, …) -> int: [docstring] stmt* return
            | def NAME(p: np.ndarray | int, …) -> None: [docstring] stmt+      (procedure: must write into an array)
    stmt  ::= NAME [: int | Final[int]] = expr | NAME (+=|-=|*=) expr | NAME, NAME = ARR.shape
            | ARR[ix] = expr | ARR[ix, ix] = expr | ARR.fill(expr)           (procedures only)
            | for NAME in ARR: stmt+ | for NAME, NAME in enumerate(ARR): stmt+
            | for NAME in range(expr [, expr]): stmt+
            | if cond: stmt+ (elif cond: stmt+)* [else: stmt+] | continue | break
    return::= return expr            (last statement of the function only)
    expr  ::= INT | NAME | expr (+|-|*|//|%) expr | -expr | +expr | ARR[ix] | ARR[ix, ix] | int(expr) | (expr)
    ix    ::= expr | -INT            (literal negative index: first axis only)
    cond  ::= expr (<|<=|>|>=|==|!=) expr | cond and cond | cond or cond | not cond
              (the right operand of and/or must not read an array or divide: Lean would hoist the partial operation
              out of the short-circuit.  One exception, translated faithfully: `if c1 or c2 …: block` without `else`
              whose block ends in `continue`/`break` becomes `if c1 then block; if c2 then block; …`)

Scoping: a name is declared (`let` / `let mut`) by its first assignment in a block and lives to the end of that block —
Lean's rule.  A Python program that reads a name outside the block of its first assignment (or before it, or assigns a
loop variable / a parameter) is rejected, so that Lean's scoping and Python's function-wide scoping agree on every
accepted program.
"""
from __future__ import annotations

import ast
from pathlib import Path


class Untranslatable(Exception):
    """The construct is outside the accepted grammar."""


KERNELS = {
    "TourLength": ("moptipyapps/tsp/tour_length.py", "tour_length"),
    "QapEval": ("moptipyapps/qap/objective.py", "_evaluate"),
    "PlanLength": ("moptipyapps/ttp/plan_length.py", "game_plan_length"),
    "MapGames": ("moptipyapps/ttp/game_encoding.py", "map_games"),
}

# names of the prelude and of Lean itself that a Python identifier must not shadow
RESERVED = {"idx?", "get1?", "get2?", "set1?", "set2?", "fill1", "fill2", "pyFloorDiv", "pyMod", "pyRange", "pyEnumerate", "Int", "Nat", "List", "Option", "some",
            "none", "pure", "forIn", "ForInStep"}
LEAN_KEYWORDS = {
    "instance", "end", "at", "from", "fun", "do", "then", "else", "if", "let", "have", "show", "in", "with", "match",
    "def", "theorem", "lemma", "open", "namespace", "section", "variable", "universe", "import", "where", "deriving",
    "structure", "class", "inductive", "mutual", "private", "protected", "partial", "unsafe", "macro", "syntax",
    "notation", "infix", "infixl", "infixr", "prefix", "postfix", "by", "calc", "return", "for", "unless", "try",
    "catch", "finally", "break", "continue", "mut", "Type", "Sort", "Prop", "set_option", "attribute", "local",
    "scoped", "example", "abbrev", "opaque", "axiom", "noncomputable", "nomatch", "nofun", "exists", "forall", "using",
    "extends", "termination_by", "decreasing_by", "export", "elab", "initialize", "omit", "include", "public", "meta",
    "module", "all", "suffices", "obtain", "this", "fix", "hiding", "renaming", "instances", "mutable", "sorry",
    "admit", "extern", "macro_rules", "elab_rules", "declare_syntax_cat", "universes", "λ", "Π", "Σ",
}

PRELUDE = '''\
/-- an index VALUE: numpy/numba wrap a negative index once (`v + len`); anything still outside `[0, len)` is an
access outside the array (`none`) -/
def idx? (len : Nat) (v : Int) : Option Nat :=
  if v < 0 then (if 0 ≤ v + len then some (v + len).toNat else none)
  else if v < len then some v.toNat else none

/-- checked `a[i]` -/
def get1? (a : List Int) (i : Int) : Option Int := (idx? a.length i).bind (a[·]?)

/-- checked `a[i, j]` (list of rows) -/
def get2? (a : List (List Int)) (i j : Int) : Option Int :=
  (idx? a.length i).bind fun r => (a[r]?).bind fun row => (idx? row.length j).bind (row[·]?)

/-- `range(a, b)` -/
def pyRange (a b : Int) : List Int := (List.range (b - a).toNat).map fun (k : Nat) => a + (k : Int)

/-- `enumerate(a)`: (position, value), the position read as an `Int` -/
def pyEnumerate (a : List Int) : List (Int × Int) := a.zipIdx.map fun p => ((p.2 : Int), p.1)
'''

# emitted only into the files of kernels that use them (the text of the other generated files does not change)
PRELUDE_STORE = '''\
/-- checked `a[i] = v` -/
def set1? (a : List Int) (i : Int) (v : Int) : Option (List Int) := (idx? a.length i).map fun k => a.set k v

/-- checked `a[i, j] = v` (list of rows) -/
def set2? (a : List (List Int)) (i j : Int) (v : Int) : Option (List (List Int)) :=
  (idx? a.length i).bind fun r => (a[r]?).bind fun row => (idx? row.length j).map fun c => a.set r (row.set c v)

/-- `a.fill(v)` -/
def fill1 (a : List Int) (v : Int) : List Int := a.map fun _ => v
def fill2 (a : List (List Int)) (v : Int) : List (List Int) := a.map fun row => row.map fun _ => v
'''

PRELUDE_DIV = '''\
/-- Python `a // b` (floor division); `none` = `ZeroDivisionError` -/
def pyFloorDiv (a b : Int) : Option Int := if b = 0 then none else some (a.fdiv b)

/-- Python `a % b` (sign of the divisor); `none` = `ZeroDivisionError` -/
def pyMod (a b : Int) : Option Int := if b = 0 then none else some (a.fmod b)
'''

BINOPS = {ast.Add: ("+", 65), ast.Sub: ("-", 65), ast.Mult: ("*", 70)}
DIVOPS = {ast.FloorDiv: "pyFloorDiv", ast.Mod: "pyMod"}
CMPOPS = {ast.Lt: "<", ast.LtE: "≤", ast.Gt: ">", ast.GtE: "≥", ast.Eq: "=", ast.NotEq: "≠"}


def lean_ident(py: str) -> str:
    if py in RESERVED:
        raise Untranslatable(f"identifier `{py}` collides with a name of the generated prelude")
    return f"«{py}»" if py in LEAN_KEYWORDS else py


def _is_name(node, name: str) -> bool:
    return isinstance(node, ast.Name) and node.id == name


class Fn:
    """Translator state for one function."""

    def __init__(self, fn: ast.FunctionDef, rel: str) -> None:
        self.fn, self.rel = fn, rel
        self.arrays: dict[str, int | None] = {}     # array parameter -> number of dimensions (inferred from use)
        self.ints: list[str] = []                   # int parameters
        self.shape_used: set[str] = set()
        self.scopes: list[dict[str, str]] = []      # name -> kind: "param" | "loop" | "let" | "mut"
        self.assign_count: dict[str, int] = {}
        self.loop_depth = 0
        self.lines: list[str] = []
        self.mutated: list[str] = []                # array parameters written by the function (procedure), in order
        self.procedure = False                      # `-> None`: the result is the final content of the written arrays
        self.uses_div = False

    def bad(self, node, why: str):
        raise Untranslatable(f"{self.rel}:{self.fn.name}: line {getattr(node, 'lineno', '?')}: {why}")

    # ------------------------------------------------------------------ signature and array dimensions
    def signature(self) -> None:
        a = self.fn.args
        if a.vararg or a.kwarg or a.kwonlyargs or a.posonlyargs or a.defaults or a.kw_defaults:
            self.bad(self.fn, "only plain positional parameters without defaults are supported")
        for p in a.args:
            ann = p.annotation
            if ann is None:
                self.bad(p, f"parameter {p.arg} has no annotation")
            txt = ast.unparse(ann)
            if txt in ("np.ndarray", "numpy.ndarray", "ndarray"):
                self.arrays[p.arg] = None
            elif txt == "int":
                self.ints.append(p.arg)
            else:
                self.bad(p, f"parameter {p.arg}: unsupported annotation {txt}")
        ret = None if self.fn.returns is None else ast.unparse(self.fn.returns)
        if ret == "None":
            self.procedure = True
        elif ret != "int":
            self.bad(self.fn, f"unsupported return annotation {ret} (expected `int` or `None`)")

        def dim(name: str, d: int, node) -> None:
            if self.arrays[name] not in (None, d):
                self.bad(node, f"array {name} is used both as {self.arrays[name]}-D and as {d}-D")
            self.arrays[name] = d

        for node in ast.walk(self.fn):
            if isinstance(node, ast.Subscript) and isinstance(node.value, ast.Name) and node.value.id in self.arrays:
                if isinstance(node.slice, ast.Tuple):
                    if len(node.slice.elts) != 2:
                        self.bad(node, "only 1-D and 2-D indexing is supported")
                    dim(node.value.id, 2, node)
                elif isinstance(node.slice, ast.Slice):
                    self.bad(node, "slices are not supported")
                else:
                    dim(node.value.id, 1, node)
            elif isinstance(node, ast.For):
                it = node.iter
                if isinstance(it, ast.Name) and it.id in self.arrays:
                    dim(it.id, 1, node)
                elif (isinstance(it, ast.Call) and _is_name(it.func, "enumerate") and len(it.args) == 1
                      and isinstance(it.args[0], ast.Name) and it.args[0].id in self.arrays):
                    dim(it.args[0].id, 1, node)
            elif (isinstance(node, ast.Assign) and isinstance(node.value, ast.Attribute) and node.value.attr == "shape"
                  and isinstance(node.value.value, ast.Name) and node.value.value.id in self.arrays
                  and len(node.targets) == 1 and isinstance(node.targets[0], ast.Tuple)
                  and len(node.targets[0].elts) == 2):
                dim(node.value.value.id, 2, node)
                self.shape_used.add(node.value.value.id)
            if isinstance(node, ast.Assign):
                for t in node.targets:
                    if isinstance(t, ast.Subscript) and isinstance(t.value, ast.Name) and t.value.id in self.arrays \
                            and t.value.id not in self.mutated:
                        self.mutated.append(t.value.id)
            if isinstance(node, ast.Expr) and isinstance(node.value, ast.Call) \
                    and isinstance(node.value.func, ast.Attribute) and node.value.func.attr == "fill" \
                    and isinstance(node.value.func.value, ast.Name) and node.value.func.value.id in self.arrays:
                arr = node.value.func.value.id
                if arr not in self.mutated:
                    self.mutated.append(arr)
            if isinstance(node, (ast.Assign, ast.AnnAssign, ast.AugAssign)):
                for t in (node.targets if isinstance(node, ast.Assign) else [node.target]):
                    for n in ([t] if isinstance(t, ast.Name) else t.elts if isinstance(t, ast.Tuple) else []):
                        if isinstance(n, ast.Name):
                            self.assign_count[n.id] = self.assign_count.get(n.id, 0) + 1
        for name, d in self.arrays.items():
            if d is None:
                self.bad(self.fn, f"the number of dimensions of array {name} cannot be inferred (it is never indexed)")
        self.mutated = [p.arg for p in self.fn.args.args if p.arg in self.mutated]      # parameter order
        if self.mutated and not self.procedure:
            self.bad(self.fn, "a function that writes into an array parameter must be annotated `-> None`")
        if self.procedure and not self.mutated:
            self.bad(self.fn, "a `-> None` function that writes into no array parameter has no result")
        for node in ast.walk(self.fn):
            if isinstance(node, ast.For):
                it = node.iter
                src = it if isinstance(it, ast.Name) else (it.args[0] if isinstance(it, ast.Call) and it.args else None)
                if isinstance(src, ast.Name) and src.id in self.mutated:
                    self.bad(node, f"iteration over array {src.id}, which the function writes into, is not supported")

    # ------------------------------------------------------------------ scopes
    def lookup(self, name: str) -> str | None:
        for sc in reversed(self.scopes):
            if name in sc:
                return sc[name]
        return None

    def read(self, node: ast.Name) -> str:
        kind = self.lookup(node.id)
        if node.id in self.arrays:
            self.bad(node, f"array {node.id} is used as a value")
        if kind is None:
            self.bad(node, f"name {node.id} is read outside the block of its first assignment (or is not a local)")
        return lean_ident(node.id)

    # ------------------------------------------------------------------ expressions (all of type Int)
    def index(self, arr: str, node, axis: int) -> str:
        """An index expression; a literal negative index is written out as `len - k` (first axis only)."""
        k = None
        if isinstance(node, ast.UnaryOp) and isinstance(node.op, ast.USub) and isinstance(node.operand, ast.Constant) \
                and type(node.operand.value) is int:
            k = node.operand.value
        elif isinstance(node, ast.Constant) and type(node.value) is int and node.value < 0:
            k = -node.value
        if k is not None and k > 0:
            if axis != 0:
                self.bad(node, "a literal negative index is supported on the first axis only")
            return f"(↑{lean_ident(arr)}.length - {k})"
        return self.expr(node, 100)

    def expr(self, node, prec: int = 0) -> str:
        """Lean text of an Int expression; `prec` = binding power required by the context."""
        if isinstance(node, ast.Constant):
            if type(node.value) is not int:
                self.bad(node, f"only integer literals are supported, not {node.value!r}")
            return str(node.value) if node.value >= 0 else f"({node.value})"
        if isinstance(node, ast.Name):
            return self.read(node)
        if isinstance(node, ast.BinOp) and type(node.op) in DIVOPS:
            self.uses_div = True
            return f"(← {DIVOPS[type(node.op)]} {self.expr(node.left, 100)} {self.expr(node.right, 100)})"
        if isinstance(node, ast.BinOp):
            if type(node.op) not in BINOPS:
                self.bad(node, f"operator {type(node.op).__name__} is not supported")
            sym, p = BINOPS[type(node.op)]
            s = f"{self.expr(node.left, p)} {sym} {self.expr(node.right, p + 1)}"
            return f"({s})" if p < prec else s
        if isinstance(node, ast.UnaryOp):
            if isinstance(node.op, ast.UAdd):
                return self.expr(node.operand, prec)
            if isinstance(node.op, ast.USub):
                return f"(-{self.expr(node.operand, 100)})"
            self.bad(node, f"unary operator {type(node.op).__name__} is not an integer expression")
        if isinstance(node, ast.Subscript):
            if not (isinstance(node.value, ast.Name) and node.value.id in self.arrays):
                self.bad(node, "only parameters of type ndarray can be indexed")
            arr = node.value.id
            if self.lookup(arr) not in ("param", "array"):
                self.bad(node, f"array name {arr} is shadowed")
            if isinstance(node.slice, ast.Tuple):
                i, j = node.slice.elts
                return f"(← get2? {lean_ident(arr)} {self.index(arr, i, 0)} {self.index(arr, j, 1)})"
            return f"(← get1? {lean_ident(arr)} {self.index(arr, node.slice, 0)})"
        if isinstance(node, ast.Call):
            if _is_name(node.func, "int") and len(node.args) == 1 and not node.keywords:
                return self.expr(node.args[0], prec)     # int(e) of an integer
            self.bad(node, f"call of {ast.unparse(node.func)} is not supported")
        self.bad(node, f"expression {type(node).__name__} is not supported")

    @staticmethod
    def reads_array(node) -> bool:
        """does evaluating the expression involve a partial operation (array read, `//`, `%`)?"""
        return any(isinstance(n, ast.Subscript) or (isinstance(n, ast.BinOp) and type(n.op) in DIVOPS)
                   for n in ast.walk(node))

    def cond(self, node, prec: int = 0) -> str:
        if isinstance(node, ast.Compare):
            if len(node.ops) != 1 or type(node.ops[0]) not in CMPOPS:
                self.bad(node, "only single comparisons < <= > >= == != are supported")
            s = f"{self.expr(node.left, 51)} {CMPOPS[type(node.ops[0])]} {self.expr(node.comparators[0], 51)}"
            return f"({s})" if prec > 50 else s
        if isinstance(node, ast.BoolOp):
            sym, p = ("∧", 35) if isinstance(node.op, ast.And) else ("∨", 30)
            for v in node.values[1:]:
                if self.reads_array(v):
                    self.bad(v, "an array read or a division in the right operand of and/or (short-circuit) is not supported")
            s = f" {sym} ".join(self.cond(v, p + 1) for v in node.values)
            return f"({s})" if p < prec else s
        if isinstance(node, ast.UnaryOp) and isinstance(node.op, ast.Not):
            return f"¬ {self.cond(node.operand, 51)}"
        self.bad(node, f"condition {type(node).__name__} is not a comparison")

    # ------------------------------------------------------------------ statements
    def emit(self, ind: int, text: str) -> None:
        self.lines.append("  " * ind + text)

    def declare_or_assign(self, node, name: str, rhs: str, ind: int) -> None:
        kind = self.lookup(name)
        if name in self.arrays or kind in ("param", "loop"):
            self.bad(node, f"assignment to {'parameter' if kind == 'param' else 'loop variable'} {name}")
        if kind is None:
            mut = self.assign_count.get(name, 0) > 1
            self.scopes[-1][name] = "mut" if mut else "let"
            self.emit(ind, f"let {'mut ' if mut else ''}{lean_ident(name)} : Int := {rhs}")
        else:
            if kind != "mut":
                self.bad(node, f"internal: {name} was classified immutable but is assigned again")
            self.emit(ind, f"{lean_ident(name)} := {rhs}")

    def int_annotation(self, node) -> None:
        txt = ast.unparse(node.annotation)
        if txt not in ("int", "Final[int]", "Final"):
            self.bad(node, f"unsupported annotation {txt} of a local")

    def block(self, stmts, ind: int, *, top: bool = False) -> None:
        self.scopes.append({})
        if not stmts:
            self.bad(self.fn, "empty block")
        for k, st in enumerate(stmts):
            last = top and k == len(stmts) - 1
            if isinstance(st, ast.Return):
                if self.procedure:
                    self.bad(st, "`return` in a `-> None` function is not supported")
                if not last:
                    self.bad(st, "`return` is supported as the last statement of the function only")
                if st.value is None:
                    self.bad(st, "`return` without a value")
                self.emit(ind, f"return {self.expr(st.value)}")
            elif last and not self.procedure:
                self.bad(st, "the function must end with `return expr`")
            else:
                self.stmt(st, ind)
        if top and self.procedure:
            if isinstance(stmts[-1], ast.Return):
                self.bad(stmts[-1], "`return` in a `-> None` function is not supported")
            res = [lean_ident(a) for a in self.mutated]
            self.emit(ind, "return " + (res[0] if len(res) == 1 else "(" + ", ".join(res) + ")"))
        self.scopes.pop()

    def stmt(self, st, ind: int) -> None:
        if isinstance(st, ast.AnnAssign):
            if not isinstance(st.target, ast.Name) or st.value is None or not st.simple:
                self.bad(st, "only `name: int = expr` is supported")
            self.int_annotation(st)
            self.declare_or_assign(st, st.target.id, self.expr(st.value), ind)
        elif isinstance(st, ast.Assign):
            if len(st.targets) != 1:
                self.bad(st, "chained assignment is not supported")
            t = st.targets[0]
            if isinstance(t, ast.Name):
                self.declare_or_assign(st, t.id, self.expr(st.value), ind)
            elif isinstance(t, ast.Subscript):
                self.store(st, t, ind)
            elif (isinstance(t, ast.Tuple) and len(t.elts) == 2 and all(isinstance(e, ast.Name) for e in t.elts)
                  and isinstance(st.value, ast.Attribute) and st.value.attr == "shape"
                  and isinstance(st.value.value, ast.Name) and st.value.value.id in self.shape_used):
                arr = st.value.value.id
                if t.elts[0].id == t.elts[1].id:
                    self.bad(st, "the two targets of the shape unpacking are the same name")
                for pos, e in enumerate(t.elts, 1):
                    self.declare_or_assign(st, e.id, f"{lean_ident(arr + '_shape')}.{pos}", ind)
            else:
                self.bad(st, "only `name = expr` and `a, b = arr.shape` are supported")
        elif isinstance(st, ast.AugAssign):
            if not isinstance(st.target, ast.Name) or type(st.op) not in BINOPS:
                self.bad(st, "only `name (+=|-=|*=) expr` is supported")
            name = st.target.id
            if self.lookup(name) is None:
                self.bad(st, f"augmented assignment to {name} outside the block of its first assignment")
            sym, p = BINOPS[type(st.op)]
            cur = self.read(st.target)
            self.declare_or_assign(st, name, f"{cur} {sym} {self.expr(st.value, p + 1)}", ind)
        elif isinstance(st, ast.For):
            self.for_(st, ind)
        elif isinstance(st, ast.If):
            self.if_(st, ind)
        elif isinstance(st, ast.Continue):
            if self.loop_depth == 0:
                self.bad(st, "`continue` outside a loop")
            self.emit(ind, "continue")
        elif isinstance(st, ast.Break):
            if self.loop_depth == 0:
                self.bad(st, "`break` outside a loop")
            self.emit(ind, "break")
        elif (isinstance(st, ast.Expr) and isinstance(st.value, ast.Call) and isinstance(st.value.func, ast.Attribute)
              and st.value.func.attr == "fill" and isinstance(st.value.func.value, ast.Name)
              and st.value.func.value.id in self.mutated):
            arr = st.value.func.value.id
            if len(st.value.args) != 1 or st.value.keywords:
                self.bad(st, "`arr.fill(v)` takes one argument")
            if self.lookup(arr) != "array":
                self.bad(st, f"array name {arr} is shadowed")
            a = lean_ident(arr)
            self.emit(ind, f"{a} := fill{self.arrays[arr]} {a} {self.expr(st.value.args[0], 100)}")
        elif isinstance(st, ast.Expr) and isinstance(st.value, ast.Constant) and isinstance(st.value.value, str):
            self.bad(st, "string expression statement (a docstring is accepted as the first statement only)")
        else:
            self.bad(st, f"statement {type(st).__name__} is not supported")

    def store(self, st, t: ast.Subscript, ind: int) -> None:
        if not (isinstance(t.value, ast.Name) and t.value.id in self.mutated):
            self.bad(st, "only array parameters can be written")
        arr = t.value.id
        if self.lookup(arr) != "array":
            self.bad(st, f"array name {arr} is shadowed")
        a = lean_ident(arr)
        if isinstance(t.slice, ast.Slice):
            self.bad(st, "slices are not supported")
        rhs = self.expr(st.value, 100)      # Python evaluates the right-hand side first, then the subscript
        if isinstance(t.slice, ast.Tuple):
            i, j = t.slice.elts
            self.emit(ind, f"{a} := (← set2? {a} {self.index(arr, i, 0)} {self.index(arr, j, 1)} {rhs})")
        else:
            self.emit(ind, f"{a} := (← set1? {a} {self.index(arr, t.slice, 0)} {rhs})")

    def for_(self, st: ast.For, ind: int) -> None:
        if st.orelse:
            self.bad(st, "`for … else` is not supported")
        it = st.iter
        loopvars: list[str] = []
        if isinstance(it, ast.Name) and it.id in self.arrays:
            if not isinstance(st.target, ast.Name):
                self.bad(st, "`for v in arr` needs a single loop variable")
            if self.lookup(it.id) != "param":
                self.bad(st, f"array name {it.id} is shadowed")
            loopvars = [st.target.id]
            head = f"for {lean_ident(st.target.id)} in {lean_ident(it.id)} do"
        elif isinstance(it, ast.Call) and _is_name(it.func, "enumerate"):
            if len(it.args) != 1 or it.keywords or not (isinstance(it.args[0], ast.Name) and it.args[0].id in self.arrays):
                self.bad(st, "only `enumerate(arr)` of an array parameter is supported")
            t = st.target
            if not (isinstance(t, ast.Tuple) and len(t.elts) == 2 and all(isinstance(e, ast.Name) for e in t.elts)):
                self.bad(st, "`for i, v in enumerate(arr)` needs two loop variables")
            if self.lookup(it.args[0].id) != "param":
                self.bad(st, f"array name {it.args[0].id} is shadowed")
            loopvars = [t.elts[0].id, t.elts[1].id]
            head = (f"for ({lean_ident(loopvars[0])}, {lean_ident(loopvars[1])}) in "
                    f"pyEnumerate {lean_ident(it.args[0].id)} do")
        elif isinstance(it, ast.Call) and _is_name(it.func, "range"):
            if it.keywords or len(it.args) not in (1, 2):
                self.bad(st, "only `range(n)` and `range(a, b)` are supported")
            if not isinstance(st.target, ast.Name):
                self.bad(st, "`for v in range(…)` needs a single loop variable")
            if any(self.reads_array(a) for a in it.args):
                self.bad(st, "an array read in a range bound is not supported")
            lo = "0" if len(it.args) == 1 else self.expr(it.args[0], 100)
            hi = self.expr(it.args[-1], 100)
            loopvars = [st.target.id]
            head = f"for {lean_ident(st.target.id)} in pyRange {lo} {hi} do"
        else:
            self.bad(st, f"loop over {ast.unparse(it)} is not supported")
        if len(set(loopvars)) != len(loopvars):
            self.bad(st, "the loop variables must be distinct")
        for v in loopvars:
            if self.lookup(v) is not None or v in self.arrays:
                self.bad(st, f"loop variable {v} shadows another name")
        self.emit(ind, head)
        self.scopes.append({v: "loop" for v in loopvars})
        self.loop_depth += 1
        self.block(st.body, ind + 1)
        self.loop_depth -= 1
        self.scopes.pop()

    def if_(self, st: ast.If, ind: int, kw: str = "if") -> None:
        t = st.test
        if (isinstance(t, ast.BoolOp) and isinstance(t.op, ast.Or) and any(self.reads_array(v) for v in t.values[1:])
                and kw == "if" and not st.orelse and isinstance(st.body[-1], (ast.Continue, ast.Break))):
            # `if c1 or c2: …; continue`  ==  `if c1: …; continue` followed by `if c2: …; continue` (c2 is only
            # evaluated when c1 is false: the short-circuit is kept, nothing is hoisted)
            for v in t.values:
                self.emit(ind, f"if {self.cond(v)} then")
                self.block(st.body, ind + 1)
            return
        self.emit(ind, f"{kw} {self.cond(st.test)} then")
        self.block(st.body, ind + 1)
        if st.orelse:
            nxt = st.orelse[0]
            if len(st.orelse) == 1 and isinstance(nxt, ast.If) and not self.reads_array(nxt.test):
                self.if_(nxt, ind, "else if")       # elif with a pure condition
            else:
                self.emit(ind, "else")              # (an elif that reads an array is nested: no hoisting of the read)
                self.block(st.orelse, ind + 1)

    # ------------------------------------------------------------------ the function
    def translate(self) -> str:
        self.signature()
        body = list(self.fn.body)
        if body and isinstance(body[0], ast.Expr) and isinstance(body[0].value, ast.Constant) \
                and isinstance(body[0].value.value, str):
            body = body[1:]
        params = []
        top: dict[str, str] = {}
        for p in self.fn.args.args:
            if p.arg in top:
                self.bad(p, "duplicate parameter")
            top[p.arg] = "param"
            if p.arg in self.arrays:
                ty = "List Int" if self.arrays[p.arg] == 1 else "List (List Int)"
                params.append(f"({lean_ident(p.arg)} : {ty})")
                if p.arg in self.shape_used:
                    sh = p.arg + "_shape"
                    if sh in top or any(q.arg == sh for q in self.fn.args.args):
                        self.bad(p, f"name {sh} is needed for the shape parameter")
                    top[sh] = "param"
                    params.append(f"({lean_ident(sh)} : Int × Int)")
            else:
                params.append(f"({lean_ident(p.arg)} : Int)")
        self.scopes = [top]
        if self.procedure:
            tys = ["List Int" if self.arrays[a] == 1 else "List (List Int)" for a in self.mutated]
            rty = "(" + " × ".join(tys) + ")"
        else:
            rty = "Int"
        self.lines = [f"def {lean_ident(self.fn.name)} {' '.join(params)} : Option {rty} := do"]
        for a in self.mutated:      # the array the function writes into: a mutable copy of the parameter
            top[a] = "array"
            self.lines.append(f"  let mut {lean_ident(a)} := {lean_ident(a)}")
        self.block(body, 1, top=True)
        return "\n".join(self.lines)


def source_without_docstring(fn: ast.FunctionDef, src: str) -> str:
    lines = src.splitlines()
    first = fn.lineno - 1
    if fn.decorator_list:
        first = min(d.lineno for d in fn.decorator_list) - 1
    body = fn.body
    skip: set[int] = set()
    if body and isinstance(body[0], ast.Expr) and isinstance(body[0].value, ast.Constant) \
            and isinstance(body[0].value.value, str):
        skip = set(range(body[0].lineno - 1, body[0].end_lineno))
    out = [lines[i].rstrip() for i in range(first, fn.end_lineno) if i not in skip and lines[i].strip()]
    return "\n".join(out).replace("/-", "/ -").replace("-/", "- /")


def translate(repo: Path, key: str) -> str:
    """The text of `lean/Gen/<key>.lean` for the current source under `repo`."""
    rel, fname = KERNELS[key]
    path = Path(repo) / rel
    try:
        src = path.read_text()
        tree = ast.parse(src)
    except (OSError, SyntaxError) as e:
        raise Untranslatable(f"{rel}: cannot be read/parsed: {e!r}") from e
    fns = [n for n in tree.body if isinstance(n, ast.FunctionDef) and n.name == fname]
    if len(fns) != 1:
        raise Untranslatable(f"{rel}: expected exactly one top-level function {fname}, found {len(fns)}")
    fn = fns[0]
    tr = Fn(fn, rel)
    code = tr.translate()
    prelude = PRELUDE + ("\n" + PRELUDE_STORE if tr.mutated else "") + ("\n" + PRELUDE_DIV if tr.uses_div else "")
    return "\n".join([
        "/-!",
        "GENERATED by harness/translate/loop2lean.py from the working tree — do not edit.",
        f"Shallow embedding of `{rel}:{fname}` in the `Option` monad (`none` = an access outside an array);",
        "Python ints are unbounded `Int`, 1-D arrays `List Int`, 2-D arrays lists of rows, `a.shape` a parameter.",
        "",
        "```",
        source_without_docstring(fn, src),
        "```",
        "-/",
        f"namespace Gen.{key}",
        "",
        prelude,
        code,
        "",
        f"end Gen.{key}",
        "",
    ])


def emit(repo: Path, lean_dir: Path, key: str) -> Path:
    """Regenerate `lean/Gen/<key>.lean`; the file is rewritten only if its text changed (no needless rebuild)."""
    text = translate(repo, key)
    out = Path(lean_dir) / "Gen" / f"{key}.lean"
    if not out.exists() or out.read_text() != text:
        out.write_text(text)
    return out


def emit_tour_length(repo: Path, lean_dir: Path) -> Path:
    return emit(repo, lean_dir, "TourLength")


def emit_qap_eval(repo: Path, lean_dir: Path) -> Path:
    return emit(repo, lean_dir, "QapEval")


def emit_plan_length(repo: Path, lean_dir: Path) -> Path:
    return emit(repo, lean_dir, "PlanLength")


def emit_map_games(repo: Path, lean_dir: Path) -> Path:
    return emit(repo, lean_dir, "MapGames")


if __name__ == "__main__":
    import sys
    repo_ = Path(sys.argv[1] if len(sys.argv) > 1 else "/repo")
    for key_ in (sys.argv[2:] or list(KERNELS)):
        print(translate(repo_, key_))
