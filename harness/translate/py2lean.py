"""py2lean — translate the straight-line njit kernels of moptipyapps.dynamic_control to Lean.

Re-run by `harness/c16.py` on every check: parses the CURRENT source of
`controllers/{linear,quadratic,cubic,partially_linear,peaks,predefined}.py` and
`systems/{stuart_landau,lorenz,three_coupled_oscillators}.py` under `$VERIF_REPO` with `ast`
and writes `lean/Gen/Controllers.lean` and `lean/Gen/Systems.lean`:

* one Lean definition per `@numba.njit` function, generic over `Arith.Ops K`
  (kernels: `(state, time, params|control, out) -> None`; helpers: scalars -> scalar);
* per kernel the literal index sets used per array (`Arith.KernelInfo`);
* the `Controller(name, state_dims, control_dims, param_dims, func)` calls of the factory
  functions and the `System(name, state_dims, control_dims, …)` constructions together with
  their `.equations = f` assignment (`Arith.ControllerReg`, `Arith.SystemReg`);
* for kernels that are polynomials in state and parameters the table *parameter index ->
  exponent vector of the monomial it multiplies*, obtained by symbolic expansion (`…_exps`).

Accepted grammar (anything else raises `Untranslatable` for that kernel — the definition is
then missing from `Gen`, every theorem about it stops compiling and the check reports the
obligation as not regenerable):

    stmt  ::= NAME [: ann] = expr | out[INT] = expr | if cmp: stmt+ [else: stmt+]
            | return expr (helpers only, last statement) | docstring | pass
    expr  ::= FLOAT | INT | NAME | state[INT] | params[INT] | control[INT] | time
            | expr (+|-|*|/) expr | -expr | +expr | expr ** SMALLINT | np.f(expr)
            | helper(expr, …) | expr if cmp else expr | pi | MODULE_CONSTANT
    cmp   ::= expr (<|<=|>|>=|==|!=) expr
    f     ::= exp | arctan | tanh | sin | cos

A store to `state`/`params`/`control`, a read of `out`, a non-literal index, a loop, a call of
anything else, an augmented assignment … are all rejected.  Float literals are read as the
exact decimal written in the source (`2.6666666666666665` is that decimal, not 8/3 and not
the binary64 nearest to it).  The output is deterministic (no time stamps, source order).
"""
from __future__ import annotations

import ast
import json
from fractions import Fraction
from pathlib import Path

CONTROLLER_MODULES = ["linear", "quadratic", "cubic", "partially_linear", "peaks", "predefined"]
SYSTEM_MODULES = ["stuart_landau", "lorenz", "three_coupled_oscillators"]
NP_FUNCS = {"exp", "arctan", "tanh", "sin", "cos"}
BINOPS = {ast.Add: "add", ast.Sub: "sub", ast.Mult: "mul", ast.Div: "div"}
CMPOPS = {ast.Lt: "lt", ast.LtE: "le", ast.Gt: "gt", ast.GtE: "ge", ast.Eq: "eq", ast.NotEq: "ne"}
MAX_POW = 8


class Untranslatable(Exception):
    """The construct is outside the accepted grammar."""


def lean_name(py: str) -> str:
    s = py.lstrip("_")
    if not s or s[0].isdigit():
        s = "k" + s
    return s


def _is_njit(fn: ast.FunctionDef) -> bool:
    for d in fn.decorator_list:
        f = d.func if isinstance(d, ast.Call) else d
        if (isinstance(f, ast.Attribute) and f.attr in ("njit", "jit")) or \
                (isinstance(f, ast.Name) and f.id in ("njit", "jit")):
            return True
    return False


# --------------------------------------------------------------------------- expressions (IR)
# ("lit", Fraction, text) ("var", leanName) ("idx", role, i) ("time",) ("pi",) ("mconst", leanName)
# ("bin", op, a, b) ("neg", a) ("pow", a, n) ("fn", f, a) ("helper", leanName, [args])
# ("ite", cmp, a, b)      cmp = ("cmp", op, a, b)

class FunTranslator:
    def __init__(self, mod: "ModuleTranslator", fn: ast.FunctionDef) -> None:
        self.mod, self.fn = mod, fn
        self.env: dict[str, str] = {}          # python local -> current SSA lean name
        self.version: dict[str, int] = {}
        self.lets: list[tuple[str, tuple | None, str | None]] = []  # (lean name, expr | None, raw lean | None)
        self.idx = {"state": set(), "arg": set(), "out": set()}
        self.uses_time = False
        self.roles: dict[str, str] = {}        # python arg name -> role
        self.out_cur = "out"
        self.out_ver = 0
        self.ret: tuple | None = None
        self.stores: dict[int, tuple] = {}     # straight-line stores out[i] (for expansion / exactness)
        self.branchy_store = False

    # -- helpers
    def fail(self, node: ast.AST, why: str):
        raise Untranslatable(f"{self.fn.name}: line {getattr(node, 'lineno', '?')}: {why}")

    def fresh(self, py: str) -> str:
        v = self.version.get(py, -1) + 1
        self.version[py] = v
        return f"v_{py}_{v}"

    def lit(self, node: ast.Constant) -> tuple:
        v = node.value
        if isinstance(v, bool) or not isinstance(v, (int, float)):
            self.fail(node, f"literal {v!r} is not a number")
        text = ast.get_source_segment(self.mod.source, node)
        if text is None:
            self.fail(node, "no source text for literal")
        t = text.replace("_", "")
        try:
            q = Fraction(t)
        except (ValueError, ZeroDivisionError):
            self.fail(node, f"cannot read literal {text!r} exactly")
        if float(q) != float(v):
            self.fail(node, f"literal text {text!r} does not denote {v!r}")
        return ("lit", q, t)

    def expr(self, e: ast.AST) -> tuple:
        if isinstance(e, ast.Constant):
            return self.lit(e)
        if isinstance(e, ast.Name):
            if e.id in self.env:
                return ("var", self.env[e.id])
            if self.roles.get(e.id) == "time":
                self.uses_time = True
                return ("time",)
            if e.id in self.roles:
                self.fail(e, f"array {e.id!r} used as a scalar")
            if e.id in self.mod.pi_names:
                return ("pi",)
            if e.id in self.mod.consts:
                return ("mconst", lean_name(e.id))
            self.fail(e, f"unknown name {e.id!r}")
        if isinstance(e, ast.Subscript):
            if not isinstance(e.value, ast.Name) or e.value.id not in self.roles:
                self.fail(e, "subscript of something that is not an argument array")
            role = self.roles[e.value.id]
            if role == "time":
                self.fail(e, "subscript of the scalar time argument")
            if role == "out":
                self.fail(e, "read of out[...] (only stores to out are translatable)")
            i = e.slice
            if not (isinstance(i, ast.Constant) and isinstance(i.value, int) and not isinstance(i.value, bool)
                    and i.value >= 0):
                self.fail(e, "index is not a non-negative integer literal")
            self.idx[role].add(i.value)
            return ("idx", role, i.value)
        if isinstance(e, ast.BinOp):
            if isinstance(e.op, ast.Pow):
                if not isinstance(e.right, ast.Constant):
                    self.fail(e, "exponent is not a literal")
                q = self.lit(e.right)[1]
                if q.denominator != 1 or not 0 <= q.numerator <= MAX_POW:
                    self.fail(e, f"exponent {q} is not an integer in 0..{MAX_POW}")
                return ("pow", self.expr(e.left), int(q.numerator))
            op = BINOPS.get(type(e.op))
            if op is None:
                self.fail(e, f"operator {type(e.op).__name__}")
            return ("bin", op, self.expr(e.left), self.expr(e.right))
        if isinstance(e, ast.UnaryOp):
            if isinstance(e.op, ast.USub):
                return ("neg", self.expr(e.operand))
            if isinstance(e.op, ast.UAdd):
                return self.expr(e.operand)
            self.fail(e, f"unary operator {type(e.op).__name__}")
        if isinstance(e, ast.Call):
            if e.keywords:
                self.fail(e, "keyword arguments in a call")
            f = e.func
            if isinstance(f, ast.Attribute) and isinstance(f.value, ast.Name) and f.value.id == "np":
                if f.attr not in NP_FUNCS or len(e.args) != 1:
                    self.fail(e, f"np.{f.attr} is not a known unary function symbol")
                return ("fn", f.attr, self.expr(e.args[0]))
            if isinstance(f, ast.Name) and f.id in self.mod.helpers:
                if len(e.args) != self.mod.helpers[f.id]:
                    self.fail(e, f"helper {f.id} called with {len(e.args)} arguments")
                return ("helper", lean_name(f.id), [self.expr(a) for a in e.args])
            self.fail(e, "call of an unknown function")
        if isinstance(e, ast.IfExp):
            return ("ite", self.cmp(e.test), self.expr(e.body), self.expr(e.orelse))
        self.fail(e, f"expression {type(e).__name__}")

    def cmp(self, c: ast.AST) -> tuple:
        if not (isinstance(c, ast.Compare) and len(c.ops) == 1):
            self.fail(c, "condition is not a single comparison")
        op = CMPOPS.get(type(c.ops[0]))
        if op is None:
            self.fail(c, f"comparison {type(c.ops[0]).__name__}")
        return ("cmp", op, self.expr(c.left), self.expr(c.comparators[0]))

    # -- statements
    def assign(self, py: str, val: tuple) -> None:
        nm = self.fresh(py)
        self.lets.append((nm, val, None))
        self.env[py] = nm

    def store(self, node: ast.Subscript, val: tuple, straight: bool) -> None:
        if not isinstance(node.value, ast.Name) or node.value.id not in self.roles:
            self.fail(node, "store into something that is not an argument array")
        role = self.roles[node.value.id]
        if role != "out":
            self.fail(node, f"store into the input array {node.value.id!r} ({role}): inputs must not be modified")
        i = node.slice
        if not (isinstance(i, ast.Constant) and isinstance(i.value, int) and not isinstance(i.value, bool)
                and i.value >= 0):
            self.fail(node, "store index is not a non-negative integer literal")
        self.idx["out"].add(i.value)
        tmp = self.fresh("o" + str(i.value) + "_")
        self.lets.append((tmp, val, None))
        self.out_ver += 1
        new = f"out_{self.out_ver}"
        self.lets.append((new, None, f"upd {self.out_cur} {i.value} {tmp}"))
        self.out_cur = new
        if straight:
            self.stores[i.value] = ("var", tmp)
        else:
            self.branchy_store = True

    def stmts(self, body: list[ast.stmt], straight: bool, helper: bool) -> None:
        for k, s in enumerate(body):
            if isinstance(s, ast.Expr) and isinstance(s.value, ast.Constant) and isinstance(s.value.value, str):
                continue
            if isinstance(s, ast.Pass):
                continue
            if isinstance(s, ast.AnnAssign):
                if s.value is None:
                    self.fail(s, "annotation without value")
                tgt, val = s.target, s.value
            elif isinstance(s, ast.Assign):
                if len(s.targets) != 1:
                    self.fail(s, "multiple assignment targets")
                tgt, val = s.targets[0], s.value
            elif isinstance(s, ast.If):
                self.ifstmt(s, helper)
                continue
            elif isinstance(s, ast.Return):
                if not helper:
                    if s.value is None:
                        if k != len(body) - 1 or not straight:
                            self.fail(s, "early return")
                        continue
                    self.fail(s, "return with a value in a kernel")
                if s.value is None or k != len(body) - 1 or not straight:
                    self.fail(s, "return must be the last statement of a helper and carry a value")
                self.ret = self.expr(s.value)
                continue
            else:
                self.fail(s, f"statement {type(s).__name__}")
            if isinstance(tgt, ast.Name):
                if tgt.id in self.roles:
                    self.fail(s, f"assignment to the argument {tgt.id!r}")
                self.assign(tgt.id, self.expr(val))
            elif isinstance(tgt, ast.Subscript):
                if helper:
                    self.fail(s, "store in a scalar helper")
                self.store(tgt, self.expr(val), straight)
            else:
                self.fail(s, f"assignment target {type(tgt).__name__}")

    def ifstmt(self, s: ast.If, helper: bool) -> None:
        c = self.cmp(s.test)
        cn = self.fresh("c_")
        self.lets.append((cn, None, self.lean_cmp(c)))
        env0, out0 = dict(self.env), self.out_cur
        self.stmts(s.body, False, helper)
        env1, out1 = self.env, self.out_cur
        self.env, self.out_cur = dict(env0), out0
        self.stmts(s.orelse, False, helper)
        env2, out2 = self.env, self.out_cur
        merged = dict(env0)
        for py in sorted(set(env1) | set(env2)):
            a, b = env1.get(py), env2.get(py)
            if a == b:
                if a is not None:
                    merged[py] = a
                continue
            if a is None or b is None:
                # defined on one path only: usable afterwards only on that path -> reject a later use
                continue
            nm = self.fresh(py)
            self.lets.append((nm, None, f"if {cn} then {a} else {b}"))
            merged[py] = nm
        self.env = merged
        if out1 != out2:
            self.out_ver += 1
            new = f"out_{self.out_ver}"
            self.lets.append((new, None, f"if {cn} then {out1} else {out2}"))
            self.out_cur = new
        else:
            self.out_cur = out1

    # -- Lean text
    def lean(self, e: tuple) -> str:
        k = e[0]
        if k == "lit":
            q = e[1]
            return f"(o.ofRat {q.numerator} {q.denominator})" if q >= 0 else f"(o.ofRat ({q.numerator}) {q.denominator})"
        if k == "var":
            return e[1]
        if k == "idx":
            return f"({e[1]} {e[2]})"
        if k == "time":
            return "t"
        if k == "pi":
            return "o.pi"
        if k == "mconst":
            return f"({e[1]} o)"
        if k == "bin":
            return f"(o.{e[1]} {self.lean(e[2])} {self.lean(e[3])})"
        if k == "neg":
            return f"(o.neg {self.lean(e[1])})"
        if k == "pow":
            return f"(o.powN {self.lean(e[1])} {e[2]})"
        if k == "fn":
            return f"(o.{e[1]} {self.lean(e[2])})"
        if k == "helper":
            return "(" + " ".join([e[1], "o"] + [self.lean(a) for a in e[2]]) + ")"
        if k == "ite":
            return f"(if {self.lean_cmp(e[1])} then {self.lean(e[2])} else {self.lean(e[3])})"
        raise AssertionError(k)

    def lean_cmp(self, c: tuple) -> str:
        _, op, a, b = c
        la, lb = self.lean(a), self.lean(b)
        return {"lt": f"o.lt {la} {lb}", "le": f"o.le {la} {lb}", "gt": f"o.lt {lb} {la}",
                "ge": f"o.le {lb} {la}", "eq": f"o.eq {la} {lb}", "ne": f"!(o.eq {la} {lb})"}[op]

    def body_lines(self) -> list[str]:
        out = []
        for nm, ex, raw in self.lets:
            out.append(f"  let {nm} := {self.lean(ex) if ex is not None else raw}")
        return out

    # -- drivers
    def kernel(self) -> str:
        a = self.fn.args
        if a.vararg or a.kwarg or a.kwonlyargs or a.posonlyargs or a.defaults or len(a.args) != 4:
            self.fail(self.fn, "a kernel takes exactly (state, time, params|control, out)")
        names = [x.arg for x in a.args]
        if len(set(names)) != 4:
            self.fail(self.fn, "duplicate argument names")
        if names[3] != "out":
            self.fail(self.fn, "the fourth argument of a kernel must be called 'out'")
        for nm, role in zip(names, ("state", "time", "arg", "out")):
            self.roles[nm] = role
        self.stmts(self.fn.body, True, False)
        ln = lean_name(self.fn.name)
        head = (f"def {ln} (o : Ops K) (state : Nat → K) (t : K) (arg : Nat → K) (out : Nat → K) : Nat → K :=")
        return "\n".join([f"/-- `{self.fn.name}` ({self.mod.relpath}:{self.fn.lineno}) -/", head]
                         + self.body_lines() + [f"  {self.out_cur}"])

    def helper(self) -> str:
        a = self.fn.args
        if a.vararg or a.kwarg or a.kwonlyargs or a.posonlyargs or a.defaults:
            self.fail(self.fn, "helper with non-positional arguments")
        params = []
        for x in a.args:
            nm = self.fresh(x.arg)
            self.env[x.arg] = nm
            params.append(nm)
        self.stmts(self.fn.body, True, True)
        if self.ret is None:
            self.fail(self.fn, "helper without return value")
        ln = lean_name(self.fn.name)
        head = f"def {ln} (o : Ops K)" + "".join(f" ({p} : K)" for p in params) + " : K :="
        return "\n".join([f"/-- `{self.fn.name}` ({self.mod.relpath}:{self.fn.lineno}) -/", head]
                         + self.body_lines() + [f"  {self.lean(self.ret)}"])


# --------------------------------------------------------------------------- symbolic expansion
# polynomial = dict: monomial (tuple of (var, exponent) sorted) -> Fraction ; var = ("s", i) | ("p", i)

def _pmul(a: dict, b: dict) -> dict:
    r: dict = {}
    for ma, ca in a.items():
        for mb, cb in b.items():
            d = dict(ma)
            for v, e in mb:
                d[v] = d.get(v, 0) + e
            m = tuple(sorted(d.items()))
            r[m] = r.get(m, 0) + ca * cb
    return {m: c for m, c in r.items() if c != 0}


def _padd(a: dict, b: dict, sign: int = 1) -> dict:
    r = dict(a)
    for m, c in b.items():
        r[m] = r.get(m, 0) + sign * c
    return {m: c for m, c in r.items() if c != 0}


class NotPolynomial(Exception):
    pass


def expand(e: tuple, defs: dict[str, tuple]) -> dict:
    k = e[0]
    if k == "lit":
        return {(): e[1]} if e[1] != 0 else {}
    if k == "var":
        if defs.get(e[1]) is None:
            raise NotPolynomial
        return expand(defs[e[1]], defs)
    if k == "idx":
        return {((("s" if e[1] == "state" else "p", e[2]), 1),): Fraction(1)}
    if k == "bin":
        a, b = expand(e[2], defs), expand(e[3], defs)
        if e[1] == "add":
            return _padd(a, b)
        if e[1] == "sub":
            return _padd(a, b, -1)
        if e[1] == "mul":
            return _pmul(a, b)
        raise NotPolynomial
    if k == "neg":
        return _padd({}, expand(e[1], defs), -1)
    if k == "pow":
        r = {(): Fraction(1)}
        a = expand(e[1], defs)
        for _ in range(e[2]):
            r = _pmul(r, a)
        return r
    raise NotPolynomial


def exact_in_binary64(e: tuple, defs: dict[str, tuple | None]) -> bool:
    """Only + - * small powers, indices, and literals that binary64 represents exactly: on
    small integer inputs the compiled kernel then computes the exact value."""
    k = e[0]
    if k == "lit":
        return Fraction(float(e[1])) == e[1]
    if k == "var":
        d = defs.get(e[1])
        return d is not None and exact_in_binary64(d, defs)
    if k == "idx":
        return True
    if k == "bin":
        return e[1] in ("add", "sub", "mul") and exact_in_binary64(e[2], defs) and exact_in_binary64(e[3], defs)
    if k in ("neg", "pow"):
        return exact_in_binary64(e[1], defs)
    return False


# --------------------------------------------------------------------------- modules

class ModuleTranslator:
    def __init__(self, repo: Path, kind: str, name: str) -> None:
        self.kind, self.name = kind, name
        self.relpath = f"moptipyapps/dynamic_control/{kind}/{name}.py"
        self.path = repo / self.relpath
        self.source = self.path.read_text(encoding="utf-8")
        self.tree = ast.parse(self.source)
        self.pi_names: set[str] = set()
        self.consts: dict[str, str] = {}       # python name -> lean def text
        self.helpers: dict[str, int] = {}      # python name -> arity
        self.defs: list[str] = []
        self.kernels: list[dict] = []
        self.failures: list[str] = []
        self.regs: list[dict] = []
        self.system_classes = {"System"}

    def run(self) -> None:
        fns = [n for n in self.tree.body if isinstance(n, ast.FunctionDef)]
        for n in self.tree.body:
            if isinstance(n, ast.ImportFrom) and n.module == "math":
                for a in n.names:
                    if a.name == "pi":
                        self.pi_names.add(a.asname or a.name)
            if isinstance(n, ast.ClassDef) and any(isinstance(b, ast.Name) and b.id in self.system_classes
                                                   for b in n.bases):
                self.system_classes.add(n.name)
        # module constants (only those a kernel can see: simple NAME = expr over pi / literals / constants)
        for n in self.tree.body:
            tgt = val = None
            if isinstance(n, ast.AnnAssign) and isinstance(n.target, ast.Name) and n.value is not None:
                tgt, val = n.target.id, n.value
            elif isinstance(n, ast.Assign) and len(n.targets) == 1 and isinstance(n.targets[0], ast.Name):
                tgt, val = n.targets[0].id, n.value
            if tgt is None:
                continue
            dummy = ast.FunctionDef(name=tgt, args=None, body=[], decorator_list=[], lineno=n.lineno)
            ft = FunTranslator(self, dummy)
            try:
                ex = ft.expr(val)
            except Untranslatable:
                continue
            self.consts[tgt] = (f"/-- module constant `{tgt}` ({self.relpath}:{n.lineno}) -/\n"
                                f"def {lean_name(tgt)} (o : Ops K) : K :=\n  {ft.lean(ex)}")
            self.defs.append(self.consts[tgt])
        njit = [f for f in fns if _is_njit(f)]
        for f in njit:   # helpers first (a helper = njit function that is not of kernel shape)
            if not self.kernel_shaped(f):
                self.helpers[f.name] = len(f.args.args)
        for f in njit:
            ft = FunTranslator(self, f)
            try:
                if f.name in self.helpers:
                    self.defs.append(ft.helper())
                else:
                    text = ft.kernel()
                    self.defs.append(text)
                    defs = {nm: ex for nm, ex, _ in ft.lets}
                    info = {"py": f.name, "lean": lean_name(f.name), "module": self.name, "kind": self.kind,
                            "line": f.lineno,
                            "state_idx": sorted(ft.idx["state"]), "arg_idx": sorted(ft.idx["arg"]),
                            "out_idx": sorted(ft.idx["out"]), "uses_time": ft.uses_time,
                            "exact_out": sorted(i for i, ex in ft.stores.items()
                                                if not ft.branchy_store and exact_in_binary64(ex, defs)),
                            "exact_branchy": self.branchy_exact(ft, defs),
                            "has_branch": any(isinstance(x, (ast.If, ast.IfExp)) for x in ast.walk(f)),
                            "poly": None}
                    if not ft.branchy_store and sorted(ft.stores) == [0]:
                        try:
                            info["poly"] = expand(ft.stores[0], defs)
                        except NotPolynomial:
                            pass
                    self.kernels.append(info)
            except Untranslatable as ex:
                self.failures.append(f"{self.relpath}: {ex}")
                if f.name in self.helpers:
                    del self.helpers[f.name]
        try:
            self.registrations(fns)
        except Untranslatable as ex:
            self.failures.append(f"{self.relpath}: {ex}")

    @staticmethod
    def branchy_exact(ft: FunTranslator, defs: dict) -> bool:
        """Kernels with `if` cascades: exact when every let is exact (conditions compare exact values)."""
        for nm, ex, raw in ft.lets:
            if ex is not None and not exact_in_binary64(ex, defs):
                return False
        return True

    @staticmethod
    def kernel_shaped(f: ast.FunctionDef) -> bool:
        a = f.args.args
        return len(a) == 4 and a[3].arg == "out"

    # -- factories
    def registrations(self, fns: list[ast.FunctionDef]) -> None:
        kernel_names = {k["py"] for k in self.kernels} | \
            {f.name for f in fns if _is_njit(f) and self.kernel_shaped(f)}
        for f in fns:
            if _is_njit(f):
                continue
            strs: dict[str, str] = {}
            ints: dict[str, int] = {}
            for n in ast.walk(f):
                tgt = val = None
                if isinstance(n, ast.AnnAssign) and isinstance(n.target, ast.Name) and n.value is not None:
                    tgt, val = n.target.id, n.value
                elif isinstance(n, ast.Assign) and len(n.targets) == 1 and isinstance(n.targets[0], ast.Name):
                    tgt, val = n.targets[0].id, n.value
                if tgt and isinstance(val, ast.Constant):
                    if isinstance(val.value, str):
                        strs[tgt] = val.value
                    elif isinstance(val.value, int):
                        ints[tgt] = val.value

            def s_of(e):
                if isinstance(e, ast.Constant) and isinstance(e.value, str):
                    return e.value
                if isinstance(e, ast.Name) and e.id in strs:
                    return strs[e.id]
                raise Untranslatable(f"{f.name}: line {e.lineno}: name argument is not a string literal")

            def i_of(e):
                if isinstance(e, ast.Constant) and isinstance(e.value, int) and not isinstance(e.value, bool):
                    return e.value
                if isinstance(e, ast.Name) and e.id in ints:
                    return ints[e.id]
                raise Untranslatable(f"{f.name}: line {e.lineno}: dimension argument is not an integer literal")

            if self.kind == "controllers":
                for n in ast.walk(f):
                    if isinstance(n, ast.Call) and isinstance(n.func, ast.Name) and n.func.id == "Controller":
                        if n.keywords or len(n.args) != 5 or not isinstance(n.args[4], ast.Name):
                            raise Untranslatable(f"{f.name}: line {n.lineno}: Controller(...) call is not "
                                                 "(name, state_dims, control_dims, param_dims, func)")
                        self.regs.append({"factory": f.name, "name": s_of(n.args[0]), "state_dims": i_of(n.args[1]),
                                          "control_dims": i_of(n.args[2]), "param_dims": i_of(n.args[3]),
                                          "kernel": n.args[4].id, "line": n.lineno})
            else:
                ctor = None
                eqs = None
                for n in ast.walk(f):
                    if isinstance(n, ast.Call) and isinstance(n.func, ast.Name) and n.func.id in self.system_classes:
                        if len(n.args) < 3:
                            raise Untranslatable(f"{f.name}: line {n.lineno}: System(...) with < 3 positional args")
                        ctor = (s_of(n.args[0]), i_of(n.args[1]), i_of(n.args[2]), n.lineno)
                    if isinstance(n, ast.Assign) and len(n.targets) == 1 and \
                            isinstance(n.targets[0], ast.Attribute) and n.targets[0].attr == "equations":
                        if not isinstance(n.value, ast.Name):
                            raise Untranslatable(f"{f.name}: line {n.lineno}: .equations is not assigned a function name")
                        eqs = n.value.id
                if ctor is not None and eqs is not None:
                    self.regs.append({"factory": f.name, "name": ctor[0], "state_dims": ctor[1],
                                      "control_dims": ctor[2], "kernel": eqs, "line": ctor[3]})
        self.regs.sort(key=lambda r: r["line"])
        for r in self.regs:
            if r["kernel"] not in kernel_names:
                raise Untranslatable(f"{r['factory']}: registered function {r['kernel']!r} is not an njit kernel of the module")


# --------------------------------------------------------------------------- output

def _nat_list(xs) -> str:
    return "[" + ", ".join(str(x) for x in xs) + "]"


def _exps_table(info: dict, reg: dict | None) -> tuple[list[list[int]], list[str]]:
    """parameter index -> exponent vector of the state monomial it multiplies (coefficient 1,
    the parameter occurring linearly and alone); `[]` where there is no such unique term."""
    poly = info["poly"]
    sd = reg["state_dims"] if reg else (max(info["state_idx"]) + 1 if info["state_idx"] else 0)
    pd = reg["param_dims"] if reg and "param_dims" in reg else (max(info["arg_idx"]) + 1 if info["arg_idx"] else 0)
    per: dict[int, list] = {}
    notes = []
    for m, c in poly.items():
        ps = [(v[1], e) for v, e in m if v[0] == "p"]
        ss = {v[1]: e for v, e in m if v[0] == "s"}
        if len(ps) == 1 and ps[0][1] == 1 and c == 1 and all(i < sd for i in ss):
            per.setdefault(ps[0][0], []).append([ss.get(j, 0) for j in range(sd)])
        else:
            notes.append(f"term {c}*{m} is not of the form params[i]*monomial(state)")
    table = []
    for i in range(pd):
        ts = per.get(i, [])
        if len(ts) == 1:
            table.append(ts[0])
        else:
            table.append([])
            notes.append(f"params[{i}] multiplies {len(ts)} monomials")
    for i in per:
        if i >= pd:
            notes.append(f"params[{i}] is used but param_dims is {pd}")
    return table, notes


def emit(mods: list[ModuleTranslator], ns: str, what: str) -> tuple[str, list[dict]]:
    lines = ["import Model.Arith",
             "/-!",
             f"GENERATED by harness/translate/py2lean.py from the working tree — do not edit.",
             f"{what}",
             "-/",
             "set_option linter.unusedVariables false",
             f"namespace Gen.{ns}",
             "open Arith",
             "variable {K : Type}",
             ""]
    infos: list[dict] = []
    regs: list[dict] = []
    for m in mods:
        lines.append(f"/-! ## {m.relpath} -/")
        lines.append("")
        for f in m.failures:
            lines.append("-- NOT TRANSLATABLE: " + f.replace("\n", " "))
        for d in m.defs:
            lines.append(d)
            lines.append("")
        infos += m.kernels
        regs += m.regs
    # data
    lines.append("/-! ## data -/")
    lines.append("")
    lines.append("/-- name -> translated kernel (used by the model driver) -/")
    lines.append("def kernels (o : Ops K) : List (String × Kernel K) := [")
    lines.append(",\n".join(f"  (\"{k['lean']}\", {k['lean']} o)" for k in infos))
    lines.append("]")
    lines.append("")
    lines.append("/-- literal indices used per array, per kernel -/")
    lines.append("def infos : List KernelInfo := [")
    lines.append(",\n".join(
        f"  ⟨\"{k['lean']}\", {_nat_list(k['state_idx'])}, {_nat_list(k['arg_idx'])}, {_nat_list(k['out_idx'])}, "
        f"{'true' if k['uses_time'] else 'false'}⟩" for k in infos))
    lines.append("]")
    lines.append("")
    if ns == "Controllers":
        lines.append("/-- the `Controller(name, state_dims, control_dims, param_dims, func)` calls of the factories -/")
        lines.append("def registrations : List ControllerReg := [")
        lines.append(",\n".join(
            f"  ⟨\"{r['factory']}\", \"{r['name']}\", {r['state_dims']}, {r['control_dims']}, {r['param_dims']}, "
            f"\"{lean_name(r['kernel'])}\"⟩" for r in regs))
        lines.append("]")
    else:
        lines.append("/-- the `System(name, state_dims, control_dims, …)` constructions and their `.equations` -/")
        lines.append("def registrations : List SystemReg := [")
        lines.append(",\n".join(
            f"  ⟨\"{r['factory']}\", \"{r['name']}\", {r['state_dims']}, {r['control_dims']}, "
            f"\"{lean_name(r['kernel'])}\"⟩" for r in regs))
        lines.append("]")
    lines.append("")
    by_kernel = {}
    for r in regs:
        by_kernel.setdefault(r["kernel"], r)
    for k in infos:
        if k["poly"] is not None and ns == "Controllers":
            table, notes = _exps_table(k, by_kernel.get(k["py"]))
            k["exps"], k["exps_notes"] = table, notes
            lines.append(f"/-- symbolic expansion of `{k['lean']}`: parameter index ↦ exponent vector of the "
                         "state monomial it multiplies (`[]`: none or not unique) -/")
            for nt in notes:
                lines.append(f"-- note: {nt}")
            lines.append(f"def {k['lean']}_exps : List (List Nat) := [")
            lines.append(",\n".join("  " + _nat_list(e) for e in table))
            lines.append("]")
            lines.append("")
    lines.append(f"end Gen.{ns}")
    return "\n".join(lines) + "\n", regs


def translate(repo: Path, lean_dir: Path, meta_path: Path | None = None) -> dict:
    """Regenerate Gen/Controllers.lean and Gen/Systems.lean; returns the meta data (also the failures)."""
    cm = [ModuleTranslator(repo, "controllers", n) for n in CONTROLLER_MODULES]
    sm = [ModuleTranslator(repo, "systems", n) for n in SYSTEM_MODULES]
    for m in cm + sm:
        m.run()
    ctext, cregs = emit(cm, "Controllers", "One definition per njit kernel of dynamic_control/controllers/"
                        "{linear,quadratic,cubic,partially_linear,peaks,predefined}.py.")
    stext, sregs = emit(sm, "Systems", "One definition per njit kernel of dynamic_control/systems/"
                        "{stuart_landau,lorenz,three_coupled_oscillators}.py.")
    gen = lean_dir / "Gen"
    gen.mkdir(exist_ok=True)
    changed = []
    for fn, text in (("Controllers.lean", ctext), ("Systems.lean", stext)):
        p = gen / fn
        if not p.exists() or p.read_text(encoding="utf-8") != text:
            p.write_text(text, encoding="utf-8")
            changed.append(fn)
    meta = {"failures": [f for m in cm + sm for f in m.failures],
            "changed": changed,
            "kernels": [{k: v for k, v in info.items() if k != "poly"} | {"is_poly": info["poly"] is not None}
                        for m in cm + sm for info in m.kernels],
            "controller_regs": cregs, "system_regs": sregs}
    if meta_path is not None:
        meta_path.parent.mkdir(parents=True, exist_ok=True)
        meta_path.write_text(json.dumps(meta, indent=1, sort_keys=True) + "\n")
    return meta


if __name__ == "__main__":
    import os
    import sys
    root = Path(__file__).resolve().parent.parent.parent
    m = translate(Path(os.environ.get("VERIF_REPO", "/repo")), root / "lean")
    for f in m["failures"]:
        print("NOT TRANSLATABLE:", f)
    print("changed:", m["changed"], "kernels:", len(m["kernels"]))
    sys.exit(1 if m["failures"] else 0)
