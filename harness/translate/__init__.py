"""Translators from the working-tree Python source of /repo to Lean (DESIGN.md section 2.3)."""
