"""Print the Markdown table of seeded changes (DESIGN.md section 10.4) from seeded/*/meta.json."""
import json
from pathlib import Path

ROOT = Path(__file__).resolve().parent.parent


def main() -> None:
    print("| seed | needs (to manifest) | checks run and result |")
    print("|------|---------------------|-----------------------|")
    for d in sorted((ROOT / "seeded").iterdir()):
        m = d / "meta.json"
        if not m.exists():
            continue
        j = json.loads(m.read_text())
        needs = j["needs_to_manifest"].replace("|", "/")
        res = j["checks_run"].replace("|", "/")
        if "MISSED" in res or "HUNG" in res or "only 'correspondence" in res:
            res = "**" + res + "**"
        print(f"| {d.name} | {needs} | {res} |")


if __name__ == "__main__":
    main()
