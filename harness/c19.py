"""C19 — text forms of instances, solutions and result tables round-trip (DESIGN.md section 6)."""
from __future__ import annotations

import contextlib
import itertools
import re
import signal
import warnings

from .common import Check, kv

THEOREMS = [
    "Text.compact_roundtrip", "Text.compact_roundtrip_ascii", "Text.compact_derived",
    "Text.fromCompactStr_valid", "Text.space_roundtrip", "Text.plan_roundtrip",
    "Text.planToStr_isSome", "Text.ordering_roundtrip", "Text.planFromStr_ok", "Text.ordFromStr_ok",
    "Csv.csv_roundtrip", "Csv.csv_to_from", "Csv.csv_trim_pad", "Csv.csv_reader_layout",
    "Csv.csv_roundtrip_statistics", "Csv.csv_stat_reader_layout",
    "Text.packing_text_roundtrip", "Text.nameOkB_no_semi",
    "Csv.tinyCodec_roundTrips", "Csv.tinyEs_roundTrips", "Csv.tinySs_roundTrips", "Csv.scopeUse_self",
]

ERRS = (ValueError, IndexError, TypeError, KeyError, OverflowError)


class Timeout(Exception):
    """the real code did not return within the time limit (the constructor's lower bounds cost time proportional to
    min(W, H) and to the number of squares of the items: a reader that yields other numbers than were written can
    take practically forever)"""


_TL = [1.0]


@contextlib.contextmanager
def time_limit(seconds: float):
    """`seconds` scaled down after every timeout, so that a broken reader cannot stall the check"""
    def handler(signum, frame):
        _TL[0] = max(0.02, _TL[0] / 2)
        raise Timeout()
    old = signal.signal(signal.SIGALRM, handler)
    signal.setitimer(signal.ITIMER_REAL, max(0.3, seconds * _TL[0]))
    try:
        yield
    finally:
        signal.setitimer(signal.ITIMER_REAL, 0)
        signal.signal(signal.SIGALRM, old)


def cps(s: str) -> str:
    return ",".join(str(ord(c)) for c in s)


def uncps(t: str) -> str:
    return "".join(chr(int(v)) for v in t.split(",")) if t else ""


# ------------------------------------------------------------------ instances
def geo_bound(inst) -> int:
    area = sum(int(r[0]) * int(r[1]) * int(r[2]) for r in inst)
    b = inst.bin_width * inst.bin_height
    return -((-area) // b)


def inst_fields(inst, with_items: bool) -> str:
    rows = [[int(v) for v in r] for r in inst]
    d = (f"nd={inst.n_different_items} nitems={inst.n_items} area={inst.total_item_area} "
         f"dtype={inst.dtype} geo={geo_bound(inst)}")
    if not with_items:
        return d
    return (f"name={cps(inst.name)} W={inst.bin_width} H={inst.bin_height} "
            f"items={'|'.join(','.join(map(str, r)) for r in rows)} " + d)


def gen_instances(ck: Check):
    """(stream, name, W, H, rows)"""
    rng, quick = ck.rng, ck.quick
    # exhaustive small scope: bins 1..3 x 1..3, one or two items with w,h in 0..3, rep in 0..2 (incl. rejected)
    small = []
    for W, H in itertools.product((1, 2, 3), repeat=2):
        cells = list(itertools.product(range(0, 4), range(0, 4), (0, 1, 2)))
        for it in cells:
            small.append((W, H, [list(it)]))
        for a, b in itertools.product(cells[::5], cells[::7]):
            small.append((W, H, [list(a), list(b)]))
    if quick:
        small = rng.sample(small, 500)
    for W, H, rows in small:
        yield "exh", "s", W, H, rows
    # boundary: bin sizes up to 1e12 (+1 rejected), repetitions up to 1e8 (+1 rejected), n_items up to 1e12 (+1 rejected).
    # The constructor's Dell'Amico bound costs Theta(min(W,H)) + Theta(sum of rep * #squares of the item), so huge values
    # are only combined with a small second bin dimension and unit-height items.
    big = 10**12
    for W, H in ((big, 1), (1, big), (big, 7), (9, big), (big + 1, 5), (5, big + 1), (big - 1, 2), (0, 5), (5, 0)):
        m = max(1, min(W, H, big))
        yield "boundary", "b1", W, H, [[min(W, big), 1, 1], [1, min(H, big), 10**8]] if m == 1 else \
            [[min(max(W, H), big), 1, 1], [1, 1, 10**8], [m, m, 2]]
        yield "boundary", "b2", W, H, [[1, 1, 10**8 + 1]]
    rows = [[1 + (i % 7), 1, 10**8] for i in range(10**4)]
    yield "boundary", "n1e12", 10, 10, rows
    yield "boundary", "n1e12p1", 10, 10, rows[:-1] + [[1, 1, 10**8], [2, 2, 1]]
    # dtype thresholds: max_dim + max_size + 1 and n_items + 1 around every signed limit
    for thr in (127, 32767, 2**31 - 1):
        for d in (-2, -1, 0, 1, 2):
            v = thr + d
            md = v // 2
            ms = v - 1 - md
            if 1 <= ms <= md:
                yield "dtype", "d", md, 3, [[ms, 1, 1], [1, 2, 3]]
                yield "dtype", "d", 3, md, [[1, ms, 1]]
            if v - 1 >= 1:
                n_it = v - 1
                rows, left = [], n_it
                while left > 0:
                    r = min(left, 10**8)
                    rows.append([1, 1, r])
                    left -= r
                yield "dtype", "dn", 2, 2, rows
    # names
    for nm in ("x", "a_b", "A9", "a__b", "_a", "a_", "", "a;b", "a,b", "a b", "a-b", "a.b", "inst01n"):
        yield "names", nm, 10, 5, [[3, 5, 1], [2, 5, 2]]
    # item does not fit / fits rotated only
    for rows in ([[6, 6, 1]], [[10, 5, 1]], [[5, 10, 1]], [[11, 1, 1]], [[10, 6, 1]], [[-1, 2, 1]], [[2, 2, -1]]):
        yield "fit", "f", 10, 5, rows
    # structured random
    for _ in range(250 if quick else 5000):
        small = rng.choice([1, 2, 3, 9, 10, 50, 99, 100, 1000])
        large = rng.choice([1, 2, 9, 10, 99, 100, 1000, 12345, 10**6, 10**9, 10**12])
        W, H = (small, large) if rng.random() < 0.5 else (large, small)
        k = rng.choice([1, 1, 2, 3, 5, 8, 20])
        rows = []
        for _ in range(k):
            lo, hi = min(W, H), max(W, H)
            if rng.random() < 0.5:      # a long thin item (unit height), any repetition count
                a, b = rng.randint(1, hi), 1
                rep = rng.choice([1, 1, 2, 3, 10, 11, 100, 99999, 10**8])
            else:
                a, b = rng.randint(1, min(hi, 1000)), rng.randint(1, lo)
                rep = rng.choice([1, 1, 1, 2, 3, 10, 11, 100])
            if rng.random() < 0.03:
                a = hi + 1
            w, h = (a, b) if rng.random() < 0.5 else (b, a)
            rows.append([w, h, rep])
        yield "random", rng.choice(["r", "r1", "abc_9", "Zz"]), W, H, rows


def shipped_lines(ck: Check):
    """the raw compact strings of the shipped instances (`instances.txt`, what `from_resource` parses)"""
    from .common import REPO
    lines = [ln.strip() for ln in (REPO / "moptipyapps" / "binpacking2d" / "instances.txt").read_text().splitlines()]
    lines = [ln for ln in lines if ln and not ln.startswith("#")]
    return lines[::40] if ck.quick else lines[::3]


def malformed_compact(ck: Check):
    rng = ck.rng
    base = ["x;2;500;50;3,5;2,5,2", "ab1;1;7;7;7,7", "q;3;10;20;2,2;1,1,100000000;5,5,3",
            "big;2;1000000000000;1;1000000000000,1;1,1,99"]
    out = []
    for b in base:
        out.append(b)
        for i in range(len(b)):                      # every truncation
            out.append(b[:i])
        for i, c in enumerate(b):                    # separators exchanged / damaged
            if c in ";,":
                for r in (";", ",", " ", ":", ";;", ",,"):
                    if r != c:
                        out.append(b[:i] + r + b[i + 1:])
        toks = b.split(";")
        for i in range(len(toks)):                   # tokens replaced
            for r in ("x", "", "1.5", "-3", "0", "1e3", "0x10", "--1", "1,", ",1", "1,2,3,4", "3,5,1", "1,x", "1,1,x",
                      "1,1,0", "1,1,100000001", "1000000000001"):
                out.append(";".join(toks[:i] + [r] + toks[i + 1:]))
        out.append(";".join([toks[0], "100000001"] + toks[2:]))      # n beyond the limit
        out.append(b + ";9,9")                       # extra tokens are ignored by the reader
        out.append(b + ";")
        out.append(";".join([toks[0], str(int(toks[1]) + 1)] + toks[2:]))   # n too large
        if int(toks[1]) > 1:
            out.append(";".join([toks[0], str(int(toks[1]) - 1)] + toks[2:]))  # n smaller: rest ignored
    for _ in range(60 if ck.quick else 600):
        b = rng.choice(base)
        i = rng.randrange(len(b))
        out.append(b[:i] + rng.choice("0123456789;,x-") + b[i + (rng.random() < 0.5):])
    return out


def stream_instances(ck: Check, ops, expect):
    from moptipyapps.binpacking2d.instance import Instance
    from moptipyapps.binpacking2d.instgen.instance_space import InstanceSpace
    for stream, name, W, H, rows in gen_instances(ck):
        ck.count("inst_" + stream)
        line = f"txtI {cps(name)} ; {W} {H} ; " + " ".join(" ".join(map(str, r)) for r in rows)
        try:
            inst = Instance(name, W, H, [list(r) for r in rows])
        except ERRS:
            inst = None
        ops.append(line)
        ck.case(line if len(rows) < 50 else f"{stream}:{name}:{W}x{H}:{len(rows)} rows", nontrivial=inst is not None)
        if inst is None:
            expect.append(("inst", stream, line, "ERR", None))
            ck.count("inst_rejected")
            continue
        s = inst.to_compact_str()
        ck.count("inst_dtype_" + str(inst.dtype))
        if any(r[2] == 1 for r in rows):
            ck.count("inst_with_elided_rep")
        if any(r[2] > 1 for r in rows):
            ck.count("inst_with_rep")
        ctx = {"name": name, "W": W, "H": H, "rows": rows if len(rows) <= 12 else f"<{len(rows)} rows>"}
        # C: the property on the implementation: from_compact_str(to_compact_str(I)) == I field by field
        try:
            with time_limit(20):
                back = Instance.from_compact_str(s)
            same = (back.name == inst.name and back.bin_width == inst.bin_width and back.bin_height == inst.bin_height
                    and back.shape == inst.shape and back.dtype == inst.dtype
                    and back.tolist() == inst.tolist() and inst.tolist() == [list(r) for r in rows])
            ck.spec(same, "compact_fields", "from_compact_str(to_compact_str(I)) differs from I in name/bin/rows/dtype", ctx)
            ck.spec(back.n_items == inst.n_items and back.n_different_items == inst.n_different_items
                    and back.total_item_area == inst.total_item_area and back.lower_bound_bins == inst.lower_bound_bins,
                    "compact_derived", "derived attributes (n_items, n_different_items, area, lower bound) differ after round trip", ctx)
            try:
                sp = InstanceSpace(inst)
            except ERRS:     # the instance-generation space has tighter limits than Instance (1e9, no rotated items)
                sp = None
                ck.count("inst_space_not_constructible")
            if sp is not None:
                x2 = sp.from_str(sp.to_str([inst]))
                ck.spec(len(x2) == 1 and x2[0].to_compact_str() == s and x2[0].tolist() == inst.tolist()
                        and x2[0].name == inst.name, "space_roundtrip", "InstanceSpace.from_str(to_str([I])) != [I]", ctx)
                ck.count("inst_space")
        except ERRS as e:
            ck.spec(False, "compact_fields", f"from_compact_str(to_compact_str(I)) raised {type(e).__name__}: {e}", ctx)
        except Timeout:
            ck.spec(False, "compact_fields", "from_compact_str(to_compact_str(I)) did not return within 20 s "
                    "(it builds an instance with other numbers than were written)", ctx)
        expect.append(("inst", stream, line, f"s={cps(s)} back=1 " + inst_fields(inst, False), None))
    # shipped instances: text -> object -> text
    for ln in shipped_lines(ck):
        ck.count("inst_shipped_lines")
        ctx = {"line": ln[:200]}
        try:
            with time_limit(20):
                inst = Instance.from_compact_str(ln)
            ck.spec(inst.to_compact_str() == ln, "compact_text_roundtrip",
                    "to_compact_str(from_compact_str(line)) differs from the shipped line", ctx)
            iout = inst_fields(inst, True)
        except ERRS as e:
            ck.spec(False, "compact_text_roundtrip", f"from_compact_str rejects a shipped line: {type(e).__name__}: {e}", ctx)
            iout = "ERR"
        except Timeout:
            ck.spec(False, "compact_text_roundtrip", "from_compact_str did not return within 20 s on a shipped line", ctx)
            continue
        line = f"txtIp {cps(ln)}"
        ops.append(line)
        ck.case(f"shipped {ln[:80]}")
        expect.append(("parse", "shipped", line, iout, ln))
    for s in malformed_compact(ck):
        line = f"txtIp {cps(s)}"
        try:
            with time_limit(20):
                inst = Instance.from_compact_str(s)
            iout = inst_fields(inst, True)
            ck.count("parse_accepted")
        except ERRS:
            iout = "ERR"
            ck.count("parse_rejected")
        except Timeout:
            iout = "TIMEOUT"
            ck.count("parse_timeout")
        ops.append(line)
        ck.case(line, nontrivial=iout != "ERR")
        expect.append(("parse", "malformed", line, iout, s))


# ------------------------------------------------------------------ game plans
_TTP = {}
_STRICT = re.compile(r"-?[0-9]+(;-?[0-9]+)*")


def strict_first_line(t: str) -> bool:
    """is the part of the text that goes to np.fromstring a ';'-list of plain decimal integers?  (numpy itself is more
    lenient: '-' reads as 0, '1.5'/'1e1' as 1 when last, blanks/'+'/trailing ';' are tolerated — outside the model)"""
    t = t.lstrip()
    i = t.find("\n")
    if i > 0:
        t = t[:i]
    return _STRICT.fullmatch(t.rstrip()) is not None



def ttp_instance(n: int, rounds: int, odd_names: bool):
    import numpy as np
    from moptipyapps.ttp.instance import Instance
    key = (n, rounds, odd_names)
    if key not in _TTP:
        m = np.zeros((n, n), dtype=np.int64)
        for i in range(n):
            for j in range(i + 1, n):
                m[i, j] = m[j, i] = 1 + ((i * 7 + j * 13) % 9)
        ll = rounds * n - 1
        names = [(f"T{i};x" if i % 2 else f"@t{i}-") for i in range(n)] if odd_names else [f"t{i}" for i in range(n)]
        _TTP[key] = Instance(f"v{n}x{rounds}", m, names, rounds, 1, min(3, ll), 1, min(3, ll), 0, ll)
    return _TTP[key]


def gen_plans(ck: Check):
    rng, quick = ck.rng, ck.quick
    # exhaustive: 2 teams, 1 round: all 25 plans over -2..2; 2 rounds: all 625
    for vals in itertools.product(range(-2, 3), repeat=2):
        yield "exh", 2, 1, False, list(vals)
    alls = list(itertools.product(range(-2, 3), repeat=4))
    for vals in (rng.sample(alls, 120) if quick else alls):
        yield "exh", 2, 2, False, list(vals)
    for _ in range(150 if quick else 3000):
        n = rng.choice([2, 4, 4, 6, 8, 10, 12])
        rounds = rng.choice([1, 2, 2, 3])
        days = (n - 1) * rounds
        mode = rng.random()
        if mode < 0.4:     # a consistent day by day pairing with byes
            vals = []
            for _ in range(days):
                teams = list(range(1, n + 1))
                rng.shuffle(teams)
                row = [0] * n
                while len(teams) >= 2:
                    a, b = teams.pop(), teams.pop()
                    if rng.random() < 0.2:
                        continue   # both have a bye
                    row[a - 1], row[b - 1] = b, -a
                vals += row
        elif mode < 0.8:
            vals = [rng.randint(-n, n) for _ in range(days * n)]
        elif mode < 0.9:
            vals = [rng.choice([-n, n, 0]) for _ in range(days * n)]
        else:
            vals = [0] * (days * n)
        yield "random", n, rounds, rng.random() < 0.3, vals
    # dtype boundary of game_plan_dtype: 126/128 teams (int8 -> int16)
    for n in (126, 128):
        vals = [rng.choice([-n, n, rng.randint(-n, n)]) for _ in range((n - 1) * n)]
        yield "boundary", n, 1, False, vals


def malformed_plan_texts(ck: Check, n, rounds, s):
    rng = ck.rng
    first = s.split("\n")[0]
    rest = s[len(first):]
    toks = first.split(";")
    out = []
    cuts = range(len(first) + 1) if len(first) < 40 else sorted(rng.sample(range(len(first) + 1), 12))
    for i in cuts:
        out.append(s[:i])                                     # truncated inside the first line
    out.append(first)                                         # no table at all
    out.append(first + "\n")
    out.append("  \n\t" + s)                                  # leading white space is stripped
    out.append(first + "  " + rest)
    out.append(first.replace(";", ",") + rest)                # wrong separator
    out.append(first.replace(";", " ") + rest)
    for r in ("x", "", "1.5", str(n + 1), str(-n - 1), "300", "-200", "70000", "1e1"):
        i = rng.randrange(len(toks))
        out.append(";".join(toks[:i] + [r] + toks[i + 1:]) + rest)
    out.append(";".join(toks[:-1]) + rest)                    # one value missing
    out.append(";".join(toks + ["0"]) + rest)                 # one value too many
    out.append(rest.lstrip("\n"))                             # first line missing
    return out


def stream_plans(ck: Check, ops, expect):
    import numpy as np
    from moptipyapps.ttp.game_plan_space import GamePlanSpace
    seen_mal = 0
    for stream, n, rounds, odd, vals in gen_plans(ck):
        inst = ttp_instance(n, rounds, odd)
        space = GamePlanSpace(inst)
        x = space.create()
        x[:] = np.array(vals, dtype=np.int64).reshape(x.shape)
        s = space.to_str(x)
        ck.count(f"plan_n{n}")
        if 0 in vals:
            ck.count("plan_with_byes")
        line = f"txtG {n} {rounds} ; {' | '.join(cps(t) for t in inst.teams)} ; {' '.join(map(str, vals))}"
        ops.append(line)
        ck.case(line if len(line) < 400 else f"plan n={n} rounds={rounds} hash={hash(tuple(vals))}")
        ctx = {"n": n, "rounds": rounds, "plan": vals if len(vals) <= 64 else f"<{len(vals)} values>"}
        try:
            y = space.from_str(s)
            ck.spec(y.shape == x.shape and y.dtype == x.dtype and y.tolist() == x.tolist() and y.instance is inst
                    and x.tolist() == np.array(vals).reshape(x.shape).tolist(),
                    "plan_roundtrip", "GamePlanSpace.from_str(to_str(P)) != P", ctx)
        except ERRS as e:
            ck.spec(False, "plan_roundtrip", f"from_str(to_str(P)) raised {type(e).__name__}: {e}", ctx)
        expect.append(("plan", stream, line, f"s={cps(s)} ok=1 back=1", None))
        if (stream == "exh" and seen_mal < 12) or (stream == "random" and n <= 6 and seen_mal < (40 if ck.quick else 300)):
            seen_mal += 1
            for t in malformed_plan_texts(ck, n, rounds, s):
                l2 = f"txtGp {n} {rounds} ; {cps(t)}"
                with warnings.catch_warnings():
                    warnings.simplefilter("ignore")
                    try:
                        iout = "vals=" + ",".join(str(int(v)) for v in space.from_str(t).flatten())
                        ck.count("planparse_accepted")
                    except ERRS:
                        iout = "ERR"
                        ck.count("planparse_rejected")
                if iout != "ERR" and not strict_first_line(t):
                    ck.count("planparse_numpy_lenient_skipped")
                    continue
                ops.append(l2)
                ck.case(l2, nontrivial=False)
                expect.append(("planparse", "malformed", l2, iout, t))


# ------------------------------------------------------------------ orderings
def gen_orderings(ck: Check):
    rng, quick = ck.rng, ck.quick
    for n in (2, 3, 4):
        for p in itertools.permutations(range(n)):
            yield "exh", n, [0] * 0 + list(range(n)), list(p)       # distinct objects
    for _ in range(120 if quick else 2500):
        n = rng.choice([2, 3, 5, 8, 13, 40, 128, 129, 200, 257, 300])
        objs = list(range(n))
        for _ in range(rng.choice([0, 1, 3, n])):      # duplicate objects share one location
            objs.append(rng.randrange(n))
        rng.shuffle(objs)
        p = list(range(n))
        rng.shuffle(p)
        yield "random", n, objs, p


_ORD = {}


def ord_instance(objs):
    from moptipyapps.order1d.instance import Instance
    key = tuple(objs)
    if key not in _ORD:
        if len(_ORD) > 64:
            _ORD.clear()
        _ORD[key] = Instance.from_sequence_and_distance(
            list(objs), lambda a, b: abs(a - b), 2, 10, ("tag;a", "b"), lambda a: (f"o {a}", f"x{a % 3}"))
    return _ORD[key]


def stream_orderings(ck: Check, ops, expect):
    import numpy as np
    from moptipyapps.order1d.space import OrderingSpace
    mal = 0
    for stream, n, objs, p in gen_orderings(ck):
        inst = ord_instance(objs)
        assert inst.n == n
        space = OrderingSpace(inst)
        x = np.array(p, dtype=space.dtype)
        s = space.to_str(x)
        first = s.split("\n")[0]
        tail = s[len(first) + 1:]
        ck.count(f"ord_dtype_{space.dtype}")
        if len(objs) > n:
            ck.count("ord_with_duplicate_objects")
        line = f"txtO {n} ; {' '.join(map(str, p))} ; {cps(tail)}"
        ops.append(line)
        ck.case(f"ord n={n} objs={len(objs)} p={p[:40]}")
        ctx = {"n": n, "objects": objs[:60], "perm": p[:60]}
        try:
            y = space.from_str(s)
            ck.spec(y.dtype == x.dtype and y.shape == x.shape and y.tolist() == list(p), "ordering_roundtrip",
                    "OrderingSpace.from_str(to_str(x)) != x", ctx)
        except ERRS as e:
            ck.spec(False, "ordering_roundtrip", f"from_str(to_str(x)) raised {type(e).__name__}: {e}", ctx)
        ck.spec(s.startswith(first + "\n\n"), "ordering_layout", "first line is not followed by an empty line", ctx)
        expect.append(("ord", stream, line, f"s={cps(s)} ok=1 back=1", None))
        if n <= 5 and mal < (25 if ck.quick else 200):
            mal += 1
            toks = first.split(";")
            texts = [s[:i] for i in range(len(first) + 2)] + [
                first, first + "\n", " \n " + s, first + " \t\n" + tail, first.replace(";", ","), first.replace(";", " "),
                ";".join(toks[:-1]) + "\n" + tail, ";".join(toks + ["0"]), ";".join(toks[:-1] + [toks[0]]),
                ";".join(["x"] + toks[1:]), ";".join(toks[:-1] + ["1.5"]), ";".join([str(n)] + toks[1:]),
                ";".join(["-1"] + toks[1:]), ";".join(["256"] + toks[1:]), ";".join(["-256"] + toks[1:]), tail]
            for t in texts:
                l2 = f"txtOp {n} ; {cps(t)}"
                with warnings.catch_warnings():
                    warnings.simplefilter("ignore")
                    try:
                        iout = "vals=" + ",".join(str(int(v)) for v in space.from_str(t))
                        ck.count("ordparse_accepted")
                    except ERRS:
                        iout = "ERR"
                        ck.count("ordparse_rejected")
                if iout != "ERR" and not strict_first_line(t):
                    ck.count("ordparse_numpy_lenient_skipped")
                    continue
                ops.append(l2)
                ck.case(l2, nontrivial=False)
                expect.append(("ordparse", "malformed", l2, iout, t))


# ------------------------------------------------------------------ packings (text form only; C04 has the validator)
def stream_packings(ck: Check, ops, expect):
    import numpy as np
    import moptipyapps.binpacking2d.encodings.ibl_encoding_1 as e1
    from moptipyapps.binpacking2d.instance import Instance
    from moptipyapps.binpacking2d.packing_space import PackingSpace
    rng = ck.rng
    insts = [Instance("p1", 10, 8, [[3, 4, 2], [5, 5, 1], [2, 7, 3], [10, 1, 1]]),
             Instance("p2", 100, 200, [[30, 40, 5], [99, 1, 2], [50, 150, 1]]),
             Instance.from_resource("a01"), Instance.from_resource("beng01")]
    for inst in insts:
        space = PackingSpace(inst)
        for _ in range(3 if ck.quick else 30):
            perm = []
            for i in range(inst.n_different_items):
                perm += [(i + 1) * rng.choice([1, -1]) for _ in range(int(inst[i, 2]))]
            rng.shuffle(perm)
            y = space.create()
            nb = e1._decode(np.array(perm, dtype=inst.dtype), y, inst, inst.bin_width, inst.bin_height)
            y.n_bins = int(nb)
            s = space.to_str(y)
            vals = [int(v) for v in y.flatten()]
            line = f"txtP {y.dtype} ; {' '.join(map(str, vals))}"
            ops.append(line)
            ck.case(f"packing {inst.name} {hash(tuple(perm))}")
            ck.count("packings")
            ctx = {"instance": inst.name, "x": perm[:50]}
            try:
                z = space.from_str(s)
                ck.spec(z.tolist() == y.tolist() and z.dtype == y.dtype and z.n_bins == y.n_bins and z.instance is inst,
                        "packing_roundtrip", "PackingSpace.from_str(to_str(y)) != y", ctx)
            except ERRS as e:
                ck.spec(False, "packing_roundtrip", f"from_str(to_str(y)) raised {type(e).__name__}: {e}", ctx)
            expect.append(("packing", "decoded", line, f"s={cps(s)} back=1", None))


# ------------------------------------------------------------------ CSV: PackingResult
OBJ_NAMES = ["binCount", "binCountAndEmpty", "binCountAndLastEmpty", "binCountAndLastSkyline",
             "binCountAndLastSmall", "binCountAndLowestSkyline", "binCountAndSmall"]
BB_KEYS = ["bins.lowerBound", "bins.lowerBound.damv", "bins.lowerBound.geometric"]


def cc(s: str) -> str:
    return "c" + cps(s)


def uncc(t: str) -> str:
    assert t[:1] == "c", t
    return uncps(t[1:])


def fmap(m) -> str:
    return "|".join(f"{cc(k)}={int(v)}" for k, v in sorted(m.items()))


def er_cells(er):
    """(titles, cells) of one end result as moptipy's own writer renders it (set up on this record alone)"""
    from moptipy.evaluation.end_results import CsvWriter as ErW
    w = ErW().setup([er])
    return list(w.get_column_titles()), list(w.get_row(er))


def canon_rec(r) -> str:
    """canonical text of a PackingResult (all fields), the format of the driver's `read=`"""
    t, c = er_cells(r.end_result)
    er = "|".join(f"{cc(k)}={cc(v)}" for k, v in zip(t, c) if v != "")
    return (f"{er}/{r.n_items},{r.n_different_items},{r.bin_width},{r.bin_height}/"
            f"{fmap(r.objectives)}/{fmap(r.objective_bounds)}/{fmap(r.bin_bounds)}")


def canon_model_read(tok: str) -> str:
    """drop the blank cells of the embedded record from the driver's `read=` value"""
    if tok in ("ERR", ""):
        return tok
    out = []
    for rec in tok.split("~"):
        parts = rec.split("/")
        er = "|".join(kv_ for kv_ in parts[0].split("|") if not kv_.endswith("=c"))
        out.append("/".join([er] + parts[1:]))
    return "~".join(out)


def parse_csv_file(path):
    """header and rows of a pycommons CSV file (comment lines dropped) — the tokenisation is pycommons', not modelled"""
    hdr, rows = None, []
    for ln in open(path, encoding="utf-8").read().splitlines():
        i = ln.find("#")
        if i >= 0:
            ln = ln[:i]
        ln = ln.strip()
        if not ln:
            continue
        cells = [c.strip() for c in ln.split(";")]
        if hdr is None:
            hdr = cells
        else:
            rows.append(cells)
    return hdr, rows


def er_equal(a, b) -> bool:
    fs = ("algorithm", "instance", "objective", "encoding", "rand_seed", "best_f", "last_improvement_fe",
          "last_improvement_time_millis", "total_fes", "total_time_millis", "goal_f", "max_fes", "max_time_millis")
    return all(getattr(a, f) == getattr(b, f) and type(getattr(a, f)) is type(getattr(b, f)) for f in fs)


def real_experiment_results(ck: Check):
    """a few tiny real runs (2 algorithms x 2 encodings x 2 objectives x 2 instances x 2 seeds) -> PackingResults"""
    import shutil
    from moptipy.api.experiment import run_experiment
    from moptipyapps.binpacking2d import experiment as ex
    from moptipyapps.binpacking2d import packing_result as pr
    from moptipyapps.binpacking2d.encodings.ibl_encoding_1 import ImprovedBottomLeftEncoding1
    from moptipyapps.binpacking2d.encodings.ibl_encoding_2 import ImprovedBottomLeftEncoding2
    from moptipyapps.binpacking2d.instance import Instance
    from moptipyapps.binpacking2d.objectives.bin_count_and_last_empty import BinCountAndLastEmpty
    from moptipyapps.binpacking2d.objectives.bin_count_and_last_small import BinCountAndLastSmall
    d = ck.work / "exp"
    shutil.rmtree(d, ignore_errors=True)
    d.mkdir(parents=True)
    k = 0
    for enc in (ImprovedBottomLeftEncoding1, ImprovedBottomLeftEncoding2):
        for obj in (BinCountAndLastEmpty, BinCountAndLastSmall):
            k += 1

            def mk(algo, k=k, enc=enc, obj=obj):
                def f(ins):
                    e = algo(ins, enc, obj).set_max_fes(12 + k, True)
                    if k % 2 == 0:
                        e.set_max_time_millis(100000)
                    return e
                return f
            run_experiment(base_dir=str(d / f"o{k}"),
                           instances=[lambda: Instance.from_resource("a01"), lambda: Instance.from_resource("beng01")],
                           setups=[mk(ex.rls), mk(ex.fea)], n_runs=2, perform_warmup=False, perform_pre_warmup=False)
    res = []
    pr.from_logs(str(d), res.append)
    return res


def rand_result(ck: Check, objs, bbkeys, het: bool):
    """a PackingResult around a directly constructed real EndResult"""
    from moptipy.evaluation.end_results import EndResult
    from moptipyapps.binpacking2d.packing_result import PackingResult
    rng = ck.rng
    myobjs = list(objs)
    if het and len(myobjs) > 1 and rng.random() < 0.4:
        myobjs.remove(rng.choice(myobjs))
    bins = rng.randint(1, 50)
    vals, bounds = {}, {}
    for o in myobjs:
        lo = rng.choice([0, 1, bins, 10**6])
        v = bins if o == "binCount" else lo + rng.choice([0, 1, 7, 999, 10**9, 10**15])
        if o == "binCount":
            lo = rng.randint(1, bins)
        hi = v + rng.choice([0, 1, 10**6])
        vals[o], bounds[o + ".lowerBound"], bounds[o + ".upperBound"] = v, lo, hi
    mybb = [b for b in bbkeys if not (het and rng.random() < 0.3)]
    bb = {b: rng.randint(1, bins if "binCount" in vals else 10**9) for b in mybb}
    obj = rng.choice(myobjs)
    tf = rng.randint(1, 10**6)
    tt = rng.randint(0, 10**6)
    er = EndResult(rng.choice(["rls", "fea1p1_swap2", "a_b"]), rng.choice(["a01", "beng01", "inst_x"]), obj,
                   rng.choice([None, "ibf1", "ibf2"]), rng.getrandbits(64), vals[obj],
                   rng.randint(1, tf), rng.randint(0, tt), tf, tt,
                   rng.choice([None, None, min(vals[obj], bounds[obj + ".lowerBound"])]),
                   rng.choice([None, tf, tf + 5, 10**9]), rng.choice([None, tt + 1, 10**7]))
    nd = rng.choice([1, 5, 10**6])
    return PackingResult(er, rng.choice([nd, nd + 7, 10**12]), nd, rng.choice([1, 100, 10**12]),
                         rng.choice([1, 50, 10**12]), vals, bounds, bb)


def gen_result_sets(ck: Check, real):
    rng, quick = ck.rng, ck.quick
    if real:
        yield "real", real
        for _ in range(3 if quick else 30):
            yield "real_subset", rng.sample(real, rng.randint(1, len(real)))
    for _ in range(40 if quick else 1200):
        k = rng.choice([1, 1, 2, 3, 5, 9])
        objs = sorted(rng.sample(OBJ_NAMES, rng.choice([1, 2, 2, 3, 7])))
        bbk = rng.choice([BB_KEYS, BB_KEYS, BB_KEYS[:1], BB_KEYS[1:], [BB_KEYS[2]]])
        het = rng.random() < 0.5
        rs = [rand_result(ck, objs, bbk, het) for _ in range(k)]
        if all(len(r.bin_bounds) == 0 for r in rs):
            ck.count("domain_no_bin_bound_in_table_skipped")     # outside the domain (see stream_domain)
            continue
        yield ("random_het" if het else "random"), rs


def mutate_table(ck: Check, hdr, rows, n_er, own=None):
    """malformed / perturbed tables for the readers: (what, header, rows); only the columns of the packing classes
    (`own`, default: all after the first `n_er`) are damaged — the columns of the embedded moptipy records are read by
    moptipy's own (opaque) readers"""
    rng = ck.rng
    out = [("asis", hdr, rows)]
    n = len(hdr)
    own = list(range(n_er, n)) if own is None else own
    for _ in range(6):
        i = rng.choice(own)
        out.append((f"drop:{hdr[i]}", hdr[:i] + hdr[i + 1:], [r[:i] + r[i + 1:] for r in rows]))
        out.append((f"rename:{hdr[i]}", hdr[:i] + [hdr[i] + "X"] + hdr[i + 1:], rows))
        j = rng.choice(own)
        h2, r2 = list(hdr), [list(r) + [""] * (n - len(r)) for r in rows]
        h2[i], h2[j] = h2[j], h2[i]
        out.append((f"swaptitles:{hdr[i]}:{hdr[j]}", h2, rows))       # cells now under the wrong titles
        for r in r2:
            r[i], r[j] = r[j], r[i]
        out.append((f"swapcols:{hdr[i]}:{hdr[j]}", h2, r2))            # a permuted table reads the same
        k = rng.randrange(len(rows))
        r3 = [list(r) + [""] * (n - len(r)) for r in rows]
        r3[k][i] = rng.choice(["", "x", "1.5x", "-1"])
        out.append((f"cell:{hdr[i]}={r3[k][i]}", hdr, r3))
    out.append(("dup", hdr + [hdr[-1]], rows))
    out.append(("long", hdr, [rows[0] + [""] * (n - len(rows[0])) + ["1"]] + rows[1:]))
    out.append(("nobins", [h for h in hdr if not h.startswith("bins.")],
                [[c for h, c in zip(hdr, r + [""] * n) if not h.startswith("bins.")] for r in rows]))
    ub = [i for i, h in enumerate(hdr) if h.endswith(".upperBound")]
    if ub:
        i = ub[-1]
        out.append(("oddbounds", hdr[:i] + hdr[i + 1:], [r[:i] + r[i + 1:] for r in rows]))
    out.append(("norows", hdr, []))
    out.append(("short", hdr, [r[:max(1, len(r) // 2)] for r in rows]))
    return out


def write_table(path, hdr, rows):
    with open(path, "w", encoding="utf-8") as f:
        f.write("# perturbed table\n" + ";".join(hdr) + "\n")
        for r in rows:
            f.write(";".join(r) + "\n")


def stream_results(ck: Check, ops, expect, real):
    from moptipy.evaluation.end_results import CsvWriter as ErW
    from moptipyapps.binpacking2d import packing_result as pr
    d = ck.work / "csv"
    d.mkdir(exist_ok=True)
    n_mut = 0
    for idx, (stream, rs) in enumerate(gen_result_sets(ck, real)):
        ck.count("csvR_" + stream)
        ck.count(f"csvR_records", len(rs))
        srt = sorted(rs)
        path = str(d / f"r{idx % 50}.csv")
        ctx = {"stream": stream, "records": [canon_rec(r) for r in srt[:6]]}
        try:
            pr.to_csv(rs, path)
        except ERRS as e:
            ck.spec(False, "csv_write", f"to_csv raised {type(e).__name__}: {e}", ctx)
            continue
        hdr, rows = parse_csv_file(path)
        # --- C: the property on the implementation, field by field
        try:
            back = list(pr.from_csv(path))
        except ERRS as e:
            ck.spec(False, "csv_read", f"from_csv(to_csv(rs)) raised {type(e).__name__}: {e}", ctx)
            back = None
        if back is not None:
            ck.spec(len(back) == len(srt), "csv_count", f"{len(srt)} records written, {len(back)} read", ctx)
            for a, b in zip(srt, back):
                c2 = {"written": canon_rec(a), "read": canon_rec(b)}
                ck.spec(er_equal(a.end_result, b.end_result), "csv_end_result", "embedded end result differs after round trip", c2)
                ck.spec((a.n_items, a.n_different_items, a.bin_width, a.bin_height)
                        == (b.n_items, b.n_different_items, b.bin_width, b.bin_height), "csv_fixed",
                        "nItems/nDifferentItems/binWidth/binHeight differ after round trip", c2)
                ck.spec(dict(a.objectives) == dict(b.objectives), "csv_objectives", "objective values differ after round trip", c2)
                ck.spec(dict(a.objective_bounds) == dict(b.objective_bounds), "csv_objective_bounds",
                        "objective bounds differ after round trip", c2)
                ck.spec(dict(a.bin_bounds) == dict(b.bin_bounds), "csv_binbound_keys",
                        f"bin bounds differ after round trip: {dict(a.bin_bounds)} -> {dict(b.bin_bounds)}", c2)
        # --- B: the model's table and the model's reader against the real file
        erw = ErW().setup(r.end_result for r in srt)
        titles = list(erw.get_column_titles())
        recs = []
        for r in srt:
            cells = list(erw.get_row(r.end_result))
            recs.append(f"{'|'.join(cc(c) for c in cells)} / {cc(r.end_result.objective)} / {int(r.end_result.best_f)} / "
                        f"{r.n_items} {r.n_different_items} {r.bin_width} {r.bin_height} / {fmap(r.objectives)} / "
                        f"{fmap(r.objective_bounds)} / {fmap(r.bin_bounds)}")
        line = f"csvR {'|'.join(cc(t) for t in titles)} ; " + " ; ".join(recs)
        ops.append(line)
        ck.case(f"csvR {stream} " + " ~ ".join(canon_rec(r) for r in srt)[:3000])
        iout = (f"hdr={'|'.join(cc(h) for h in hdr)} rows={'/'.join('|'.join(cc(c) for c in r) for r in rows)} "
                f"read=" + ("ERR" if back is None else "~".join(canon_rec(b) for b in back)))
        expect.append(("csvR", stream, line, iout, None))
        opt = [k for k in ("encoding", "goalF", "maxFEs", "maxTimeMillis") if k in hdr]
        ck.count("csvR_optcols_" + ("+".join(opt) if opt else "none"))
        if any("" in r or len(r) < len(hdr) for r in rows):
            ck.count("csvR_tables_with_blank_cells")
        if any(len(r) < len(hdr) for r in rows):
            ck.count("csvR_tables_with_trimmed_rows")
        # --- malformed / perturbed tables: both readers
        if n_mut < (12 if ck.quick else 150) and len(rs) <= 5:
            n_mut += 1
            for what, h2, r2 in mutate_table(ck, hdr, rows, len(titles)):
                p2 = str(d / "mut.csv")
                write_table(p2, h2, r2)
                try:
                    b2 = list(pr.from_csv(p2))
                    iout2 = "read=" + "~".join(canon_rec(b) for b in b2)
                    ck.count("csvRp_accepted")
                except ERRS:
                    iout2 = "read=ERR"
                    ck.count("csvRp_rejected")
                l2 = f"csvRp {'|'.join(cc(t) for t in h2)}" + "".join(" ; " + "|".join(cc(c) for c in r) for r in r2)
                ops.append(l2)
                ck.case(f"csvRp {what} {l2[:200]}", nontrivial=False)
                expect.append(("csvRp", what.split(":")[0], l2, iout2, None))


# ------------------------------------------------------------------ CSV: PackingStatistics
def deep_equal(a, b) -> bool:
    """field-by-field equality of (nested) dataclass objects, numbers compared with their types"""
    import dataclasses
    a, b = norm_stat(a), norm_stat(b)
    if dataclasses.is_dataclass(a) and dataclasses.is_dataclass(b):
        return type(a) is type(b) and all(deep_equal(getattr(a, f.name), getattr(b, f.name)) for f in dataclasses.fields(a))
    return type(a) is type(b) and a == b


def table_text(hdr, rows) -> str:
    return f"{'|'.join(cc(h) for h in hdr)}!{'/'.join('|'.join(cc(c) for c in r) for r in rows)}"


def canon_gen2(tok: str, n_packing: int) -> str:
    """second-generation table with the columns of the embedded (opaque) record sorted by title: the driver's stand-in
    codec for moptipy's end statistics does not know moptipy's column order; `n_packing` = number of trailing columns
    that belong to the packing classes"""
    if "!" not in tok:
        return tok
    h, r = tok.split("!", 1)
    hdr = h.split("|")
    rows = [x.split("|") for x in r.split("/")] if r else []
    n_es = len(hdr) - n_packing
    if n_es <= 0:
        return tok
    order = sorted(range(n_es), key=lambda i: hdr[i]) + list(range(n_es, len(hdr)))
    rows = [x + ["c"] * (len(hdr) - len(x)) for x in rows]
    out_rows = []
    for x in rows:
        y = [x[i] for i in order]
        while y and y[-1] == "c":
            y.pop()
        out_rows.append("|".join(y))
    return "|".join(hdr[i] for i in order) + "!" + "/".join(out_rows)


def norm_stat(x):
    """moptipy keeps a budget that is the same in all runs as a plain number but reads it back as a single-valued
    SampleStatistics: compare such values as numbers (representation inside the opaque library record)"""
    if hasattr(x, "minimum") and hasattr(x, "maximum") and x.minimum == x.maximum:
        return x.minimum
    return x


def stat_sets(ck: Check, real):
    """PackingStatistics sets via the real from_packing_results; goal_f homogeneous per table (the heterogeneous case
    fails inside moptipy's own codec: known finding, produced separately)"""
    from moptipyapps.binpacking2d import packing_statistics as ps
    rng, quick = ck.rng, ck.quick

    def stats_of(results):
        st = []
        ps.from_packing_results(results, st.append)
        return st
    if real:
        yield "real", stats_of(real), False
        for _ in range(2 if quick else 20):
            sub = rng.sample(real, rng.randint(2, len(real)))
            yield "real_subset", stats_of(sub), False
    for it in range(30 if quick else 800):
        objs = sorted(rng.sample(OBJ_NAMES, rng.choice([1, 2, 2, 3, 7])))
        bbk = rng.choice([BB_KEYS, BB_KEYS, BB_KEYS[:1], BB_KEYS[1:]])
        goal_mode = rng.choice(["none", "all", "all"]) if it % 10 else "mixed"
        groups = []
        for g in range(rng.choice([1, 2, 3, 4])):
            algo = rng.choice(["rls", "fea1p1_swap2", "a_b"]) + str(g)
            inst = rng.choice(["a01", "beng01"])
            obj = rng.choice(objs)
            enc = rng.choice([None, "ibf1", "ibf2"])
            mf = rng.choice([None, 100, 10**6])
            mt = rng.choice([None, 5000])
            goal = (1 if goal_mode == "all" else None) if goal_mode != "mixed" else (1 if g % 2 == 0 else None)
            bins_lo = rng.randint(1, 5)
            bounds = {}
            for o in objs:
                bounds[o + ".lowerBound"] = bins_lo if o == "binCount" else rng.choice([0, 1, 100])
                bounds[o + ".upperBound"] = 10**7
            bb = {b: rng.randint(1, bins_lo) for b in bbk}
            same = rng.random() < 0.3
            base = {o: (bins_lo + 2 if o == "binCount" else rng.randint(200, 10**6)) for o in objs}
            for seed in range(rng.choice([1, 2, 3, 5])):
                vals = {o: (v if same else v + (rng.randint(0, 3) if o == "binCount" else rng.randint(0, 1000)))
                        for o, v in base.items()}
                groups.append((algo, inst, obj, enc, seed, vals, bounds, bb, goal, mf, mt))
        from moptipy.evaluation.end_results import EndResult
        from moptipyapps.binpacking2d.packing_result import PackingResult
        res = []
        for algo, inst, obj, enc, seed, vals, bounds, bb, goal, mf, mt in groups:
            tf = rng.randint(5, 100)
            er = EndResult(algo, inst, obj, enc, 1000 + seed, vals[obj], rng.randint(1, tf), rng.randint(0, 50), tf,
                           rng.randint(50, 100), goal, mf if mf is None else max(mf, tf), mt)
            res.append(PackingResult(er, 24, 20, 100, 50, vals, bounds, bb))
        try:
            st = stats_of(res)
        except ERRS:
            ck.count("csvS_from_packing_results_rejected")
            continue
        yield ("random_goal_mixed" if goal_mode == "mixed" and len({g[8] for g in groups}) > 1 else "random"), st, \
            goal_mode == "mixed" and len({g[8] for g in groups}) > 1


def stat_rec_line(r, esw, titles, objs, ssw):
    """one SREC of the driver protocol from a real PackingStatistics and the real (set-up) moptipy writers"""
    cells = list(esw.get_row(r.end_statistics))
    sss = []
    for o in objs:
        st = r.objectives[o]
        tt = list(ssw[o].get_column_titles())
        cc_ = list(ssw[o].get_row(st))
        use = ["" if t == o else t[len(o) + 1:] for t in tt]
        sss.append(f"{cc(o)}:{cc(str(st.n))}:" + "&".join(f"{cc(u)}={cc(c)}" for u, c in zip(use, cc_)))
    return (f"{'|'.join(cc(c) for c in cells)} / {cc(r.end_statistics.objective)} / "
            f"{r.n_items} {r.n_different_items} {r.bin_width} {r.bin_height} / {'|'.join(sss)} / "
            f"{fmap(r.objective_bounds)} / {fmap(r.bin_bounds)}")


def stream_statistics(ck: Check, ops, expect, real):
    from moptipy.evaluation.end_statistics import CsvWriter as EsW
    from pycommons.math.sample_statistics import CsvWriter as SsW
    from moptipyapps.binpacking2d import packing_statistics as ps
    d = ck.work / "csv"
    d.mkdir(exist_ok=True)
    n_mut = 0
    for idx, (stream, st, goal_mixed) in enumerate(stat_sets(ck, real)):
        ck.count("csvS_" + stream)
        ck.count("csvS_records", len(st))
        srt = sorted(st)
        path, path2 = str(d / f"s{idx % 50}.csv"), str(d / "s_gen2.csv")
        ctx = {"stream": stream, "n": len(st), "algorithms": sorted({s_.end_statistics.algorithm for s_ in st}),
               "goal_f": [s_.end_statistics.goal_f for s_ in srt]}
        try:
            ps.to_csv(st, path)
        except ERRS as e:
            ck.spec(False, "csvS_write", f"to_csv raised {type(e).__name__}: {e}", ctx)
            continue
        hdr, rows = parse_csv_file(path)
        try:
            back = list(ps.from_csv(path))
        except ERRS as e:
            if goal_mixed and "None" in str(e):
                # the installed moptipy writes str(None) for successN when goal_f is present in some records only
                ck.spec(False, "stats_goal_mixed_moptipy",
                        f"PackingStatistics table with goal_f present in some records only cannot be read back: {e}", ctx)
                ck.count("csvS_known_moptipy_defect")
            else:
                ck.spec(False, "csvS_read", f"from_csv(to_csv(rs)) raised {type(e).__name__}: {e}", ctx)
            continue
        ck.spec(len(back) == len(srt), "csvS_count", f"{len(srt)} records written, {len(back)} read", ctx)
        for a, b in zip(srt, back):
            c2 = {"algorithm": a.end_statistics.algorithm, "instance": a.end_statistics.instance}
            ck.spec(deep_equal(a.end_statistics, b.end_statistics), "csvS_end_statistics",
                    "embedded end statistics differ after round trip", c2)
            ck.spec((a.n_items, a.n_different_items, a.bin_width, a.bin_height)
                    == (b.n_items, b.n_different_items, b.bin_width, b.bin_height), "csvS_fixed",
                    "nItems/nDifferentItems/binWidth/binHeight differ after round trip", c2)
            ck.spec(sorted(a.objectives) == sorted(b.objectives)
                    and all(deep_equal(a.objectives[o], b.objectives[o]) for o in a.objectives), "csvS_objectives",
                    "objective statistics differ after round trip", c2)
            ck.spec(dict(a.objective_bounds) == dict(b.objective_bounds), "csvS_objective_bounds",
                    "objective bounds differ after round trip", c2)
            ck.spec(dict(a.bin_bounds) == dict(b.bin_bounds), "csv_binbound_keys",
                    f"bin bounds differ after round trip: {dict(a.bin_bounds)} -> {dict(b.bin_bounds)}", c2)
        ps.to_csv(back, path2)
        hdr2, rows2 = parse_csv_file(path2)
        ck.spec((hdr2, rows2) == (hdr, rows), "csvS_second_generation", "writing the read-back records gives a different table",
                {"stream": stream, "header": hdr, "header2": hdr2})
        # --- B: the model's table, and the table the model writes from what its reader returned
        if goal_mixed:
            continue   # the embedded codec itself is broken there
        esw = EsW().setup(r.end_statistics for r in srt)
        titles = list(esw.get_column_titles())
        objs = sorted({o for r in srt for o in r.objectives})
        ssw = {o: SsW(scope=o, n_not_needed=True).setup(r.objectives[o] for r in srt) for o in objs}
        line = f"csvS {'|'.join(cc(t) for t in titles)} ; " + " ; ".join(stat_rec_line(r, esw, titles, objs, ssw) for r in srt)
        ops.append(line)
        ck.case(f"csvS {stream} {table_text(hdr, rows)[:3000]}")
        npk = len(hdr) - len(titles)
        iout = (f"hdr={'|'.join(cc(h) for h in hdr)} rows={'/'.join('|'.join(cc(c) for c in r) for r in rows)} "
                f"gen2={canon_gen2(table_text(hdr2, rows2), npk)}")
        expect.append(("csvS", stream, line, iout, npk))
        single = [o for o in objs if o in hdr]
        ck.count("csvS_objectives_single_valued", len(single))
        ck.count("csvS_objectives_multi_valued", len(objs) - len(single))
        opt = [k for k in ("encoding", "goalF", "maxFEs", "maxTimeMillis") if k in hdr]
        ck.count("csvS_optcols_" + ("+".join(opt) if opt else "none"))
        if n_mut < (10 if ck.quick else 120) and len(st) <= 4:
            n_mut += 1
            own = [i for i, h in enumerate(hdr) if i >= len(titles) and (
                h in ("binHeight", "binWidth", "nItems", "nDifferentItems") or h.startswith("bins.")
                or h.endswith((".lowerBound", ".upperBound")))]
            for what, h2, r2 in mutate_table(ck, hdr, rows, len(titles), own):
                if what == "norows":
                    continue    # to_csv of an empty list is not a table
                p2 = str(d / "smut.csv")
                write_table(p2, h2, r2)
                try:
                    b2 = list(ps.from_csv(p2))
                    ps.to_csv(b2, path2)
                    h3, r3 = parse_csv_file(path2)
                    npk2 = len(h3) - len([t for t in h3 if t in titles])
                    iout2 = "gen2=" + canon_gen2(table_text(h3, r3), npk2)
                    ck.count("csvSp_accepted")
                except ERRS:
                    iout2 = "gen2=ERR"
                    ck.count("csvSp_rejected")
                l2 = f"csvSp {'|'.join(cc(t) for t in h2)}" + "".join(" ; " + "|".join(cc(c) for c in r) for r in r2)
                ops.append(l2)
                ck.case(f"csvSp {what} {l2[:200]}", nontrivial=False)
                expect.append(("csvSp", what.split(":")[0], l2, iout2, set(titles)))


def stream_domain(ck: Check, ops, expect):
    """records outside the domain of csv_roundtrip (user-supplied bin_bounds: empty, or keys outside the scope
    'bins.lowerBound'): accepted by the constructors, not round-trippable.  Lead's decision: domain restriction, no
    finding.  They are only counted, and the model's reader is compared with the real one on the written table."""
    from moptipy.evaluation.end_results import CsvWriter as ErW, EndResult
    from moptipyapps.binpacking2d import packing_result as pr
    d = ck.work / "csv"
    d.mkdir(exist_ok=True)
    for tag, bb in (("empty", {}), ("foreign_key", {"bins.lowerBound": 2, "foo": 2}), ("foreign_only", {"myBound": 1}),
                    ("bound_like_key", {"bins.lowerBound": 2, "x.lowerBound": 1})):
        # (a key 'bins.lowerBound.bins.lowerBound' would collide with 'bins.lowerBound' after re-scoping: Python's dict
        #  keeps the later one; collisions of use-keys are not modelled, BBKey excludes that key)
        er = EndResult("a1", "inst1", "binCount", "ibf1", 77, 5, 3, 4, 10, 20, None, 100, None)
        r = pr.PackingResult(er, 10, 5, 100, 50, {"binCount": 5}, {"binCount.lowerBound": 1, "binCount.upperBound": 10}, bb)
        path = str(d / "dom.csv")
        pr.to_csv([r], path)
        hdr, rows = parse_csv_file(path)
        try:
            back = list(pr.from_csv(path))
            same = dict(back[0].bin_bounds) == bb
            iread = "~".join(canon_rec(b) for b in back)
        except ERRS:
            same, iread = False, "ERR"
        ck.count(f"domain_{tag}_" + ("roundtrips" if same else "does_not_roundtrip"))
        erw = ErW().setup([er])
        line = (f"csvR {'|'.join(cc(t) for t in erw.get_column_titles())} ; "
                f"{'|'.join(cc(c) for c in erw.get_row(er))} / {cc('binCount')} / 5 / 10 5 100 50 / {fmap(r.objectives)} / "
                f"{fmap(r.objective_bounds)} / {fmap(bb)}")
        ops.append(line)
        ck.case("domain " + tag, nontrivial=False)
        expect.append(("csvR", "domain_" + tag, line,
                       f"hdr={'|'.join(cc(h) for h in hdr)} rows={'/'.join('|'.join(cc(c) for c in x) for x in rows)} read={iread}", None))


# ------------------------------------------------------------------ driver
def stream_float_bounds(ck: Check) -> None:
    """Implementation-only oracle (no model: the Lean CSV model has integer cells): PackingResult / PackingStatistics
    declare objective values and bounds as `int | float`; a user-defined objective has float bounds and, by moptipy's
    default, an INFINITE upper bound.  from_csv(to_csv(rs)) must return the same bounds for such records too
    (found missing by seeded change C19-csv-bounds-int-parse)."""
    import math
    from moptipy.evaluation.end_results import EndResult
    from moptipyapps.binpacking2d import packing_result as pr
    from moptipyapps.binpacking2d import packing_statistics as ps
    from moptipyapps.binpacking2d.packing_result import PackingResult
    rng = ck.rng
    d = ck.work / "csvf"
    d.mkdir(exist_ok=True)
    for k in range(6 if ck.quick else 40):
        objs = ["binCount", "userObj"] + (["zz"] if rng.random() < 0.5 else [])
        ubs = {"userObj": rng.choice([math.inf, 99.5, 1e300]), "zz": rng.choice([math.inf, 7, 0.75])}
        lbs = {"userObj": rng.choice([0.0, 0.5, -3.25]), "zz": rng.choice([0, 0.125])}
        # bounds are a property of (instance, objective): the same for every record (the statistics reject anything else)
        ubs = {o: max(ubs[o], lbs[o] + 2.5) for o in ubs}
        rs = []
        for a in range(rng.randint(1, 2)):
            for sd in range(rng.randint(1, 3)):
                bins = rng.randint(2, 9)
                vals = {"binCount": bins}
                bounds = {"binCount.lowerBound": 1, "binCount.upperBound": 20}
                for o in objs[1:]:
                    vals[o] = lbs[o] + rng.choice([0, 1, 2.5])
                    bounds[o + ".lowerBound"], bounds[o + ".upperBound"] = lbs[o], ubs[o]
                tf = rng.randint(5, 100)
                er = EndResult(f"algo{a}", "inst1", "binCount", "ibf1", 1000 + 17 * sd + a, bins, rng.randint(1, tf), 3, tf, 9,
                               None, rng.choice([None, tf]) if a else tf, None)
                rs.append(PackingResult(er, 12, 4, 30, 20, vals, bounds, {"bins.lowerBound": 1, "bins.lowerBound.geometric": 1}))
        ctx = {"objective_bounds": [dict(r.objective_bounds) for r in rs[:3]]}
        path = str(d / f"f{k % 10}.csv")
        ck.count("csvR_float_bounds")
        try:
            pr.to_csv(rs, path)
            back = list(pr.from_csv(path))
            key = lambda r: (r.end_result.algorithm, r.end_result.rand_seed)   # noqa: E731
            same = len(back) == len(rs) and all(
                dict(a.objective_bounds) == dict(b.objective_bounds) and dict(a.objectives) == dict(b.objectives)
                for a, b in zip(sorted(rs, key=key), sorted(back, key=key)))    # numeric equality: 3.0 == 3, inf == inf
            ck.spec(same, "csv_float_bounds",
                    "objective values/bounds (float, inf) differ after the CSV round trip of packing results", ctx)
        except ERRS as e:
            ck.spec(False, "csv_float_bounds", f"packing results with float/inf objective bounds: {type(e).__name__}: {e}", ctx)
            continue
        try:
            st = []
            ps.from_packing_results(rs, st.append)
            spath = str(d / f"s{k % 10}.csv")
            ps.to_csv(st, spath)
            sback = list(ps.from_csv(spath))
            skey = lambda r: (r.end_statistics.algorithm, r.end_statistics.instance)   # noqa: E731
            ssame = len(sback) == len(st) and all(dict(a.objective_bounds) == dict(b.objective_bounds)
                                                  for a, b in zip(sorted(st, key=skey), sorted(sback, key=skey)))
            ck.spec(ssame, "csv_float_bounds",
                    "objective bounds (float, inf) differ after the CSV round trip of packing statistics", ctx)
        except ERRS as e:
            ck.spec(False, "csv_float_bounds", f"packing statistics with float/inf objective bounds: {type(e).__name__}: {e}", ctx)


def streams(ck: Check) -> None:
    import traceback
    ops, expect = [], []
    real = []

    def guarded(what, fn):
        """a stream that dies with an exception of the real code (e.g. `from_resource`, which itself parses compact
        strings, or the experiment/log pipeline) is reported with the call that failed — never silently skipped"""
        try:
            fn()
        except (ERRS + (Timeout, RuntimeError, AttributeError, AssertionError)) as e:
            tb = traceback.extract_tb(e.__traceback__)
            where = next((f"{f.filename.split('/')[-1]}:{f.lineno} {f.name}" for f in reversed(tb)
                          if "moptipyapps" in f.filename), "harness")
            ck.spec(False, "impl_exception", f"the real code raised {type(e).__name__}: {e} in {where} while running "
                    f"the {what} stream", {"stream": what, "where": where})

    guarded("instances", lambda: stream_instances(ck, ops, expect))
    guarded("plans", lambda: stream_plans(ck, ops, expect))
    guarded("orderings", lambda: stream_orderings(ck, ops, expect))
    guarded("packings", lambda: stream_packings(ck, ops, expect))
    guarded("experiment", lambda: real.extend(real_experiment_results(ck)))
    guarded("results", lambda: stream_results(ck, ops, expect, real))
    guarded("statistics", lambda: stream_statistics(ck, ops, expect, real))
    guarded("domain", lambda: stream_domain(ck, ops, expect))
    guarded("float_bounds", lambda: stream_float_bounds(ck))
    outs = ck.model(ops)
    for (kind, stream, line, iout, ctx), mout in zip(expect, outs):
        short = line if len(line) < 300 else line[:300] + "…"
        if kind in ("csvR", "csvRp"):
            d = kv(mout)
            if "read" in d:
                mout = " ".join(f"{k}={canon_model_read(v) if k == 'read' else v}" for k, v in d.items())
        if kind in ("csvS", "csvSp"):
            d = kv(mout)
            if "gen2" in d and "!" in d["gen2"]:
                if kind == "csvS":
                    npk = ctx
                else:
                    h3 = [uncc(t) for t in d["gen2"].split("!")[0].split("|")]
                    npk = len(h3) - len([t for t in h3 if t in ctx])
                mout = " ".join(f"{k}={canon_gen2(v, npk) if k == 'gen2' else v}" for k, v in d.items())
        if iout == "TIMEOUT":
            ck.count("impl_timeout_not_compared")   # a valid but practically unconstructible instance (see notes)
            continue
        ck.compare(f"{kind}:{stream}", short, mout, iout)
        if kind in ("parse", "planparse", "ordparse") and mout != iout:
            # malformed stream: the property says nothing, but a reader that accepts what the other rejects is reported
            ck.count(f"{kind}_disagree")


def check(ck: Check) -> None:
    ck.rule = ("exhaustive small scope (instances over 1..3 x 1..3 bins with 1-2 items incl. rejected ones; all 2-team plans; "
               "all permutations of 2..4) + boundary stream (bins 1e12, repetitions 1e8, n_items 1e12(+1), dtype thresholds +-2) "
               "+ structured random + shipped instance lines + CSV record sets (tiny real experiments via from_logs: 2 algorithms x "
               "2 encodings x 2 objectives x 2 instances x 2 seeds; random sets around real EndResult objects, heterogeneous in "
               "objectives/bin bounds/optional fields; statistics via the real from_packing_results) + malformed stream (every "
               "truncation, exchanged separators, bad tokens; perturbed CSV tables: dropped/renamed/swapped columns, bad cells); "
               "a case is one protocol line; non-trivial = writer/constructor accepted; distinct by line hash")
    ck.assumptions += [
        "str(int) = Int.repr; int(str) = String.toInt? (Python int() additionally accepts blanks, '+', non-ASCII digits)",
        "np.fromstring(text, dtype, sep=';') = strict ';'-separated decimal tokens + C-style wrap into the dtype "
        "(numpy also tolerates blanks, '+', a trailing ';', reads '-' as 0 and silently stops at the first bad token)",
        "sanitize_name(name)==name modelled on ASCII names (Text.nameOkB); theorem holds for any name check that rejects ';'",
        "moptipy int_range_to_dtype = Base.dtypeFor (checked at the thresholds by this stream)",
        "str.lstrip/rstrip modelled for ASCII white space",
        "final range checks of the two computed lower bounds in Instance.__new__ are outside the model (C03)",
        "CSV: moptipy's EndResult / EndStatistics and pycommons' SampleStatistics CSV codecs round-trip "
        "(Codec.RoundTrips / SsCodec.RoundTrips are hypotheses of the csv theorems; false for EndStatistics tables that mix "
        "records with and without goal_f: known finding stats_goal_mixed_moptipy)",
        "CSV: pycommons csv_write/csv_read tokenisation (';' cells, '#' comments, strip) is not modelled: tables are lists of "
        "cells; csv_scope/csv_column/csv_select_scope, trailing-blank trimming and padding are modelled",
        "CSV: objective values and bounds are integers (all seven shipped objectives); float values need pycommons' "
        "num_to_str/str_to_num",
        "PackingSpace text form: to_str = ';'.join of the values, from_str = np.fromstring + validate (validate: C04)",
    ]
    ck.not_proved += [
        "packing clause: only the text layer is proved here (Text.fromstring_join: np.fromstring reads back the ';'-joined "
        "values that fit the dtype); the full from_str(to_str(y)) = y with validate is C04's fromStr_toStr; here by correspondence",
        "csv_roundtrip / csv_roundtrip_statistics are proved modulo library codecs (hypotheses PRDomain.codec, "
        "PSDomain.codec, PSDomain.ss) and at table level (cells), not at character level",
        "csv domain: records with user-supplied bin_bounds that are empty or have a key outside the scope 'bins.lowerBound' "
        "are accepted by the constructors but not round-trippable (reader raises / drops the key); observed, outside the "
        "property's domain of records produced by the package (hypotheses bbKey, bbSome); Lean example noBoundRecs",
        "statistics additionally need: common objective set and common bin-bound keys in all records (writer raises "
        "KeyError / reader rejects blank cells otherwise) and sample size of every objective's statistics = n of the end "
        "statistics (the reader takes n from there)",
    ]
    ck.notes += [
        "moptipy keeps a budget that is identical in all runs as a plain int in EndStatistics but reads it back as a "
        "single-valued SampleStatistics; embedded end statistics are compared modulo this representation",
        "the Instance constructor costs Theta(min(W,H)) + Theta(sum rep * #squares per item) (Dell'Amico bound): boundary "
        "instances combine huge values only with a small second bin dimension and unit-height items",
        "real-code calls that may not terminate after a mutation are run under a time limit and reported as violations",
    ]
    ck.lean(["Props.C19"], THEOREMS)
    streams(ck)
