"""Shared machinery of the /verif checks (see DESIGN.md sections 2 and 3).

A check is:  A  build + audit of the Lean theorems of the property,
             B  correspondence  model (compiled `modeldrv`) vs. implementation (/repo, in-process),
             C  the property's own *specification* (executable Lean spec, evaluated by the
                driver) applied to what the implementation returned.
Only C produces a violation with a failing input; A or B failing without such an input
is reported as `VIOLATION ... no-failing-input-found`.
"""
from __future__ import annotations

import hashlib
import json
import os
import random
import re
import subprocess
import sys
import time
from pathlib import Path

ROOT = Path(__file__).resolve().parent.parent
LEAN = ROOT / "lean"
WORK = ROOT / ".work"
REPO = Path(os.environ.get("VERIF_REPO", "/repo"))
BIN = LEAN / ".lake" / "build" / "bin"
ALLOWED_AXIOMS = {"propext", "Classical.choice", "Quot.sound"}
FORBIDDEN = re.compile(
    r"\bsorry\b|\badmit\b|^\s*axiom\s|\bnative_decide\b|\bbv_decide\b|"
    r"\bimplemented_by\b|\bunsafe\s|maxHeartbeats\s+0\b|\bofReduceBool\b|\bextern\b")


def setup_env(mode: str = "jit") -> None:
    """Point numba's cache into .work (never into /repo); must run before numba is imported."""
    cache = WORK / f"numba-{mode}"
    cache.mkdir(parents=True, exist_ok=True)
    os.environ["NUMBA_CACHE_DIR"] = str(cache)
    if str(REPO) not in sys.path:
        sys.path.insert(0, str(REPO))


def strip_lean_comments(src: str) -> str:
    """Remove `--` line comments and (nested) `/- -/` block comments."""
    out, i, depth = [], 0, 0
    while i < len(src):
        if src.startswith("/-", i):
            depth += 1
            i += 2
        elif depth and src.startswith("-/", i):
            depth -= 1
            i += 2
        elif depth:
            if src[i] == "\n":
                out.append("\n")
            i += 1
        elif src.startswith("--", i):
            while i < len(src) and src[i] != "\n":
                i += 1
        else:
            out.append(src[i])
            i += 1
    return "".join(out)


def lean_closure(modules: list[str]) -> list[Path]:
    """All project-local .lean files transitively imported by the given modules."""
    seen: dict[str, Path] = {}
    todo = list(modules)
    while todo:
        m = todo.pop()
        if m in seen:
            continue
        p = LEAN / (m.replace(".", "/") + ".lean")
        if not p.exists():
            continue
        seen[m] = p
        for line in p.read_text().splitlines():
            mm = re.match(r"\s*(?:public\s+)?import\s+([A-Za-z0-9_.]+)", line)
            if mm:
                todo.append(mm.group(1))
    return sorted(seen.values())


def run(cmd: list[str], cwd: Path | None = None, timeout: int = 3600, inp: str | None = None):
    p = subprocess.run(cmd, cwd=cwd, input=inp, capture_output=True, text=True,
                       timeout=timeout, check=False)
    return p.returncode, p.stdout + p.stderr


class Check:
    """One run of one property's check."""

    def __init__(self, prop: str, tier: str, seed: int) -> None:
        self.prop, self.tier, self.seed = prop, tier, seed
        self.t0 = time.time()
        self.rng = random.Random((seed * 1000003) ^ int(hashlib.sha1(prop.encode()).hexdigest()[:8], 16))
        self.work = WORK / prop
        self.work.mkdir(parents=True, exist_ok=True)
        # step A
        self.obligations: list[dict] = []   # {"name", "ok", "axioms"}
        self.proof_failures: list[str] = []
        self.trusted: set[str] = set()
        self.checker_cmds: list[str] = []
        # step B
        self.evaluations = 0
        self.corr_compared = 0
        self.corr_mismatch: list[dict] = []
        self.distinct: set[str] = set()
        self.hist: dict[str, int] = {}
        self.samples: list = []
        # step C
        self.spec_checked = 0
        self.spec_violations: list[dict] = []
        self.known: list[dict] = []
        self.notes: list[str] = []
        self.assumptions: list[str] = []
        self.not_proved: list[str] = []
        self.rule = ""
        self.extra: dict = {}
        self.level = "proof"
        self.quick = tier == "quick"
        self.drv = f"drv_{prop.lower()}"          # lake exe target of this property's model driver
        self.drv_root = f"Driver.{prop}Main"

    # ---------------------------------------------------------------- step A
    def lean(self, modules: list[str], theorems: list[str], build_extra: list[str] | None = None,
             leanchecker: bool | None = None) -> bool:
        """Build the Lean modules, grep for escape hatches, `#print axioms` every theorem."""
        self.gen_begin()
        try:
            return self._lean(modules, theorems, build_extra, leanchecker)
        finally:
            self.gen_end()

    # lean/Gen/*.lean is regenerated from the tree under test and shared by all checks: regeneration + build are serialised
    # across concurrently running checks (same tree: the files are rewritten only when their text changes, so nothing is
    # rebuilt; different trees at the same time - VERIF_REPO, a maintenance convenience - are not supported beyond this)
    _gen_lock = None

    def gen_begin(self) -> None:
        if Check._gen_lock is None:
            import fcntl
            WORK.mkdir(parents=True, exist_ok=True)
            f = open(WORK / "gen.lock", "w")  # noqa: SIM115 - held until gen_end
            fcntl.flock(f, fcntl.LOCK_EX)
            Check._gen_lock = f

    def gen_end(self) -> None:
        if Check._gen_lock is not None:
            Check._gen_lock.close()     # closing releases the flock
            Check._gen_lock = None

    def _lean(self, modules, theorems, build_extra, leanchecker) -> bool:
        ok = True
        targets = list(modules) + (build_extra or []) + [self.drv]
        cmd = ["lake", "build", *targets]
        self.checker_cmds.append("cd lean && " + " ".join(cmd))
        rc, log = run(cmd, cwd=LEAN, timeout=7200)
        built = list(modules)
        if rc != 0:
            ok = False
            self.proof_failures.append("lake build failed: " + log[-3000:])
            # which module is it?  build them one by one, so that the theorems of the others stay discharged and the report
            # names the obligation that no longer checks (only freshly built modules are imported by the audit below)
            built = []
            for t in targets:
                rc1, _ = run(["lake", "build", t], cwd=LEAN, timeout=7200)
                if rc1 == 0 and t in modules:
                    built.append(t)
                elif rc1 != 0:
                    self.proof_failures.append(f"lake build {t} failed")
        # grep for escape hatches in everything the theorems depend on (project-local)
        exe_roots = dict(re.findall(r'name = "(drv_\w+)"\s*\nroot = "([\w.]+)"', (LEAN / "lakefile.toml").read_text()))
        drv_roots = [self.drv_root] + [exe_roots[t] for t in (build_extra or []) if t in exe_roots]
        for p in lean_closure(modules + drv_roots):
            src = strip_lean_comments(p.read_text())
            for ln, line in enumerate(src.splitlines(), 1):
                if FORBIDDEN.search(line):
                    ok = False
                    self.proof_failures.append(f"forbidden token in {p.relative_to(ROOT)}:{ln}: {line.strip()}")
        # Mathlib must not leak into Model/Driver/Gen
        for p in lean_closure(drv_roots):
            if re.search(r"^\s*import\s+(Mathlib|Aesop|Batteries)", p.read_text(), re.M):
                ok = False
                self.proof_failures.append(f"model file imports Mathlib: {p}")
        # #print axioms
        audit = LEAN / "Audit" / f"{self.prop}.lean"
        audit.parent.mkdir(exist_ok=True)
        body = "".join(f"import {m}\n" for m in built) + "".join(f"#print axioms {t}\n" for t in theorems)
        audit.write_text(body)
        cmd2 = ["lake", "env", "lean", f"Audit/{self.prop}.lean"]
        self.checker_cmds.append("cd lean && " + " ".join(cmd2))
        rc2, out = (1, "build failed") if not built else run(cmd2, cwd=LEAN, timeout=3600)
        found: dict[str, set[str]] = {}
        for m in re.finditer(r"'([^']+)' depends on axioms: \[([^\]]*)\]", out):
            found[m.group(1)] = {a.strip() for a in m.group(2).replace("\n", " ").split(",") if a.strip()}
        for m in re.finditer(r"'([^']+)' does not depend on any axioms", out):
            found[m.group(1)] = set()
        for t in theorems:
            if t in found:
                bad = found[t] - ALLOWED_AXIOMS
                self.trusted |= found[t]
                good = not bad      # found => its module was built afresh in this run
                if bad:
                    self.proof_failures.append(f"theorem {t} uses axioms {sorted(bad)}")
                self.obligations.append({"name": t, "ok": good, "axioms": sorted(found[t])})
                ok = ok and good
            else:
                ok = False
                self.obligations.append({"name": t, "ok": False, "axioms": None})
                self.proof_failures.append(f"theorem {t} is not checked ({out[-400:].strip()})")
        if leanchecker if leanchecker is not None else (self.tier == "thorough"):
            cmd3 = ["lake", "env", "leanchecker", *built]
            self.checker_cmds.append("cd lean && " + " ".join(cmd3))
            rc3, out3 = run(cmd3, cwd=LEAN, timeout=7200)
            self.extra["leanchecker"] = "ok" if rc3 == 0 else out3[-500:]
            if rc3 != 0:
                ok = False
                self.proof_failures.append("leanchecker: " + out3[-500:])
        return ok

    # ---------------------------------------------------------------- step B
    def model(self, lines: list[str], drv: str | None = None) -> list[str]:
        """Run the compiled model driver on protocol lines (one output line per input line)."""
        if not lines:
            return []
        DRV = BIN / (drv or self.drv)
        if not DRV.exists():
            self.proof_failures.append("model driver missing (build failed)")
            return ["<nodriver>"] * len(lines)
        ops = self.work / "ops.txt"
        ops.write_text("\n".join(lines) + "\n")
        with ops.open() as f:
            p = subprocess.run([str(DRV)], stdin=f, capture_output=True, text=True, check=False)
        out = p.stdout.split("\n")
        if out and out[-1] == "":
            out.pop()
        if len(out) != len(lines):
            self.proof_failures.append(f"driver returned {len(out)} lines for {len(lines)} ops: {p.stderr[-300:]}")
            out = (out + ["<missing>"] * len(lines))[:len(lines)]
        return out

    def count(self, key: str, k: int = 1) -> None:
        self.hist[key] = self.hist.get(key, 0) + k

    def case(self, line: str, nontrivial: bool = True) -> None:
        self.evaluations += 1
        if nontrivial:
            self.distinct.add(hashlib.sha1(line.encode()).hexdigest()[:16])
        if len(self.samples) < 6 and (self.evaluations in (1, 7, 50, 333, 2000, 9000)):
            self.samples.append(line if len(line) < 600 else line[:600] + "…")

    def compare(self, stream: str, op: str, model_out: str, impl_out: str) -> bool:
        """Correspondence: canonical model output vs canonical implementation output."""
        self.corr_compared += 1
        if model_out == impl_out:
            return True
        if len(self.corr_mismatch) < 20:
            self.corr_mismatch.append({"stream": stream, "op": op, "model": model_out[:2000],
                                       "impl": impl_out[:2000]})
        else:
            self.count("corr_mismatch_more")
        return False

    def in_flight(self, case) -> None:
        """Announce the case that is about to be handed to the implementation (read back if it never returns)."""
        (self.work / "in_flight.json").write_text(json.dumps(case, default=str))

    def read_in_flight(self):
        p = self.work / "in_flight.json"
        try:
            return json.loads(p.read_text())
        except (OSError, ValueError):
            return None

    # ---------------------------------------------------------------- step C
    def spec(self, holds: bool, key: str, what: str, case) -> bool:
        """The property's specification applied to an implementation result."""
        self.spec_checked += 1
        if holds:
            return True
        rec = {"key": key, "what": what, "case": case}
        kf = known_findings().get(self.prop, {})
        if key in kf:
            if not any(k["key"] == key for k in self.known):
                self.known.append(rec)
        elif len(self.spec_violations) < 10:
            self.spec_violations.append(rec)
        return False

    # ---------------------------------------------------------------- finish
    def write_replay(self, obj: dict, tag: str) -> str:
        d = ROOT / "replays"
        d.mkdir(exist_ok=True)
        p = d / f"{self.prop}-{tag}-{self.seed}.json"
        p.write_text(json.dumps(obj, indent=1, default=str))
        return str(p.relative_to(ROOT))

    def finish(self) -> int:
        viol = 0
        lines = []
        for k in self.known:
            lines.append(f"KNOWN-FINDING: property={self.prop} {k['key']}: {k['what']}")
        if self.spec_violations:
            v = self.spec_violations[0]
            path = self.write_replay({"property": self.prop, "kind": "impl_violation",
                                      "violations": self.spec_violations,
                                      "proof_failures": self.proof_failures,
                                      "correspondence_mismatches": self.corr_mismatch}, "impl")
            lines.append(f"VIOLATION property={self.prop} replay={path}")
            lines.append(f"  {v['key']}: {v['what']}")
            viol = len(self.spec_violations)
        elif self.proof_failures or self.corr_mismatch:
            path = self.write_replay({"property": self.prop, "kind": "unproved",
                                      "no_longer_checks": ([o["name"] for o in self.obligations if not o["ok"]]
                                                           or ["correspondence " + m["stream"] for m in self.corr_mismatch]),
                                      "proof_failures": self.proof_failures,
                                      "correspondence_mismatches": self.corr_mismatch}, "unproved")
            what = "proof obligation" if any(not f.startswith("correspondence") for f in self.proof_failures) else "correspondence"
            lines.append(f"VIOLATION property={self.prop} replay={path} ({what} no longer checks) no-failing-input-found")
            viol = 1
        n_obl = len(self.obligations)
        n_ok = sum(1 for o in self.obligations if o["ok"])
        cov = {
            "obligations": max(n_obl, 0), "discharged": n_ok,
            "checker_cmd": " ; ".join(self.checker_cmds) or "none",
            "trusted_base": sorted(self.trusted) + ["Lean 4.33 kernel", "harness/common.py + harness/%s.py (correspondence)" % self.prop.lower()],
            "theorems": self.obligations,
            "evaluations": self.evaluations,
            "distinct_nontrivial": len(self.distinct),
            "rule": self.rule,
            "samples": self.samples or ["<none>"],
            "traces_validated_against_impl": self.corr_compared,
            "correspondence_mismatches": len(self.corr_mismatch),
            "spec_oracle_checks": self.spec_checked,
            "input_distribution": dict(sorted(self.hist.items())),
            "not_proved": self.not_proved,
            "known_findings_hit": [k["key"] for k in self.known],
            "notes": self.notes,
        }
        cov.update(self.extra)
        ev = {"property_id": self.prop, "tier": self.tier, "seed": self.seed, "level": self.level,
              "coverage": cov, "assumptions": self.assumptions,
              "wall_s": round(time.time() - self.t0, 2), "violations": viol}
        # evidence/ holds what was observed on /repo itself; a run against a scratch tree (VERIF_REPO) must not overwrite it
        evdir = ROOT / "evidence" if REPO.resolve() == Path("/repo") else WORK / "evidence-scratch"
        cov["tree_checked"] = tree_id()
        evdir.mkdir(parents=True, exist_ok=True)
        (evdir / f"{self.prop}.json").write_text(json.dumps(ev, indent=1, default=str) + "\n")
        for ln in lines:
            print(ln)
        print(f"[{self.prop}] tier={self.tier} seed={self.seed} theorems={n_ok}/{n_obl} "
              f"cases={self.evaluations} compared={self.corr_compared} spec_checks={self.spec_checked} "
              f"mismatches={len(self.corr_mismatch)} violations={viol} wall={time.time() - self.t0:.1f}s")
        sys.stdout.flush()
        return 1 if viol else 0


def tree_id() -> str:
    """path, HEAD and dirty-state of the tree under test (recorded in the evidence)"""
    try:
        head = subprocess.run(["git", "-C", str(REPO), "rev-parse", "--short", "HEAD"], capture_output=True, text=True,
                              check=False).stdout.strip()
        dirty = subprocess.run(["git", "-C", str(REPO), "status", "--porcelain", "--untracked-files=no"],
                               capture_output=True, text=True, check=False).stdout.strip()
        return f"{REPO} @ {head}" + (" + uncommitted changes" if dirty else "")
    except OSError:
        return str(REPO)


def run_in_child(fn, timeout_s: float):
    """Run `fn()` in a forked child and return (True, result) - or (False, None) if it does not finish in time.

    Compiled numba kernels cannot be interrupted from Python; a changed kernel that never returns would hang the
    check.  Running the implementation phase of a stream in a child lets the parent kill it and turn the hang into a
    reported failing input (the child announces each case before it starts it, see `Check.in_flight`).
    """
    import pickle
    import select
    import signal
    r, w = os.pipe()
    pid = os.fork()
    if pid == 0:
        try:
            os.close(r)
            data = pickle.dumps(fn(), protocol=pickle.HIGHEST_PROTOCOL)
            with os.fdopen(w, "wb") as f:
                f.write(data)
            os._exit(0)
        except BaseException:  # noqa: BLE001
            import traceback
            traceback.print_exc()
            os._exit(3)
    os.close(w)
    chunks, deadline = [], time.time() + timeout_s
    with os.fdopen(r, "rb") as f:
        while True:
            left = deadline - time.time()
            if left <= 0:
                os.kill(pid, signal.SIGKILL)
                os.waitpid(pid, 0)
                return False, None
            ready, _, _ = select.select([f], [], [], min(left, 5.0))
            if ready:
                b = f.read1(1 << 20) if hasattr(f, "read1") else f.read(1 << 20)
                if not b:
                    break
                chunks.append(b)
    _, status = os.waitpid(pid, 0)
    if status != 0 or not chunks:
        raise RuntimeError(f"implementation phase failed in the child process (status {status})")
    return True, pickle.loads(b"".join(chunks))


_KF = None


def known_findings() -> dict[str, dict[str, str]]:
    """`finding: property=Cxx key=<key> <text>` lines of known_findings.txt (`fixed:` lines suppress nothing)."""
    global _KF
    if _KF is None:
        _KF = {}
        p = ROOT / "known_findings.txt"
        if p.exists():
            for line in p.read_text().splitlines():
                m = re.match(r"finding:\s+property=(C\d+)\s+key=(\S+)\s*(.*)", line)
                if m:
                    _KF.setdefault(m.group(1), {})[m.group(2)] = m.group(3)
    return _KF


def kv(line: str) -> dict[str, str]:
    """Parse a driver output line `k=v k=v ...` (values contain no blanks)."""
    d = {}
    for tok in line.split():
        if "=" in tok:
            k, v = tok.split("=", 1)
            d[k] = v
        else:
            d.setdefault("_", tok)
    return d


def fmt_ints(xs) -> str:
    return " ".join(str(int(v)) for v in xs)


def fmt_matrix(m) -> str:
    return " | ".join(fmt_ints(r) for r in m)


def cmat(m) -> str:
    """compact matrix as the driver prints it"""
    return "|".join(",".join(str(int(v)) for v in r) for r in m)
