"""C11 — the controller figure of merit is a pure function of the parameters (DESIGN.md section 6).

Correspondence over HISTORIES: random interleavings of evaluate / initialize / set_raw / set_model /
get_differentials on ONE real FigureOfMerit / FigureOfMeritLE object per history, for the bundled systems
(Stuart-Landau, Lorenz, three coupled oscillators) x a cheap subset of the bundled controllers, on systems
rebuilt with reduced training steps / time / cases so that one evaluation costs milliseconds.

The Lean model (`Model/Fom.lean`) is parametric in the numerics; the harness tabulates them by calling
`run_ode`, `j_from_ode`, `diff_from_ode` and `sum_up_results` DIRECTLY (public functions, no object involved)
and hands the tables to the compiled driver, which runs (a) the object model with a random stale buffer and
(b) the documented state-free machine.  Floats are never compared as text: every value is its IEEE-754 bit
pattern (signed 64-bit code), arrays are compared through SHA-1 of their bytes.  Only the public API of the
objective is used (no peeking at private fields), so a behaviour-preserving rewrite stays green.
"""
from __future__ import annotations

import hashlib
import itertools
import json
import signal
import struct
import threading
import time

from .common import Check

THEOREMS = [
    "Fom.refines_documented_machine", "Fom.evaluate_history_independent", "Fom.evaluate_eq_spec",
    "Fom.value_range", "Fom.model_toggle_noninterference", "Fom.collection_grows_only_in_raw",
    "Fom.getDifferentials_content", "Fom.getDifferentials_idempotent", "Fom.collect_only_in_raw",
]

C1E100 = 6103021453049119613
C1E200 = 7598952565167317594


def code(v) -> int:
    """IEEE-754 bit pattern of a float as a signed 64-bit integer (exact, order preserving on floats >= 0)."""
    return struct.unpack("<q", struct.pack("<d", float(v)))[0]


def uncode(c: int) -> float:
    return struct.unpack("<d", struct.pack("<q", int(c)))[0]


def hexf(v) -> str:
    return float(v).hex()


# ------------------------------------------------------------------------------------------ time limit
class _Timeout(Exception):
    pass


class limit:
    """Wall-clock limit for one call of the real integrator (stiff parameter vectors make RK45 crawl)."""

    def __init__(self, seconds: float) -> None:
        self.s = seconds
        self.on = threading.current_thread() is threading.main_thread()

    def _raise(self, *_):
        raise _Timeout

    def __enter__(self):
        if self.on:
            self.old = signal.signal(signal.SIGALRM, self._raise)
            signal.setitimer(signal.ITIMER_REAL, self.s)

    def __exit__(self, *exc):
        if self.on:
            signal.setitimer(signal.ITIMER_REAL, 0)
            signal.signal(signal.SIGALRM, self.old)
        return False


# ------------------------------------------------------------------------------------------ surrogate models
_MODELS = None


def surrogate_models():
    """Simple njit 'system models' with the signature set_model expects: (state, time, control, out)."""
    global _MODELS
    if _MODELS is None:
        import numba

        @numba.njit(cache=False)
        def m_stable(state, _t, control, out):
            for i in range(len(state)):
                out[i] = control[0] - state[i]

        @numba.njit(cache=False)
        def m_rot(state, _t, control, out):
            n = len(state)
            for i in range(n):
                out[i] = 0.5 * state[(i + 1) % n] - 0.2 * state[i]
            out[n - 1] += control[0]

        @numba.njit(cache=False)
        def m_grow(state, _t, control, out):
            for i in range(len(state)):
                out[i] = 3.0 * state[i] + control[0]

        _MODELS = [("stable", m_stable), ("rot", m_rot), ("grow", m_grow)]
    return _MODELS


# ------------------------------------------------------------------------------------------ instances
def base_systems():
    from moptipyapps.dynamic_control.systems.lorenz import LORENZ_111
    from moptipyapps.dynamic_control.systems.stuart_landau import STUART_LANDAU_111
    from moptipyapps.dynamic_control.systems.three_coupled_oscillators import THREE_COUPLED_OSCILLATORS
    return {"stuart_landau": STUART_LANDAU_111, "lorenz": LORENZ_111, "3oscillators": THREE_COUPLED_OSCILLATORS}


def controllers_for(system, thorough: bool):
    """A cheap subset of the bundled controllers that fit the system."""
    from moptipyapps.dynamic_control.controllers.ann import make_ann
    sd, cd = system.state_dims, system.control_dims
    out = {"ann0": lambda: make_ann(sd, cd, []), "ann1": lambda: make_ann(sd, cd, [1])}
    if sd in (2, 3):
        from moptipyapps.dynamic_control.controllers.cubic import cubic
        from moptipyapps.dynamic_control.controllers.linear import linear
        from moptipyapps.dynamic_control.controllers.partially_linear import partially_linear
        from moptipyapps.dynamic_control.controllers.peaks import peaks
        from moptipyapps.dynamic_control.controllers.quadratic import quadratic
        out.update({"linear": lambda: linear(system), "quadratic": lambda: quadratic(system)})
        if thorough:
            out.update({"cubic": lambda: cubic(system), "peaks1": lambda: list(peaks(system))[0],
                        "plin2": lambda: list(partially_linear(system))[0],
                        "ann2": lambda: make_ann(sd, cd, [2])})
    return out


def reduced_system(base, training, steps: int, ttime: float):
    """The bundled equations with fewer / other training cases, fewer steps, less time (constructor arguments)."""
    import numpy as np
    from moptipyapps.dynamic_control.system import System
    s = System(base.name, base.state_dims, base.control_dims, base.state_dim_mod, base.state_dims_in_j,
               base.gamma, base.test_starting_states, np.array(training, dtype=float), 10, 1.0, steps, ttime, (0,))
    s.equations = base.equations  # type: ignore
    return s


class Ctx:
    """One (system, controller, variant, supports) instance + its tabulated numerics."""

    def __init__(self, spec: dict) -> None:
        import numpy as np
        from moptipyapps.dynamic_control.instance import Instance
        from moptipyapps.dynamic_control.objective import FigureOfMerit, FigureOfMeritLE
        self.spec = spec
        base = base_systems()[spec["system"]]
        self.system = reduced_system(base, [[float.fromhex(v) for v in row] for row in spec["training"]],
                                     spec["steps"], float.fromhex(spec["time"]))
        self.controller = controllers_for(self.system, True)[spec["controller"]]()
        self.inst = Instance(self.system, self.controller)
        self.cls = FigureOfMeritLE if spec["le"] else FigureOfMerit
        self.le = bool(spec["le"])
        self.sup = bool(spec["sup"])
        self.n = len(self.system.training_starting_states)
        self.xs = [np.array([float.fromhex(v) for v in x], dtype=float) for x in spec["xs"]]
        # equations: 0 = the real system, k >= 1 = surrogate models; "same" = set_model(system.equations)
        self.eqs = [self.system.equations]
        for nm in spec["models"]:
            self.eqs.append(self.system.equations if nm == "same" else dict(surrogate_models())[nm])
        self.tab: dict[tuple[int, int], dict | None] = {}
        self.fresh: dict[tuple[int, int], int] = {}
        self.helper = self.cls(self.inst, False)   # only for calling sum_up_results on copies
        self.tlimit = spec.get("tlimit", 0.4)

    # -- the abstract functions of the model, tabulated from the public functions ----------------------
    def table(self, e: int, x: int):
        """J, log1p(J), batch of every training case for equations e and vector x; None = too slow (dropped)."""
        key = (e, x)
        if key in self.tab:
            return self.tab[key]
        import numpy as np
        from moptipyapps.dynamic_control.ode import diff_from_ode, j_from_ode, run_ode
        s, c = self.system, self.controller
        sd = len(s.training_starting_states[0])
        js, ls, batches = [], [], []
        try:
            with limit(self.tlimit):
                for start in s.training_starting_states:
                    ode = run_ode(start, self.eqs[e], c.controller, self.xs[x].copy(), c.control_dims,
                                  s.training_steps, s.training_time)
                    js.append(float(j_from_ode(ode, sd, s.state_dims_in_j, s.gamma)))
                    with np.errstate(all="ignore"):
                        b = diff_from_ode(ode, sd)
                    batches.append((np.array(b[0], dtype=float), np.array(b[1], dtype=float)))
        except _Timeout:
            self.tab[key] = None
            return None
        with np.errstate(all="ignore"):
            ls = [float(np.log1p(j)) for j in js]
        okall = all(0.0 <= j <= 1e100 for j in js)
        agg = None
        if okall:
            agg = float(self.cls.sum_up_results(self.helper, np.array(js, dtype=float)))
        first_bad = next((i for i, j in enumerate(js) if not 0.0 <= j <= 1e100), None)
        self.tab[key] = {"J": js, "L": ls, "batches": batches, "agg": agg, "first_bad": first_bad}
        return self.tab[key]

    def fresh_value(self, e: int, x: int, recompute: bool = False) -> int:
        """code of evaluate(x) on a FRESHLY constructed objective in the same mode"""
        key = (e, x)
        if key not in self.fresh or recompute:
            obj = self.cls(self.inst, self.sup or e > 0)
            if e > 0:
                obj.set_model(self.eqs[e])
            with limit(20 * self.tlimit + 5):
                v = code(obj.evaluate(self.xs[x].copy()))
            if key in self.fresh:
                return v
            self.fresh[key] = v
        return self.fresh[key]

    # -- protocol ---------------------------------------------------------------------------------------
    def line(self, ops: list[str], garbage: list[int]) -> str:
        used = []
        for op in ops:
            if op[0] == "E":
                for e in range(len(self.eqs)):     # the model may be in any mode: give it every table we have
                    if (e, int(op[1:])) in self.tab and self.tab[(e, int(op[1:]))] is not None \
                            and (e, int(op[1:])) not in used:
                        used.append((e, int(op[1:])))
        ct, at = [], []
        for (e, x) in used:
            t = self.tab[(e, x)]
            row = [e, x]
            for j, l, b in zip(t["J"], t["L"], t["batches"]):
                row += [code(j), code(l), len(b[0])]
            ct.append(" ".join(map(str, row)))
            if t["agg"] is not None:
                at.append(" ".join(map(str, [code(t["agg"])] + [code(j) for j in t["J"]])))
        return (f"fom {int(self.le)} {int(self.sup)} {self.n} ; {' '.join(map(str, garbage))} ; "
                f"{' | '.join(ct)} ; {' | '.join(dict.fromkeys(at))} ; {' '.join(ops)}")

    def data_token(self, tok: str) -> str:
        """canonical form of a model/spec data token `d<rows>:<segs>`: rows + SHA-1 of the concatenated batches"""
        import numpy as np
        if not tok.startswith("d") or tok.endswith("!df"):
            return tok
        rows, segs = tok[1:].split(":", 1)
        sc, df = [], []
        for g in segs.split(","):
            e, x, i = (int(v) for v in g.split("."))
            b = self.tab[(e, x)]["batches"][i]
            sc.append(b[0])
            df.append(b[1])
        return f"d{rows}:{arr_hash(np.concatenate(sc), np.concatenate(df))}"

    # -- the real object --------------------------------------------------------------------------------
    def run_impl(self, ops: list[str], fresh_recheck=None) -> tuple[list[str], list[dict]]:
        """Run a history on ONE real objective; tokens in the driver's format + per-op details."""
        obj = self.cls(self.inst, self.sup)
        import numpy as np
        toks, info = [], []
        mode = 0
        prev = None          # arrays returned by the last successful get_differentials since the last initialize()
        raw_evals = 0        # evaluate calls in real-system mode since that call
        for op in ops:
            d: dict = {"mode": mode}
            try:
                if op[0] == "E":
                    x = int(op[1:])
                    arg = self.xs[x].copy()
                    with limit(20 * self.tlimit + 5):
                        v = obj.evaluate(arg)
                    fv = self.fresh_value(mode, x)
                    d.update(v=v, fresh=fv, x_changed=arg.tobytes() != self.xs[x].tobytes(), isfloat=isinstance(v, float))
                    if fresh_recheck is not None and fresh_recheck():
                        d["fresh2"] = self.fresh_value(mode, x, recompute=True)
                    toks.append(f"v{code(v)}{'F' if code(v) == fv else 'D'}")
                    raw_evals += 1 if mode == 0 else 0
                elif op == "I":
                    obj.initialize()
                    mode = 0
                    prev, raw_evals = None, 0
                    toks.append("ok")
                elif op == "R":
                    obj.set_raw()
                    mode = 0
                    toks.append("ok")
                elif op[0] == "M":
                    try:
                        obj.set_model(self.eqs[int(op[1:])])
                        mode = int(op[1:])
                        toks.append("ok")
                    except ValueError:
                        toks.append("ERR")
                elif op == "G":
                    try:
                        sc, df = obj.get_differentials()
                        d.update(rows=len(sc), rows_df=len(df), raw_evals=raw_evals, had_prev=prev is not None)
                        if prev is not None:
                            d["prev_rows"] = len(prev[0])
                            d["prefix_ok"] = all(
                                len(new) >= len(old) and new.shape[1:] == old.shape[1:]
                                and np.ascontiguousarray(new[:len(old)]).tobytes() == old.tobytes()
                                for new, old in zip((sc, df), prev))
                        prev = (np.array(sc, dtype=float, copy=True), np.array(df, dtype=float, copy=True))
                        raw_evals = 0
                        toks.append(f"d{len(sc)}:{arr_hash(sc, df)}")
                    except ValueError:
                        d.update(raised=True, had_prev=prev is not None)
                        toks.append("ERR")
                else:
                    raise AssertionError(op)
            except _Timeout:
                raise
            except Exception as ex:  # noqa: BLE001 — any other exception is an observable outcome
                toks.append(f"EXC:{type(ex).__name__}")
            info.append(d)
        return toks, info


def arr_hash(sc, df) -> str:
    import numpy as np
    h = hashlib.sha1()
    for a in (sc, df):
        a = np.ascontiguousarray(a, dtype=float)
        h.update(str(a.shape).encode())
        h.update(a.tobytes())
    return h.hexdigest()[:16]


# ------------------------------------------------------------------------------------------ generators
def make_spec(rng, system: str, controller: str, family: str, le: bool, sup: bool, quick: bool) -> dict:
    """Instance description (everything as hex floats so a replay rebuilds it bit-identically)."""
    base = base_systems()[system]
    sd = base.state_dims
    pts = [list(map(float, r)) for r in base.training_starting_states]
    steps = rng.choice([10, 10, 12, 16, 24])
    if family == "graded":
        # tiny / unit / tiny start states and a tiny horizon: whether the *middle* case fails depends on x
        ttime = 2e-5
        training = [[1e-6] + [0.0] * (sd - 1), [1.0] + [0.0] * (sd - 1), [2e-6, 1e-6] + [0.0] * (sd - 2)]
        if rng.random() < 0.5:
            training.append([0.0] * sd)           # J = 0.0 for a controller without bias: lower end of the range
        k = len(training)
    else:
        ttime = rng.choice([0.25, 0.5, 1.0, 2.0])
        k = 1 if family == "single" else rng.choice([2, 3, 3, 4])
        training = [list(p) for p in rng.sample(pts, min(k, len(pts)))]
        if family == "farout":
            far = [v * 1e12 for v in rng.choice(pts)]
            training.insert(rng.randrange(len(training) + 1), far)
        if family == "zero":
            training.insert(rng.randrange(len(training) + 1), [0.0] * sd)
    return {"system": system, "controller": controller, "family": family, "le": int(le), "sup": int(sup),
            "steps": steps, "time": hexf(ttime), "training": [[hexf(v) for v in r] for r in training],
            "xs": [], "models": ["stable", "rot", "same"] if quick else ["stable", "rot", "grow", "same"],
            "tlimit": 0.1 if quick else 0.3}


def make_pool(rng, ctx: Ctx, quick: bool) -> None:
    """Parameter vectors: well-behaved small, diverging large, failing (huge / nan / inf)."""
    import numpy as np
    d = ctx.controller.param_dims
    pool = [np.zeros(d)]
    for sc in ([0.05, 1.0, 8.0] if quick else [0.01, 0.1, 1.0, 4.0, 32.0]):
        pool.append(np.array([rng.uniform(-sc, sc) for _ in range(d)]))
    for sc in ([1e3, 1e6] if quick else [1e3, 1e4, 1e5, 1e6]):
        pool.append(np.array([rng.choice([-1.0, 1.0]) * sc * rng.uniform(0.5, 1.0) for _ in range(d)]))
    one = np.zeros(d)
    one[rng.randrange(d)] = rng.choice([1e3, 1e5])
    pool.append(one)
    if ctx.spec["family"] == "graded":
        for mag in (1e9, 1e11, 3e12, 1e15):
            v = np.zeros(d)
            v[0] = mag
            pool.append(v)
        pool.append(np.full(d, 1e10))
    pool.append(np.full(d, 1e30))
    pool.append(np.full(d, 1e200))
    nanv = np.zeros(d)
    nanv[rng.randrange(d)] = float("nan")
    pool.append(nanv)
    infv = np.full(d, 0.5)
    infv[rng.randrange(d)] = float("inf")
    pool.append(infv)
    ctx.xs = pool
    ctx.spec["xs"] = [[hexf(v) for v in x] for x in pool]


def prepare(ck: Check, ctx: Ctx) -> dict[int, list[int]]:
    """Warm up the kernels (untimed), tabulate every (equations, x) pair; returns usable x ids per equations id."""
    import numpy as np
    from moptipyapps.dynamic_control.ode import diff_from_ode, j_from_ode, run_ode
    s, c = ctx.system, ctx.controller
    for eq in ctx.eqs:   # compile every kernel outside of any timer (an alarm inside numba's compiler is unsafe)
        ode = run_ode(s.training_starting_states[0], eq, c.controller, np.zeros(c.param_dims), c.control_dims,
                      s.training_steps, min(s.training_time, 1e-3))
        j_from_ode(ode, s.state_dims, s.state_dims_in_j, s.gamma)
        with np.errstate(all="ignore"):
            diff_from_ode(ode, s.state_dims)
    usable: dict[int, list[int]] = {}
    for e in range(len(ctx.eqs) if ctx.sup else 1):   # without model support the object never leaves raw mode
        usable[e] = []
        for x in range(len(ctx.xs)):
            t = ctx.table(e, x)
            if t is None:
                ck.count("pair_dropped_too_slow")
                continue
            usable[e].append(x)
            if t["agg"] is not None:
                # numeric TEST (not part of the proof): the aggregate is the documented formula up to rounding
                import math
                js = t["J"]
                ref = (math.expm1(math.fsum(math.log1p(j) for j in js) / len(js)) if ctx.le
                       else math.fsum(js) / len(js))
                ck.spec(abs(t["agg"] - ref) <= 1e-9 * max(abs(ref), 1e-300) + 1e-300, "aggregate_formula",
                        f"sum_up_results({js}) = {t['agg']!r}, documented formula gives {ref!r}",
                        dict(ctx.spec, J=[hexf(j) for j in js]))
            fb = t["first_bad"]
            ck.count("pair_all_ok" if fb is None else f"pair_first_bad_case_{min(fb, 3)}{'_of_many' if fb and fb > 0 else ''}")
    return usable


def gen_history(rng, usable: dict[int, list[int]], length: int, flavour: str, sup: bool) -> list[str]:
    models = [e for e in usable if e > 0 and usable[e]]
    ops: list[str] = []
    mode = 0

    def ev():
        pool = usable.get(mode) or usable[0]
        return f"E{rng.choice(pool)}" if (usable.get(mode)) else "R"

    if flavour == "surrogate":
        # the call pattern of SurrogateOptimizer.solve: warm-up on the real system, then
        # get_differentials / set_model / evaluate* / set_raw / evaluate, repeatedly
        ops.append("I")
        for _ in range(rng.randint(1, 4)):
            ops.append(ev())
        while len(ops) < length:
            ops.append("G")
            if models:
                mode = rng.choice(models)
                ops.append(f"M{mode}")
            elif rng.random() < 0.5:
                ops.append("M1")                  # raises on an object without model support
            for _ in range(rng.randint(0, 4)):
                ops.append(ev())
            ops.append("R")
            mode = 0
            ops.append(ev())
        return ops[:max(length, 1)]
    w = {"uniform": (55, 15, 10, 10, 5), "evalheavy": (80, 8, 5, 5, 2), "togglish": (40, 15, 20, 20, 5),
         "denseG": (60, 0, 15, 15, 10)}[flavour]
    while len(ops) < length:
        k = rng.choices("EGMRI", weights=w)[0]
        if k == "E":
            op = ev()
        elif k == "M":
            if not models:
                op = "M1"
            else:
                op = f"M{rng.choice(models)}"
        else:
            op = k
        ops.append(op)
        if op[0] == "M" and sup:
            mode = int(op[1:])
        elif op in ("R", "I"):
            mode = 0
        if flavour == "denseG":
            ops.append("G")
    return ops[:max(length, 1)]


# ------------------------------------------------------------------------------------------ oracle
def judge(ck: Check | None, ctx: Ctx, ops, garbage, mtoks, itoks, info, stream: str, hid: str, report=True):
    """B: model token vs implementation token (every op).
    C: the property's clauses on what the implementation returned: evaluate = value of a fresh objective =
    documented aggregate of the per-case figures of merit, in [0,1e100] u {1e200}; the recorded data is a
    prefix-monotone log between initialize() calls that grows only across real-system evaluations.
    Returns the list of (key, op index, what) violations found in this history."""
    bad = []
    for k, (op, mt, it, d) in enumerate(zip(ops, mtoks, itoks, info)):
        m, _, s = mt.partition("/")
        s = m if s == "=" else s
        m, s = ctx.data_token(m), ctx.data_token(s)
        if ck is not None and report:
            ck.compare(stream, f"{hid}#{k}:{op}", m, it)
            if s != m:   # the Lean theorem refines_documented_machine says this never happens
                ck.compare("model-vs-documented-machine", f"{hid}#{k}:{op}", m, s)
        v = []
        if op[0] == "E":
            if it.startswith("EXC:"):
                v.append(("exception", f"evaluate raised {it[4:]}"))
                for key, what in v:
                    bad.append((key, k, what))
                continue
            val = d["v"]
            if not d["isfloat"]:
                v.append(("not_float", f"evaluate returned {type(val).__name__}"))
            if not ((0.0 <= val <= 1e100) or val == 1e200):
                v.append(("range", f"evaluate returned {val!r}, outside [0,1e100] u {{1e200}}"))
            if code(val) != d["fresh"]:
                v.append(("raw_diff" if d["mode"] == 0 else "model_diff",
                          f"evaluate(x{op[1:]}) returned {val!r} ({hexf(val)}) but a freshly constructed objective "
                          f"returns {uncode(d['fresh'])!r} ({hexf(uncode(d['fresh']))}) in the same mode"))
            elif s != it:
                v.append(("not_documented_value",
                          f"evaluate(x{op[1:]}) returned {val!r} (code {code(val)}); the documented value computed from "
                          f"the per-case figures of merit (run_ode/j_from_ode called directly) is {s}"))
            if d.get("x_changed"):
                v.append(("x_mutated", "evaluate changed its argument"))
            if "fresh2" in d and d["fresh2"] != d["fresh"]:
                v.append(("fresh_unstable", "two freshly constructed objectives disagree on the same x"))
        elif op == "G":
            if d.get("raised") and d.get("had_prev"):
                v.append(("rows_lost", "get_differentials raised although it had returned data before and no "
                                       "initialize() happened since"))
            if d.get("rows") is not None:
                if d["rows"] != d["rows_df"]:
                    v.append(("sc_df_rows", "state+control and differential arrays have different row counts"))
                if not d.get("had_prev") and d["rows"] > 0 and d["raw_evals"] == 0:
                    v.append(("grew_outside_raw", f"get_differentials returned {d['rows']} rows although no real-system "
                                                  f"evaluation happened since construction / initialize()"))
                if d.get("had_prev"):
                    if not d["prefix_ok"]:
                        v.append(("rows_lost", f"recorded data is no longer an extension of what get_differentials "
                                               f"returned before ({d['prev_rows']} rows then, {d['rows']} now) although "
                                               f"no initialize() happened"))
                    elif d["rows"] > d["prev_rows"] and d["raw_evals"] == 0:
                        v.append(("grew_outside_raw", f"recorded data grew from {d['prev_rows']} to {d['rows']} rows "
                                                      f"without any real-system evaluation in between"))
        for key, what in v:
            bad.append((key, k, what))
    return bad


def run_history(ck: Check, ctx: Ctx, ops, stream, hid, pending):
    garbage = [ck.rng.choice([0, 1, C1E100, C1E100 + 1, C1E200, code(3.5), code(-1.0), code(float("nan")),
                              ck.rng.getrandbits(62)]) for _ in range(ctx.n)]
    itoks, info = ctx.run_impl(ops, fresh_recheck=lambda: ck.rng.random() < 0.05)
    line = ctx.line(ops, garbage)
    kinds = {o[0] for o in ops}
    ck.case(line, nontrivial="E" in kinds and len(kinds) > 1)
    for o, d in zip(ops, info):
        ck.count(f"op_{o[0]}" + ("_model" if o[0] == "E" and d["mode"] else ""))
    pending.append((ctx, ops, garbage, line, itoks, info, stream, hid))


def shrink(ck: Check, ctx: Ctx, ops, key, budget_s=8.0):
    """Greedy one-op-at-a-time reduction of a violating history (re-runs real object + driver)."""
    t0 = time.time()

    def bad(cand):
        itoks, info = ctx.run_impl(cand)
        mt = ck.model([ctx.line(cand, [0] * ctx.n)])[0].split()
        if len(mt) != len(cand):
            return False
        return any(b[0] == key for b in judge(None, ctx, cand, None, mt, itoks, info, "", "", report=False))

    cur = list(ops)
    changed = True
    while changed and time.time() - t0 < budget_s:
        changed = False
        for i in range(len(cur)):
            cand = cur[:i] + cur[i + 1:]
            if cand and bad(cand):
                cur, changed = cand, True
                break
            if time.time() - t0 > budget_s:
                break
    return cur


def flush(ck: Check, pending) -> None:
    outs = ck.model([p[3] for p in pending])
    shrunk = 0
    for (ctx, ops, garbage, line, itoks, info, stream, hid), out in zip(pending, outs):
        mtoks = out.split()
        if len(mtoks) != len(ops):
            ck.compare(stream, hid, out[:300], f"<{len(ops)} tokens>")
            continue
        bad = judge(ck, ctx, ops, garbage, mtoks, itoks, info, stream, hid)
        ck.spec_checked += len(ops)
        seen = set()
        for key, k, what in bad:
            if key in seen:
                continue
            seen.add(key)
            hist = ops[:k + 1]
            if shrunk < 3 and len(hist) > 1:
                shrunk += 1
                try:
                    hist = shrink(ck, ctx, hist, key)
                except Exception:  # noqa: BLE001
                    pass
            case = dict(ctx.spec)
            case.update(history=hist, full_history=ops, failing_op_index=k, stream=stream,
                        legend="E<k>=evaluate(xs[k]) I=initialize R=set_raw M<k>=set_model(models[k-1]) G=get_differentials")
            ck.spec(False, key, what, case)
    pending.clear()


# ------------------------------------------------------------------------------------------ streams
def instance_plan(ck: Check):
    """(system, controller, family, le, sup) combinations of this run, systems interleaved."""
    rng, quick = ck.rng, ck.quick
    per_system = []
    fams = ["bundled", "farout", "graded", "single", "zero"]
    for sysname in ["stuart_landau", "lorenz", "3oscillators"]:
        ctrls = list(controllers_for(base_systems()[sysname], not quick))
        rng.shuffle(ctrls)
        if quick:     # every controller once, families cycling
            f = fams[:]
            rng.shuffle(f)
            combos = [(c, f[i % len(f)]) for i, c in enumerate(ctrls)]
        else:
            combos = [(c, f) for c in ctrls for f in rng.sample(fams, 3)]
            rng.shuffle(combos)
        lst = []
        for c, f in combos:
            if f == "graded" and c.startswith("ann"):   # bounded controllers cannot fail case-dependently
                f = "bundled"
            lst.append((sysname, c, f, rng.random() < 0.5, rng.random() < 0.85))
        per_system.append(lst)
    plan = []
    for tup in itertools.zip_longest(*per_system):
        plan += [t for t in tup if t is not None]
    # deterministic share of objects constructed without model support
    return [(a, b, c, d, e and i % 5 != 2) for i, (a, b, c, d, e) in enumerate(plan)]


def streams(ck: Check) -> None:
    """Correspondence (B) and spec oracle (C) over histories on real objective objects."""
    rng, quick = ck.rng, ck.quick
    consts = ck.model(["fomC"])[0]
    ck.compare("constants", "fomC", consts, f"c1e100={code(1e100)} c1e200={code(1e200)} cnegzero={code(-0.0)}")
    pending: list = []
    t_start = time.time()
    budget = 45.0 if quick else 1000.0

    # (2) exhaustive small scope: every history of length <= 3 (quick) / 4 (thorough) over a 7-letter alphabet
    for le in (False, True):
        spec = make_spec(rng, "stuart_landau", "linear", "graded", le, True, quick)
        spec["steps"] = 10
        ctx = Ctx(spec)
        make_pool(rng, ctx, quick)
        usable = prepare(ck, ctx)
        good = next((x for x in usable[0] if ctx.tab[(0, x)]["first_bad"] is None), None)
        if good is None:
            ck.notes.append("exhaustive stream skipped: no well-behaved parameter vector survived the time limit")
            ck.count("exhaustive_skipped")
            continue
        mid = next((x for x in usable[0] if (ctx.tab[(0, x)]["first_bad"] or 0) >= 1), usable[0][-1])
        good2 = next((x for x in usable[0] if x != good and ctx.tab[(0, x)]["first_bad"] is None), good)
        alpha = [f"E{good}", f"E{mid}", f"E{good2}", "I", "R", "M1", "G"]
        if not all(int(a[1:]) in usable[1] for a in alpha[:3]):
            alpha = [a for a in alpha if a[0] != "E" or int(a[1:]) in usable[1]]
        ck.extra.setdefault("exhaustive_alphabet", []).append(" ".join(alpha))
        maxlen = 3 if quick else 4
        n = 0
        for ln in range(1, maxlen + 1):
            for h in itertools.product(alpha, repeat=ln):
                ops = list(h) + ["G"]          # a final observation of the recorded data
                run_history(ck, ctx, ops, "exhaustive", f"exh{int(le)}-{n}", pending)
                n += 1
        ck.count("exhaustive_histories", n)
        flush(ck, pending)
    ck.extra["wall_exhaustive_s"] = round(time.time() - t_start, 1)
    t_prep = 0.0

    # (4)+(3) boundary families and structured random histories on every planned instance
    plan = instance_plan(ck)
    per_inst = 9 if quick else 20
    hid = 0
    for idx, (sysname, cname, fam, le, sup) in enumerate(plan):
        if time.time() - t_start > budget:
            ck.count("instances_skipped_time_budget", len(plan) - idx)
            ck.notes.append(f"time budget: {len(plan) - idx} of {len(plan)} planned instances not run")
            break
        spec = make_spec(rng, sysname, cname, fam, le, sup, quick)
        t1 = time.time()
        ctx = Ctx(spec)
        make_pool(rng, ctx, quick)
        usable = prepare(ck, ctx)
        t_prep += time.time() - t1
        ck.extra["wall_tabulate_s"] = round(t_prep, 1)
        ck.count(f"instance_{sysname}")
        ck.count(f"controller_{cname}")
        ck.count(f"family_{fam}")
        ck.count("variant_LE" if le else "variant_mean")
        ck.count("supports_model" if sup else "no_model_support")
        if not usable[0]:
            ck.count("instance_without_usable_x")
            continue
        # boundary histories
        common = [x for x in usable[0] if all(x in u for u in usable.values())]
        if not common:
            ck.count("instance_without_common_x")
            continue
        x0 = common[0]
        for ops in (["G"], ["G", "G"], ["M1", "G"], [f"E{x0}", "G", "G"], ["I", "G", f"E{x0}", "I", "G"],
                    ["M1", f"E{x0}", "G", "R", "G"], [f"E{x0}", "M4" if len(ctx.eqs) > 4 else "M3", f"E{x0}", "R", f"E{x0}", "G"],
                    ["M1", "I", f"E{x0}", "G"], [f"E{usable[0][-1]}", f"E{x0}", "G"]):
            run_history(ck, ctx, ops, "boundary", f"b{hid}", pending)
            hid += 1
        # random interleavings
        for r in range(per_inst):
            flavour = rng.choice(["uniform", "uniform", "evalheavy", "togglish", "denseG", "surrogate"])
            length = rng.randint(5, 40) if quick or r % 3 else rng.randint(100, 400)
            ops = gen_history(rng, usable, length, flavour, sup)
            ck.count(f"flavour_{flavour}")
            ck.count("len_le_10" if len(ops) <= 10 else "len_le_40" if len(ops) <= 40 else "len_le_400")
            run_history(ck, ctx, ops, f"random:{sysname}", f"r{hid}", pending)
            hid += 1
        # the toggle clause directly on the implementation: ops1 ++ ops2  vs  ops1 ++ toggle ++ ops2
        for _ in range(2 if quick else 6):
            o1 = gen_history(rng, usable, rng.randint(0, 10), "uniform", sup) + ["R"]
            o2 = gen_history(rng, usable, rng.randint(1, 12), "uniform", sup) + ["G"]
            ms = [e for e in usable if e > 0 and usable[e]]
            if not ms:
                break
            m = rng.choice(ms)
            tog = [f"M{m}"] + [f"E{rng.choice(usable[m])}" for _ in range(rng.randint(0, 5))] + ["R"]
            a, _ = ctx.run_impl(o1 + o2)
            b, _ = ctx.run_impl(o1 + tog + o2)
            same = a[len(o1):] == b[len(o1) + len(tog):]
            case = dict(ctx.spec)
            case.update(history=o1 + tog + o2, without_toggle=o1 + o2)
            ck.spec(same, "toggle_interference",
                    f"outputs after inserting {' '.join(tog)} differ: {a[len(o1):]} vs {b[len(o1) + len(tog):]}", case)
            run_history(ck, ctx, o1 + tog + o2, "toggle", f"t{hid}", pending)
            hid += 1
            ck.count("toggle_pairs")
        flush(ck, pending)
    ck.extra["streams_wall_s"] = round(time.time() - t_start, 1)


def check(ck: Check) -> None:
    ck.rule = ("a case is one history (<= 40 ops quick, <= 400 thorough) of evaluate/initialize/set_raw/set_model/"
               "get_differentials on ONE real objective object; streams: exhaustive (all histories of length <= 3 quick / "
               "<= 4 thorough over {3 x-vectors, I, R, M, G}, both variants), boundary histories, random interleavings "
               "(uniform / evaluation-heavy / toggle-heavy / get_differentials after every call / SurrogateOptimizer "
               "pattern), toggle-insertion pairs; instances = bundled systems x cheap bundled controllers x families "
               "(bundled start states, one far-out failing start state, x-dependent failing middle case, single case, "
               "zero start state); non-trivial = contains evaluate and another method; distinct by protocol-line hash")
    ck.assumptions += [
        "run_ode / j_from_ode / diff_from_ode / sum_up_results are functions of their arguments (Env.J, Env.diff, "
        "Env.agg, Env.post are arbitrary pure functions in the theorems); TESTED here: the harness calls them directly "
        "and the object must return bit-identical values and batches in every history",
        "np.empty returns an array of the requested length with arbitrary content (the model quantifies over the content)",
        "float comparison 0.0 <= z <= 1e100 is a predicate on the value (Env.ok); 1e200 is a value (Env.fail)",
        "list.append/clear, np.concatenate (order preserving; ValueError on an empty list) behave as modelled",
        "moptipy Objective.initialize() of the super class has no effect on the modelled fields",
        "instances are rebuilt with System(...) using reduced training_steps / training_time / training cases; "
        "parameter vectors whose direct tabulation exceeds the time limit (stiff ODEs) are dropped (counted)",
    ]
    ck.not_proved += [
        "purity / determinism of run_ode (scipy RK45 + numba kernels) — assumption, tested by the correspondence only",
        "that float mean / expm1(mean(log1p)) of values in [0,1e100] lies in [0,1e100]: not needed, the final range "
        "check of evaluate enforces the range (value_range)",
    ]
    ck.lean(["Props.C11"], THEOREMS)
    streams(ck)


def replay(path: str) -> int:
    """`./check C11 --replay replays/C11-….json`: re-run the recorded histories on the real objective and re-judge."""
    rec = json.loads(open(path).read())
    ck = Check("C11", "quick", 0)
    badn = 0
    for v in rec.get("violations", []):
        c = v.get("case") or {}
        if v.get("key") == "aggregate_formula" and "J" in c:
            import math
            import numpy as np
            ctx = Ctx(c)
            js = [float.fromhex(j) for j in c["J"]]
            got = float(ctx.cls.sum_up_results(ctx.helper, np.array(js)))
            ref = (math.expm1(math.fsum(math.log1p(j) for j in js) / len(js)) if ctx.le else math.fsum(js) / len(js))
            ok = abs(got - ref) <= 1e-9 * max(abs(ref), 1e-300) + 1e-300
            print(f"aggregate_formula: sum_up_results({js}) = {got!r}, documented {ref!r}: "
                  f"{'ok' if ok else 'VIOLATION reproduced'}")
            badn += 0 if ok else 1
            continue
        if "history" not in c:
            print("not replayable:", v.get("key"))
            continue
        ctx = Ctx(c)
        ops = c["history"]
        for op in ops:
            if op[0] == "E":
                for e in range(len(ctx.eqs)):
                    ctx.table(e, int(op[1:]))
        itoks, info = ctx.run_impl(ops)
        mt = ck.model([ctx.line(ops, [0] * ctx.n)])[0].split()
        bad = judge(None, ctx, ops, None, mt, itoks, info, "", "", report=False)
        print(f"{v.get('key')}: history {' '.join(ops)}")
        print(f"   implementation: {' '.join(itoks)}")
        print(f"   model/spec    : {' '.join(mt)}")
        for key, k, what in bad:
            print(f"   VIOLATION reproduced at op {k}: {key}: {what}")
        badn += 1 if bad else 0
    return 1 if badn else 0
