"""C03 — the bin-count lower bound never exceeds an achievable packing (DESIGN.md section 6)."""
from __future__ import annotations

import itertools

from .common import Check, fmt_ints, fmt_matrix, kv
from . import c03_util as U

THEOREMS = [
    "Pack.geo_isCeil", "Pack.geo_le_lowerBound", "Pack.geo_le_bins", "Pack.bins_pos", "Pack.damv_defined",
    "Pack.cutLoop_fuel_enough", "Pack.cutsq_sorted", "Pack.cutsq_tiles", "Pack.bin_facts",
    "Pack.greedy_matching_dominates", "Pack.lbQ_le_bins", "Pack.damv_le_bins", "Pack.lowerBound_le_bins",
    "Pack.lowerBoundLeBins", "Pack.fewer_bins_infeasible", "Pack.lowerBound_pos", "Pack.lowerBound_le_nItems",
    "Pack.minBins_eq", "Pack.totalArea_pos", "Pack.bounds_in_range",
]


def fmt_inst(W, H, items, *more) -> str:
    hd = " ".join(str(int(v)) for v in (W, H, *more))
    return f"{hd} ; {fmt_matrix(items)}"


def cints(xs) -> str:
    return ",".join(str(int(v)) for v in xs)


class Impl:
    """the real functions (module-level, double underscore names are not mangled outside classes)"""

    def __init__(self):
        import numpy as np
        import moptipyapps.binpacking2d.instance as im
        self.np = np
        self.im = im
        self.Instance = im.Instance
        self.cutsq = getattr(im, "__cutsq")
        self.lbq = getattr(im, "__lb_q")
        self.damv = im._lower_bound_damv

    def instance(self, W, H, items):
        """the instance, or None if the constructor rejects it (ValueError/TypeError), or the name of any
        other exception (ZeroDivisionError, ...) - which an accepted instance must never see"""
        import signal

        class _Timeout(Exception):
            pass

        def _alarm(*_):
            raise _Timeout

        # every constructor call of these streams takes milliseconds on the modelled code; a changed lower-bound loop
        # (e.g. iterating over the LONGER bin side of a 2 x 10^12 bin) must not hang the check
        old = signal.signal(signal.SIGALRM, _alarm)
        signal.setitimer(signal.ITIMER_REAL, 15.0)
        try:
            return self.Instance("i", int(W), int(H), [list(map(int, r)) for r in items])
        except (ValueError, TypeError):
            return None
        except _Timeout:
            return "Timeout(15s)"
        except Exception as e:  # noqa: BLE001 - reported as a finding with the failing input
            return type(e).__name__
        finally:
            signal.setitimer(signal.ITIMER_REAL, 0)
            signal.signal(signal.SIGALRM, old)

    def lb_line(self, W, H, items, verbose):
        """canonical implementation answer to `lb` / `lbv` for an instance the constructor accepts"""
        np = self.np
        inst = self.instance(W, H, items)
        if inst is None:
            return None, "valid=false"
        if isinstance(inst, str):
            return inst, f"valid=true EXC={inst}"
        try:
            sq = self.cutsq(inst)
            damv = self.damv(int(W), int(H), np.array(items, dtype=np.int64))
            out = (f"valid=true damv={damv} lb={inst.lower_bound_bins} nsq={len(sq)} ssum={sum(sq)} "
                   f"ssq={sum(v * v for v in sq)}")
            if verbose:
                fw, fh = (H, W) if H > W else (W, H)
                lq = [self.lbq(fw, fh, q, sq) for q in range(fh // 2 + 1)]
                out += f" sq={cints(sq)} lq={cints(lq)}"
        except ArithmeticError as e:
            out = f"valid=true EXC={type(e).__name__}"
        return inst, out


def model_lb_line(d: dict, verbose: bool) -> str:
    if d.get("valid") != "true":
        return "valid=false"
    out = f"valid=true damv={d.get('damv')} lb={d.get('lb')} nsq={d.get('nsq')} ssum={d.get('ssum')} ssq={d.get('ssq')}"
    if verbose:
        out += f" sq={d.get('sq', '')} lq={d.get('lq', '')}"
    return out


# ------------------------------------------------------------------ generators
def valid_dims(W, H):
    mx, mn = max(W, H), min(W, H)
    return [(w, h) for w in range(1, mx + 1) for h in range(1, mx + 1) if not (w > mn and h > mn)]


def gen_small(ck: Check):
    """exhaustive: W,H <= 6 with one or two item types (rep 1..3); sampled: three types"""
    rng = ck.rng
    bins = [(W, H) for W in range(1, 7) for H in range(1, 7)]
    one, two = [], []
    for W, H in bins:
        dims = valid_dims(W, H)
        types = [(w, h, r) for (w, h) in dims for r in (1, 2, 3)]
        one.extend((W, H, [list(t)]) for t in types)
        two.extend((W, H, [list(a), list(b)]) for a, b in itertools.combinations_with_replacement(types, 2)
                   if a[2] + b[2] <= 5)
    if ck.quick:
        one = rng.sample(one, min(len(one), 700))
        two = rng.sample(two, min(len(two), 2500))
    else:
        two = rng.sample(two, min(len(two), 60000))
    for c in one:
        yield ("exh1", *c)
    for c in two:
        yield ("exh2", *c)
    for _ in range(1200 if ck.quick else 100000):
        W, H = rng.choice(bins)
        dims = valid_dims(W, H)
        items, tot = [], 0
        for _ in range(3):
            w, h = rng.choice(dims)
            r = rng.randint(1, 3)
            if tot + r > 8:
                break
            tot += r
            items.append([w, h, r])
        yield "exh3", W, H, items


def near(rng, W, H):
    """a side length around one of the thresholds of __lb_q (in either frame)"""
    fw, fh = max(W, H), min(W, H)
    q = rng.randint(0, fh // 2)
    base = rng.choice([fw // 2, fw // 2 + 1, (fw + 1) // 2, fh // 2, fh // 2 + 1, (fh + 1) // 2, fw - q, fw - q + 1,
                       fh - q, fh - q + 1, q, q - 1, q + 1, fh, fw, fh - 1, 1, 2])
    return max(1, base + rng.choice([0, 0, 0, -1, 1]))


def gen_item(rng, W, H, mode):
    mx, mn = max(W, H), min(W, H)
    for _ in range(50):
        if mode == "near":
            w, h = near(rng, W, H), near(rng, W, H)
            if rng.random() < 0.5:
                h = w
        elif mode == "square":
            w = h = rng.randint(1, mn)
        elif mode == "big":
            w, h = rng.randint(max(1, mn // 2 - 1), mx), rng.randint(max(1, mn // 2 - 1), mn)
        else:
            w, h = rng.randint(1, mx), rng.randint(1, mx)
        if rng.random() < 0.5:
            w, h = h, w
        if 1 <= w <= mx and 1 <= h <= mx and not (w > mn and h > mn):
            return w, h
    return 1, 1


def gen_mid(ck: Check):
    """boundary (threshold) and structured random instances, W,H <= 200, <= 40 items, both orientations"""
    rng = ck.rng
    n = 500 if ck.quick else 30000
    for i in range(n):
        hi = rng.choice([6, 10, 12, 20, 31, 50, 100, 200])
        W, H = rng.randint(1, hi), rng.randint(1, hi)
        if i % 7 == 0:
            H = W
        mode = rng.choice(["near", "near", "near", "square", "big", "any"])
        nt = rng.randint(1, rng.choice([2, 4, 8, 20]))
        items, tot = [], 0
        for _ in range(nt):
            w, h = gen_item(rng, W, H, mode if rng.random() < 0.8 else "any")
            r = rng.choice([1, 1, 1, 2, 3, 5])
            if tot + r > 40:
                break
            tot += r
            items.append([w, h, r])
        if not items:
            items = [[1, 1, 1]]
        yield ("boundary" if mode == "near" else "random"), W, H, items
    # long bins (one side up to 1e12; the q loop runs over the short side, so that one stays small;
    # long items only with short side 1, which __cutsq does not cut at all) and bins of some 10^4
    # with squares at the half-bin thresholds
    for W, H in ((10**12, 1), (1, 10**12), (10**12, 4), (5, 999999999999), (2**40 + 1, 6), (10**6 + 1, 3),
                 (3, 10**6 + 1), (1, 1), (2, 1), (1, 2), (2, 2), (3, 2)):
        mx, mn = max(W, H), min(W, H)
        for _ in range(4):
            items = []
            for _ in range(rng.randint(1, 3)):
                if rng.random() < 0.4:
                    a, b = min(mx, rng.choice([10**5, 99999, 65536, 65537])), 1
                else:
                    a, b = rng.randint(1, min(mx, 6)), rng.randint(1, mn)
                a = max(1, a)
                items.append([a, b, rng.randint(1, 2)] if rng.random() < 0.5 else [b, a, rng.randint(1, 2)])
            yield "longbin", W, H, items
    # exactly k bins filled by full-length strips plus a tiny excess, with a bin area beyond 2^53 / k: the area bound is
    # k + 1 and only exact integer arithmetic sees it (found missing by seeded change C03-area-bound-float-ceil)
    for (L, S, k) in ((10**12, 10**4, 1), (10**12, 10**4, 3), (10**12, 100, 1000), (10**12, 9007, 1), (10**11, 10**5, 2)):
        for (W, H) in ((L, S), (S, L)):
            strip = [L, 1, S * k] if W == L else [1, L, S * k]
            for extra in ([[1, 1, 1]], [[1, 1, 2], [2, 1, 1]]):
                yield "area-excess", W, H, [strip, *extra]
    for _ in range(6 if ck.quick else 40):
        W = rng.randint(5000, 30000)
        H = rng.choice([W, W - 1, W // 2 + 1, rng.randint(W // 2, W)])
        if rng.random() < 0.5:
            W, H = H, W
        items = []
        for _ in range(rng.randint(1, 4)):
            l = near(rng, W, H)
            l = max(1, min(l, min(W, H)))
            items.append([l, l, rng.randint(1, 3)])
        yield "bigbin", W, H, items


def gen_matching(ck: Check):
    """squares around the S2/S3 frontier (W/2 < l2 <= H, H/2 < l3 <= W/2) with different residual widths:
    the instances on which the greedy matching of __lb_q decides the bound"""
    rng = ck.rng
    for _ in range(250 if ck.quick else 8000):
        W = rng.randint(8, 26)
        H = rng.randint(W // 2 + 1, W)
        items, tot = [], 0
        for _ in range(rng.randint(2, 6)):
            kind = rng.random()
            if kind < 0.4:
                l = rng.randint(W // 2 + 1, H)
            elif kind < 0.85:
                l = rng.randint(H // 2 + 1, max(H // 2 + 1, W // 2))
            else:
                l = rng.randint(1, max(1, H // 2))
            r = rng.choice([1, 1, 2, 3])
            if tot + r > 9:
                break
            tot += r
            items.append([l, l, r])
        if not items:
            continue
        if rng.random() < 0.5:
            W, H = H, W
        yield "matching", W, H, items


def gen_malformed(ck: Check):
    """instances the constructor must reject (the model's `Valid` must say so too)"""
    yield "malformed", 5, 4, [[5, 5, 1]]          # fits in neither orientation
    yield "malformed", 5, 4, [[6, 1, 1]]          # longer than the longer bin side
    yield "malformed", 5, 4, [[0, 1, 1]]
    yield "malformed", 5, 4, [[1, 0, 1]]
    yield "malformed", 5, 4, [[1, 1, 0]]
    yield "malformed", 0, 4, [[1, 1, 1]]
    yield "malformed", 4, 0, [[1, 1, 1]]
    yield "malformed", 4, -1, [[1, 1, 1]]
    yield "malformed", 10**12 + 1, 4, [[1, 1, 1]]
    yield "malformed", 4, 4, [[1, 1, 10**8 + 1]]
    yield "malformed", 4, 5, [[5, 4, 1], [5, 5, 1]]


# ------------------------------------------------------------------ witnesses (known packings)
def heuristic_packing(impl: Impl, inst, rng, tries: int):
    """the best of a few bottom-left decodings of the repository's own encoding"""
    import numpy as np
    from moptipyapps.binpacking2d.encodings.ibl_encoding_1 import ImprovedBottomLeftEncoding1
    from moptipyapps.binpacking2d.packing import Packing
    enc = ImprovedBottomLeftEncoding1(inst)
    y = Packing(inst)
    base = []
    for i in range(inst.n_different_items):
        base.extend([i + 1] * int(inst[i, 2]))
    by_area = sorted(base, key=lambda i: -int(inst[i - 1, 0]) * int(inst[i - 1, 1]))
    by_side = sorted(base, key=lambda i: -max(int(inst[i - 1, 0]), int(inst[i - 1, 1])))
    best = None
    for t in range(tries):
        if t == 0:
            x = list(by_area)
        elif t == 1:
            x = list(by_side)
        elif t == 2:
            x = [-v for v in by_area]
        else:
            x = [v if rng.random() < 0.5 else -v for v in base]
            rng.shuffle(x)
        enc.decode(np.array(x, dtype=np.int64), y)
        nb = int(y.n_bins)
        if best is None or nb < best[1]:
            best = ([[int(v) for v in r] for r in y], nb)
    return best


def streams(ck: Check) -> None:
    """Correspondence (B) and spec oracle (C) for the lower bound."""
    import numpy as np
    from moptipyapps.binpacking2d.objectives.bin_count import BinCount
    from moptipyapps.binpacking2d.instgen.instance_space import InstanceSpace
    impl = Impl()
    rng = ck.rng
    ops, ctx = [], []   # ctx: (kind, stream, impl canonical / None, payload)
    per_key: dict = {}

    def spec(holds, key, what, case):
        """ck.spec, but at most 3 recorded failures per clause so that the replay shows every clause hit"""
        if not holds:
            per_key[key] = per_key.get(key, 0) + 1
            if per_key[key] > 3:
                ck.count("more_" + key)
                ck.spec_checked += 1
                return False
        return ck.spec(holds, key, what, case)

    def add_lb(stream, W, H, items, verbose, witness=None, name=None):
        """one `lb`/`lbv` op + oracle data; witness = (rows, k, how) of a packing believed feasible"""
        inst, iout = impl.lb_line(W, H, items, verbose) if name is None else name
        line = f"{'lbv' if verbose else 'lb'} {fmt_inst(W, H, items)}"
        ops.append(line)
        ctx.append(("lb", stream, iout, (W, H, items, inst, verbose)))
        ck.case(line, nontrivial=inst is not None)
        ck.count(stream)
        if inst is None:
            ck.count("ctor_err")
            return None
        if isinstance(inst, str):
            ck.count("ctor_exception")
            spec(False, "ctor_exception", f"Instance(...) raises {inst} while computing the lower bound of an "
                    "instance that passed all argument checks", {"W": W, "H": H, "items": items})
            ctx[-1] = ("lb", stream, iout, (W, H, items, None, verbose))
            return None
        lb = int(inst.lower_bound_bins)
        area = sum(w * h * r for w, h, r in items)
        geo = -(-area // (W * H))
        small = len(items) <= 12
        case = {"W": W, "H": H, "items": items if small else f"<{len(items)} types>", "lower_bound_bins": lb}
        # C: at least the area bound
        spec(lb >= geo, "lb_lt_geo", f"lower_bound_bins={lb} is below ceil(area/bin area)={geo}", case)
        spec(lb <= int(inst.n_items), "lb_gt_nitems", f"lower_bound_bins={lb} exceeds the number of items {inst.n_items}", case)
        # C: the observers return the instance's bound
        spec(BinCount(inst).lower_bound() == lb, "bincount_lb",
                f"BinCount.lower_bound()={BinCount(inst).lower_bound()} != lower_bound_bins={lb}", case)
        try:
            mb = InstanceSpace(inst).min_bins
        except (ValueError, TypeError):
            mb = None   # InstanceSpace has stricter limits (oriented items, sizes <= 1e9)
            ck.count("instspace_rejects")
        if mb is not None:
            spec(mb == lb, "min_bins", f"InstanceSpace.min_bins={mb} != lower_bound_bins={lb}", case)
        ck.count(f"lb_{'damv' if lb > geo else 'geo'}")
        if witness is not None:
            rows, k, how = witness
            wl = f"feas {fmt_inst(W, H, items, k)} ; {fmt_matrix(rows)}"
            ops.append(wl)
            ctx.append(("feas", stream, None, (W, H, items, lb, rows, k, how)))
            ck.count(f"witness_{how}")
            if lb == k:
                ck.count("bound_tight")
        return inst

    # ---- (1) shipped instances
    names = list(impl.Instance.list_resources())
    for nm in names:
        inst = impl.Instance.from_resource(nm)
        W, H = int(inst.bin_width), int(inst.bin_height)
        items = [[int(v) for v in r] for r in inst]
        sq = impl.cutsq(inst)
        damv = impl.damv(W, H, np.array(items, dtype=np.int64))
        iout = (f"valid=true damv={damv} lb={inst.lower_bound_bins} nsq={len(sq)} ssum={sum(sq)} "
                f"ssq={sum(v * v for v in sq)}")
        wit = None
        if inst.n_items <= (60 if ck.quick else 10**9):
            rows, nb = heuristic_packing(impl, inst, rng, 3)
            wit = (rows, nb, "heuristic")
        add_lb("shipped", W, H, items, False, wit, name=(inst, iout))

    # ---- (2) exhaustive / sampled small scope with the exact optimum
    for stream, W, H, items in gen_small(ck):
        n = sum(r for _, _, r in items)
        wit = None
        if n <= 8:
            k, rows = U.optimum(W, H, [tuple(r) for r in items], node_limit=200_000)
            if k is not None:
                wit = (rows, k, "optimum")
            else:
                ck.count("exact_budget_exhausted")
        add_lb(stream, W, H, items, True, wit)

    # ---- (3)/(4) boundary + random mid-size instances, witness = best bottom-left packing
    for stream, W, H, items in gen_mid(ck):
        inst = impl.instance(W, H, items)
        wit = None
        if inst is not None and not isinstance(inst, str) and max(W, H) <= 10**9:
            rows, nb = heuristic_packing(impl, inst, rng, 4)
            wit = (rows, nb, "heuristic")
        add_lb(stream, W, H, items, max(W, H) <= 200, wit)

    # ---- squares around the S2/S3 frontier: exact optimum where affordable, else best bottom-left packing
    for stream, W, H, items in gen_matching(ck):
        n = sum(r for _, _, r in items)
        wit = None
        if n <= 7:
            k, rows = U.optimum(W, H, [tuple(r) for r in items], node_limit=60_000)
            if k is not None:
                wit = (rows, k, "optimum")
            else:
                ck.count("exact_budget_exhausted")
        if wit is None:
            inst = impl.instance(W, H, items)
            if inst is not None and not isinstance(inst, str):
                rows, nb = heuristic_packing(impl, inst, rng, 6)
                wit = (rows, nb, "heuristic")
        add_lb(stream, W, H, items, True, wit)

    # ---- (5) optimum known by construction: guillotine-cut perfect packings (and thinned ones)
    for i in range(300 if ck.quick else 15000):
        hi = rng.choice([4, 6, 8, 12, 20, 40, 100, 200])
        W, H = rng.randint(1, hi), rng.randint(1, hi)
        k = rng.randint(1, 6)
        placed = U.guillotine(rng, W, H, k, rng.choice([1, 2, 3, 5, 8]))
        drop = 0 if i % 3 else rng.randint(1, 4)
        items, rows, nb = U.instance_from_placed(rng, placed, drop)
        add_lb("perfect" if drop == 0 else "thinned", W, H, items, True, (rows, nb, "guillotine"))

    # ---- malformed
    for stream, W, H, items in gen_malformed(ck):
        add_lb(stream, W, H, items, False)

    # ---- (6) function level: __lb_q on arbitrary non-increasing lists, __cutsq on single rows
    for i in range(1500 if ck.quick else 30000):
        W, H = rng.randint(1, 30), rng.randint(1, 30)
        if i % 2:
            W, H = max(W, H), min(W, H)
        q = rng.randint(-1, H // 2 + 2)
        ls = [rng.randint(0, max(W, H) + 1) for _ in range(rng.randint(0, 12))]
        ls.sort(reverse=True)   # the contract of __lb_q: a non-increasing list
        try:
            v = f"v={impl.lbq(W, H, q, list(ls))}"
        except ZeroDivisionError:
            v = "ERR"
        line = f"lbq {W} {H} {q} ; {fmt_ints(ls)}"
        ops.append(line)
        ctx.append(("lbq", "lbq", v, None))
        ck.case(line)
        ck.count("lbq")
    for i in range(300 if ck.quick else 5000):
        w, h = rng.randint(1, 60), rng.randint(1, 60)
        rep = rng.choice([-1, 0, 1, 1, 2, 3])
        s = impl.cutsq(np.array([[w, h, rep]], dtype=np.int64))
        line = f"cut {w} {h} {rep}"
        ops.append(line)
        ctx.append(("cut", "cut", cints(s), None))
        ck.case(line)
        ck.count("cut")

    outs = ck.model(ops)
    for line, (kind, stream, iout, pl), mout in zip(ops, ctx, outs):
        d = kv(mout)
        if kind == "lb":
            W, H, items, inst, verbose = pl
            ck.compare(stream, line[:600], model_lb_line(d, verbose), iout)
            if inst is not None:
                area = sum(w * h * r for w, h, r in items)
                ck.compare(stream + ":geo", line[:600], d.get("geo", mout), str(-(-area // (W * H))))
        elif kind == "lbq":
            ck.compare(stream, line, mout if mout == "ERR" else "v=" + d.get("v", mout), iout)
        elif kind == "cut":
            s = sorted((int(v) for v in d.get("s", "").split(",") if v), reverse=True)
            ck.compare(stream, line, cints(s), iout)
        else:
            W, H, items, lb, rows, k, how = pl
            # the witness must be feasible by the Lean specification (otherwise the harness, not the code, is wrong)
            if not ck.compare(stream + ":witness_" + how, line[:600], d.get("feas", mout), "true"):
                continue
            small = len(rows) <= 16
            spec(lb <= k, "lb_gt_packing",
                    f"lower_bound_bins={lb} exceeds the {k} bins of a packing that Pack.Feasible accepts ({how})",
                    {"W": W, "H": H, "items": items if small else f"<{len(items)} types>", "lower_bound_bins": lb,
                     "bins": k, "rows": rows if small else f"<{len(rows)} rows>", "how": how})


def check(ck: Check) -> None:
    ck.rule = ("all 557 shipped instances + instances with W,H<=6 and 1-2 item types (exhaustive in the thorough tier, sampled "
               "in quick) and 3 types (sampled), each with the exact optimum of an exhaustive packer (witness validated by the "
               "Lean spec Pack.Feasible) + threshold/boundary and random instances W,H<=200, <=40 items, both orientations "
               "(witness: best bottom-left decoding of the repository's encoding) + squares around the S2/S3 frontier (exact "
               "optimum or bottom-left witness) + guillotine-cut perfect and thinned packings (optimum known by construction) "
               "+ bins with one side up to 1e12 and bins of ~1e4 with squares at the half-bin thresholds + function-level "
               "__lb_q on non-increasing lists (also W<H, q outside its range) and __cutsq on single rows + rejected "
               "instances; a case is one protocol line; non-trivial = constructor accepted; distinct by line hash")
    ck.assumptions += [
        "Python int/float comparison `l > W/2` is exact and W/2 is exactly representable for W < 2^53 (Valid bounds W,H <= 1e12); "
        "the model compares 2*l > W",
        "list.sort(reverse=True) returns the non-increasing rearrangement (modelled by an insertion sort, proved sorted + permutation)",
        "the code's index lists s1..s4 are modelled by the lists of the values j_js[i] in the same order",
        "numpy int(row[i]) conversions and the ndarray subclass machinery of Instance are outside the model",
        "the exact packer and the guillotine generator of the harness are untrusted: every witness packing is validated by the "
        "Lean specification Pack.Feasible through the driver before it is used",
    ]
    ck.not_proved += []   # the full statement Pack.LowerBoundLeBins is proved (Pack.lowerBoundLeBins), all five layers
    ck.notes.append("layers: cutsq_tiles (1), bin_facts (2+4), greedy_matching_dominates (3), lbQ_le_bins/damv_le_bins (5); "
                    "corollaries lowerBound_le_nItems, minBins_eq, bounds_in_range (final check_int_range never rejects)")
    ck.lean(["Props.C03"], THEOREMS)
    streams(ck)
