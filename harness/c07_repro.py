"""Stand-alone reproduction of the C07 finding `upper_bound_exceeded` on the real code (run with /venv/bin/python).

Errors.upper_bound() = (4*D - 1)*n - 1 is not an upper bound of Errors.evaluate over the game-plan space.
"""
import os
import sys
from pathlib import Path

_ROOT = Path(__file__).resolve().parent.parent
os.environ.setdefault("NUMBA_CACHE_DIR", str(_ROOT / ".work" / "numba-jit"))   # never write into the repository
sys.path.insert(0, os.environ.get("VERIF_REPO", "/repo"))

import numpy as np  # noqa: E402
from moptipyapps.ttp.errors import Errors  # noqa: E402
from moptipyapps.ttp.game_plan import GamePlan  # noqa: E402
from moptipyapps.ttp.game_plan_space import GamePlanSpace  # noqa: E402
from moptipyapps.ttp.instance import Instance  # noqa: E402


def show(inst, rows, what):
    f = Errors(inst)
    x = GamePlan(inst)
    x[:, :] = np.array(rows)
    GamePlanSpace(inst).validate(x)          # the plan is in the search space
    print(f"{what}: evaluate = {f.evaluate(x)}  upper_bound = {f.upper_bound()}")


def custom(n, rounds, cfg):
    m = np.array([[0 if i == j else 1 + abs(i - j) for j in range(n)] for i in range(n)])
    return Instance("w", m, [f"t{i}" for i in range(n)], rounds, *cfg)


def mirrored(n, rounds):
    teams, rr = list(range(n)), []
    for _ in range(n - 1):
        rr.append([(teams[i], teams[n - 1 - i]) for i in range(n // 2)])
        teams = [teams[0]] + [teams[-1]] + teams[1:-1]
    order = []
    for k in range(rounds):
        order += list(range(n - 1)) if k % 2 == 0 else list(range(n - 1))[::-1]
    plan = []
    for i in order:
        row = [0] * n
        for a, b in rr[i]:
            a, b = min(a, b), max(a, b)
            row[a], row[b] = b + 1, -(a + 1)
        plan.append(row)
    return plan


if __name__ == "__main__":
    show(Instance.from_resource("circ4"), [[2, 3, 4, 1]] * 6,
         "shipped circ4, every team 'at home' against the next one (inconsistent plan)")            # 96 > 91
    alt = [[2, -1, 4, -3], [-2, 1, -4, 3]] * 3
    show(custom(4, 2, (7, 7, 1, 7, 1, 6)), alt, "consistent plan, home_streak_min = 7")               # 98 > 91
    show(custom(4, 2, (1, 7, 1, 7, 7, 7)), [[2, -1, 4, -3]] * 6, "consistent plan, separation_min = 7")  # 96 > 91
    show(custom(4, 2, (3, 7, 3, 7, 7, 7)), alt, "consistent plan, all minima large")                 # 134 > 91
    show(custom(10, 4, (1, 1, 1, 1, 0, 0)), mirrored(10, 4),
         "consistent plan, all minima <= 1, separation 0..0 (10 teams, 4 rounds)")                    # 1461 > 1429
