"""C10 — controlled-system simulation terminates, is bounded and self-consistent (DESIGN.md section 6).

Logic (modelled in Lean, proved): the retry state machine of `run_ode`, the row-acceptance logic,
the bookkeeping of `__IntegrationState.f`, the index arithmetic of the figure of merit.
Runtime (recorded and fed to the model / tested): scipy's RK45, dense interpolation, the float
arithmetic of controllers, equations and of the two shrink formulas.

Streams:
  fake   run_ode driven by a *scripted* integrator (monkeypatched `ode.RK45`, no repo change): reaches every
         branch of the state machine incl. those a real RK45 never produces; correspondence only
  real   run_ode with scipy's RK45 on bundled systems/controllers, linear systems, ill-behaved controllers;
         everything the integrator did is recorded and fed to the model (correspondence) and the property
         is evaluated on every returned array (spec oracle, Lean `GoodRows`/`IsFailureRow`)
  j      j_from_ode / t_from_ode / the raw kernel on dyadic matrices (exact), results of real runs (tolerance)
  misc   analytic solution of x' = (a-k)x (numeric test), diff_from_ode (numeric test), System validation
"""
from __future__ import annotations

import json
import math
import random
from fractions import Fraction

from .common import Check, kv

THEOREMS = [
    "Ode.isOk_iff",
    "Ode.fState_invariant",
    "Ode.runOde_terminates_shape",
    "Ode.runOde_rows_ok",
    "Ode.runOde_time_limit",
    "Ode.rows_from_covering_interpolator",
    "Ode.jCompute_fills_exactly",
    "Ode.j_eq_documented",
    "Ode.j_nonneg",
]

INF = math.inf


# --------------------------------------------------------------------------- exact tokens
def tok(x) -> str:
    x = float(x)
    if math.isnan(x):
        return "nan"
    if math.isinf(x):
        return "inf" if x > 0 else "-inf"
    f = Fraction(x)
    return str(f.numerator) if f.denominator == 1 else f"{f.numerator}/{f.denominator}"


def toks(xs) -> str:
    return ",".join(tok(v) for v in xs) or "_"


def frac(s: str) -> Fraction:
    return Fraction(s)


# --------------------------------------------------------------------------- recording run_ode
class Budget(Exception):
    """the step budget of a recorded run is exhausted (the real call would not return in time)"""


class Recorder:
    """Runs `run_ode` with wrappers that record everything the integrator and `run_ode` do.

    `fake` = None: scipy's RK45;  otherwise a callable `fake(cycle_index, t_bound) -> script`.
    """

    def __init__(self, ode_mod, fake=None, step_budget=20000):
        self.ode = ode_mod
        self.fake = fake
        self.step_budget = step_budget
        self.wall_limit = 30.0 if fake is None else 0.0     # seconds; real integrator runs only
        self.cycles: list[dict] = []
        self.state = None
        self.in_f = False
        self.cur_eval = None
        self.target = None
        self.nsteps = 0

    # -- wrappers -------------------------------------------------------------
    def snapshot(self):
        s = self.state
        return (float(s.max_ok_t), float(s.min_error_t), bool(s.is_ok))

    def run(self, start, equations, controller, params, cdim, steps, max_time):
        import numpy as np
        rec = self
        mod = self.ode
        base = getattr(mod, "__IntegrationState")
        real_rk = mod.RK45

        def ctrl_w(state, t, p, dest):
            controller(state, t, p, dest)
            if rec.in_f:
                rec.cur_eval["ctrl"] = [float(v) for v in dest]
            else:
                rec.cycles[-1]["rowcalls"].append(([float(v) for v in state], float(t), [float(v) for v in dest]))

        def eq_w(state, t, c, out):
            equations(state, t, c, out)
            rec.cur_eval["out"] = [float(v) for v in out]

        class RecState(base):  # noqa
            def __init__(self, *args, **kwargs):     # whatever signature the integration state has today
                rec.state = self
                super().__init__(*args, **kwargs)

            def init(self):
                if rec.cycles:
                    rec.cycles[-1]["final"] = rec.snapshot()
                super().init()
                rec.cycles.append({"T": None, "pre": [], "steps": [], "dense": [], "rowcalls": [], "final": None})
                rec.target = rec.cycles[-1]["pre"]

            def f(self, t, state):
                rec.cur_eval = {"t": float(t), "ctrl": [], "out": []}
                rec.in_f = True
                try:
                    return super().f(t, state)
                finally:
                    rec.in_f = False
                    rec.target.append(rec.cur_eval)

        class RecDense:
            def __init__(self, inner, j):
                self.inner, self.j = inner, j
                self.t_min, self.t_max = inner.t_min, inner.t_max

            def __call__(self, t):
                r = self.inner(t)
                rec.cycles[-1]["dense"].append((self.j, float(t), [float(v) for v in r]))
                return r

        class RecRK45:
            def __init__(self, fun, t0, y0, t_bound, max_step=float("inf"), **kwargs):
                cyc = rec.cycles[-1]
                cyc["T"] = float(t_bound)
                cyc["max_step"] = max_step
                if rec.fake is None:
                    self.inner = real_rk(fun=fun, t0=t0, y0=y0, t_bound=t_bound, max_step=max_step, **kwargs)
                else:
                    self.inner = FakeRK45(rec.fake(len(rec.cycles), float(t_bound)), fun, y0)
                self.nd = 0

            @property
            def status(self):
                return self.inner.status

            def step(self):
                rec.nsteps += 1
                if rec.nsteps > rec.step_budget:
                    raise Budget
                cur = {"evals": [], "status": None, "seg": (0.0, 0.0), "snap": None}
                rec.target = cur["evals"]
                self.inner.step()
                cur["status"] = self.inner.status
                cur["snap"] = rec.snapshot()
                rec.cycles[-1]["steps"].append(cur)

            def dense_output(self):
                d = self.inner.dense_output()
                rec.cycles[-1]["steps"][-1]["seg"] = (float(d.t_min), float(d.t_max))
                self.nd += 1
                return RecDense(d, self.nd - 1)

        setattr(mod, "__IntegrationState", RecState)
        mod.RK45 = RecRK45
        self.result, self.error = None, None
        import signal

        class _WallTime(Exception):
            pass

        def _alarm(*_):
            raise _WallTime

        # a single RK45 step that never returns (e.g. a NaN step size inside scipy) is not counted by the step budget:
        # a wall-clock limit keeps the check from hanging and lets the caller report the termination clause
        use_alarm = self.wall_limit > 0
        if use_alarm:
            old_handler = signal.signal(signal.SIGALRM, _alarm)
            signal.setitimer(signal.ITIMER_REAL, self.wall_limit)
        try:
            with np.errstate(all="ignore"):
                self.result = mod.run_ode(np.array(start, dtype=float), eq_w, ctrl_w, params, cdim, steps, max_time)
        except Budget:
            self.error = "budget"
        except _WallTime:
            self.error = "walltime"
        except Exception as e:  # noqa: BLE001  (recorded, reported by the caller)
            import traceback
            last = traceback.extract_tb(e.__traceback__)[-1]
            # an exception raised by THIS file's recording shim (e.g. a changed private signature it hooks into) says
            # nothing about run_ode: it is a broken correspondence, not a failing input
            shim = last.filename.endswith("c10.py") and isinstance(e, (TypeError, AttributeError, KeyError, IndexError))
            self.error = ("shim:" if shim else "") + f"{type(e).__name__}:{e} ({last.filename.split('/')[-1]}:{last.lineno})"
        finally:
            if use_alarm:
                signal.setitimer(signal.ITIMER_REAL, 0)
                signal.signal(signal.SIGALRM, old_handler)
            setattr(mod, "__IntegrationState", base)
            mod.RK45 = real_rk
        if self.cycles and self.state is not None:
            self.cycles[-1]["final"] = self.snapshot()
        return self.result


class FakeDense:
    def __init__(self, tmin, tmax, fn):
        self.t_min, self.t_max, self.fn = tmin, tmax, fn

    def __call__(self, t):
        import numpy as np
        return np.array(self.fn(float(t)), dtype=float)


class FakeRK45:
    """scripted integrator: script = {"pre": [(t,y)…], "steps": [{"evals": [(t,y)…], "status", "seg", "fn"}…]}"""

    def __init__(self, script, fun, y0):
        import numpy as np
        self.script, self.fun, self.k = script, fun, 0
        self.status = "running"
        for t, y in script["pre"]:
            fun(t, np.array(y if y is not None else y0, dtype=float))

    def step(self):
        import numpy as np
        s = self.script["steps"][min(self.k, len(self.script["steps"]) - 1)]
        for t, y in s["evals"]:
            self.fun(t, np.array(y, dtype=float))
        self.status = s["status"]
        self.k += 1

    def dense_output(self):
        s = self.script["steps"][self.k - 1]
        return FakeDense(s["seg"][0], s["seg"][1], s["fn"])


# --------------------------------------------------------------------------- protocol encoding
def enc_eval(ev, np) -> str:
    return f"{tok(ev['t'])}~{tok(np.nextafter(ev['t'], -INF))}~{toks(ev['ctrl'])}~{toks(ev['out'])}"


def enc_evals(evs, np) -> str:
    return "+".join(enc_eval(e, np) for e in evs) or "_"


STATUS = {"running": "r", "finished": "f", "failed": "x"}


def shrink_values(mo, me, T, np):
    """the two float formulas of run_ode, evaluated exactly as the code does"""
    with np.errstate(all="ignore"):
        s1 = np.nextafter(min(me, (0.8 * mo) + (0.2 * me)), -INF)
        s2 = np.nextafter(0.7 * min(mo, T), -INF)
    return float(s1), float(s2)


def encode_run(rec: Recorder, start, cdim, steps, max_time, np) -> str:
    ctab, s1, s2 = {}, {}, {}
    cyc_fields = []
    for c in rec.cycles:
        for st, t, out in c["rowcalls"]:
            ctab[(toks(st), tok(t))] = toks(out)
        if c["final"] is not None and c["T"] is not None:
            mo, me, _ = c["final"]
            a, b = shrink_values(mo, me, c["T"], np)
            s1[(tok(mo), tok(me))] = tok(a)
            s2[(tok(mo), tok(c["T"]))] = tok(b)
        T = c["T"] if c["T"] is not None else 0.0
        grid = np.linspace(0.0, T, steps) if steps > 0 else []
        stp = "|".join(f"{STATUS.get(s['status'], 'x')}:{tok(s['seg'][0])}:{tok(s['seg'][1])}:{enc_evals(s['evals'], np)}"
                       for s in c["steps"]) or "_"
        dn = "|".join(f"{j}:{tok(t)}:{toks(v)}" for j, t, v in c["dense"]) or "_"
        cyc_fields.append(f"{tok(T)} # {enc_evals(c['pre'], np)} # {stp} # {toks(grid)} # {dn}")
    ct = "|".join(f"{k[0]}:{k[1]}:{v}" for k, v in ctab.items()) or "_"
    t1 = "|".join(f"{k[0]}:{k[1]}:{v}" for k, v in s1.items()) or "_"
    t2 = "|".join(f"{k[0]}:{k[1]}:{v}" for k, v in s2.items()) or "_"
    return f"odeS {toks(start)} {cdim} {steps} {tok(max_time)} ; {ct} ; {t1} ; {t2} ; " + " ; ".join(cyc_fields)


def is_failure_shape(res, n, cdim) -> bool:
    return res.shape[0] == 1 and cdim > 0 and all(float(v) == 1e100 for v in res[0, n:n + cdim])


def impl_canon(rec: Recorder, res, n, cdim, steps) -> str:
    """what the implementation did, in the format of `model_canon`"""
    if res is None:
        return f"EXC:{rec.error}"
    kind = "fail" if (is_failure_shape(res, n, cdim) and not (steps == 1 and rec.cycles and
                                                               len(rec.cycles[-1]["rowcalls"]) == 1 and
                                                               rec.cycles[-1]["final"][2] and
                                                               float(res[0, n]) != 1e100)) else "rows"
    tr = []
    for i, c in enumerate(rec.cycles):
        nxt = tok(rec.cycles[i + 1]["T"]) if i + 1 < len(rec.cycles) else "-"
        mo, me, _ = c["final"]
        tr.append(f"{i + 1}:{tok(c['T'])}:{len(c['rowcalls'])}:{tok(mo)}:{tok(me)}:{nxt}")
    rows = "|".join(toks(r) for r in res)
    return f"res={kind} cycles={len(rec.cycles)} final={tok(rec.cycles[-1]['T'])} trace={'|'.join(tr)} rows={rows}"


def model_canon(mout: str):
    """-> (canonical string comparable with impl_canon, list of branch tags)"""
    d = kv(mout)
    if "trace" not in d:
        return mout, []
    tr, tags = [], []
    ent = d["trace"].split("|")
    for i, e in enumerate(ent):
        c, T, tag, calls, mo, me, _br, new = e.split(":")
        tags.append(tag)
        tr.append(f"{c}:{T}:{calls}:{mo}:{me}:{new if i + 1 < len(ent) else '-'}")
    return f"res={d['res']} cycles={d['cycles']} final={d['final']} trace={'|'.join(tr)} rows={d['rows']}", tags


# --------------------------------------------------------------------------- scripted (fake) integrator runs
CP = [0.0, 1.5, -3.25, 9999999999.999998, 1e10, -1e10, 1e50, math.nan, INF, -INF]   # control palette (first 4 ok)
OP = [0.0, -2.0, 7.75, -9999999999.999998, 1e10, -1e10, -1e300, math.nan, INF, -INF]  # differential palette
XP = [0.0, 1.0, -2.5, 0.125, 9999999999.999998, 1e10, -1e10, math.nan, INF, -INF]   # state palette (first 5 ok)


def fake_ctrl(state, t, _p, dest):
    dest[0] = CP[int(state[1])]
    if len(dest) > 1:
        dest[1] = 0.5 * t


def fake_eq(state, _t, _c, out):
    out[:] = 0.0
    out[0] = OP[int(state[2])]


def pick_state(rng: random.Random, pbad: float):
    def code(n_ok, n):
        return rng.randrange(n_ok, n) if rng.random() < pbad else rng.randrange(0, n_ok)
    return [XP[code(5, len(XP))], float(code(4, len(CP))), float(code(4, len(OP)))]


def make_fake(rng: random.Random, seed: int):
    """a lazily generated script per cycle (depends on the time limit the code chose)"""
    style = rng.choice(["clean", "clean", "rows", "rows", "evals", "failed", "gaps", "mixed", "mixed"])
    scripts = {}

    def gen(cycle: int, T: float):
        r = random.Random(hash((seed, cycle)))
        st = style if style != "mixed" else r.choice(["clean", "rows", "evals", "failed", "gaps"])
        if cycle >= 3 and r.random() < 0.5:
            st = "clean"
        k = r.randint(1, 4)
        cuts = sorted({0.0, float(T)} | {T * r.randint(1, 15) / 16 for _ in range(k - 1)})
        if T <= 0:
            cuts = [0.0, float(T)]
        segs = list(zip(cuts[:-1], cuts[1:]))
        if st == "gaps":
            mode = r.choice(["short", "gap", "shift"])
            if mode == "short":
                segs[-1] = (segs[-1][0], segs[-1][0] + (segs[-1][1] - segs[-1][0]) * r.choice([0.0, 0.5, 0.9]))
            elif mode == "gap" and len(segs) >= 2:
                i = r.randrange(len(segs) - 1)
                segs[i] = (segs[i][0], segs[i][0] + (segs[i][1] - segs[i][0]) * 0.5)
            else:
                segs[0] = (T / 32, segs[0][1])
        p_eval_bad = {"evals": 0.25, "failed": 0.0}.get(st, 0.0)
        p_row_bad = {"rows": r.choice([0.05, 0.3]), "gaps": 0.02}.get(st, 0.0)
        steps = []
        for i, (a, b) in enumerate(segs):
            evs = []
            for _ in range(r.randint(0, 3)):
                tt = a + (b - a) * r.randint(0, 8) / 8 if r.random() < 0.8 else T * r.randint(0, 8) / 8
                evs.append((tt, pick_state(r, p_eval_bad)))
            status = "running"
            if i == len(segs) - 1:
                status = "failed" if (st == "failed" and r.random() < 0.8) else "finished"
            elif st == "failed" and r.random() < 0.3:
                status = "failed"

            def fn(t, _i=i, _c=cycle, _p=p_row_bad):
                return pick_state(random.Random(hash((seed, _c, _i, t))), _p)
            steps.append({"evals": evs, "status": status, "seg": (a, b), "fn": fn})
        pre = [(0.0, None)] + ([(0.0, None)] if r.random() < 0.5 else [])
        return {"pre": pre, "steps": steps}

    def fake(cycle: int, T: float):
        if cycle not in scripts:
            scripts[cycle] = gen(cycle, T)
        return scripts[cycle]
    return fake, style


def fake_cases(ck: Check):
    """(label, start, cdim, steps, max_time, fake)"""
    rng = ck.rng
    n = 2500 if ck.quick else 20000
    for i in range(n):
        seed = rng.randrange(1 << 30)
        fake, style = make_fake(rng, seed)
        u = rng.random()
        start = pick_state(rng, 0.0)
        if u < 0.06:
            start[0] = rng.choice([1e10, -1e10, 2e12])        # start outside the range, f still fine -> first row fails
        elif u < 0.12:
            start[1] = float(rng.randrange(4, len(CP)))       # controller bad at the start state
        elif u < 0.16:
            start[2] = float(rng.randrange(4, len(OP)))       # equations bad at the start state
        steps = rng.choice([1, 2, 2, 3, 4, 5, 6, 8, 12])
        mt = rng.choice([1.0, 2.0, 50.0, 0.75, 3e-10, 1e-9, 1e11, 7.0])
        yield f"fake:{style}", start, rng.choice([1, 1, 2]), steps, mt, fake


# --------------------------------------------------------------------------- real programs
def real_programs(ck: Check):
    """(label, start, equations, controller, params, cdim, steps, max_time, spec?, analytic) — built lazily"""
    import numba
    import numpy as np
    rng = ck.rng
    quick = ck.quick

    @numba.njit(cache=True)
    def lin_eq(state, _t, ctrl, out):     # x' = a x + u ; a is carried as the constant second state component
        out[0] = state[1] * state[0] + ctrl[0]
        out[1] = 0.0

    @numba.njit(cache=True)
    def sq_eq(state, _t, ctrl, out):      # x' = x^2 + u (finite-time blow-up)
        out[0] = state[0] * state[0] + ctrl[0]
        out[1] = 0.0

    @numba.njit(cache=True)
    def lin_ctrl(state, t, p, dest):
        # p = [k, bias, mode, T, val, T2]:  u = -k x + bias, replaced by `val` depending on mode
        u = -p[0] * state[0] + p[1]
        mode = p[2]
        if mode == 1.0 and t > p[3]:
            u = p[4]
        elif mode == 2.0 and t == p[3]:
            u = p[4]
        elif mode == 3.0:
            u = p[4]
        elif mode == 4.0 and p[3] <= t < p[5]:
            u = p[4]
        elif mode == 5.0 and abs(state[0]) > p[3]:
            u = p[4]
        elif mode == 6.0:
            u = u + p[4] * t          # genuinely time-dependent control
        dest[0] = u

    bads = [1e50, math.nan, INF, -INF, -1e10, 1e10, -3e12]

    def P(k=0.0, bias=0.0, mode=0.0, T=0.0, val=0.0, T2=0.0):
        return np.array([k, bias, mode, T, val, T2], dtype=float)

    # --- boundary / branch-driving programs ---------------------------------------------
    for steps in ([1, 2, 3, 17] if quick else [1, 2, 3, 4, 17, 64, 200]):
        for mt in (1.0, 4.0, 50.0, 2.5e-10, 1e-9):
            yield "lin:stable", [1.0, -0.5], lin_eq, lin_ctrl, P(k=0.5), 1, steps, mt, True, (1.0, -1.0)
    for a, k in ((0.0, 0.0), (-1.0, 0.0), (0.5, 1.0), (0.25, 0.0), (-2.0, 1.0), (1.0, 1.0)):
        yield "lin:analytic", [rng.choice([1.0, -2.0, 0.5]), a], lin_eq, lin_ctrl, P(k=k), 1, 33, 4.0, True, None
    # high-gain feedback (fast decay): the integrator rejects step attempts and retries with a smaller step
    for a, k in ((1.0, 21.0), (1.0, 51.0), (1.0, 101.0), (0.5, 200.0), (-1.0, 400.0)):
        for steps, mt in ((33, 4.0), (200, 1.0), (17, 0.05)):
            yield "lin:analytic", [rng.choice([1.0, -2.0]), a], lin_eq, lin_ctrl, P(k=k), 1, steps, mt, True, None
    for val in (0.25, -1.0, 3.0):
        yield "lin:timedep", [1.0, -0.5], lin_eq, lin_ctrl, P(k=0.5, mode=6.0, val=val), 1, 17, 4.0, True, None
        yield "lin:timedep", [0.5, 0.25], lin_eq, lin_ctrl, P(k=1.0, mode=6.0, val=val), 1, 9, 2.0, True, None
    for bad in bads:
        yield "bad:always", [1.0, -0.5], lin_eq, lin_ctrl, P(mode=3.0, val=bad), 1, 9, 4.0, True, None
        for T in (0.5, 3.0, 3.9999):
            yield "bad:afterT", [1.0, -0.5], lin_eq, lin_ctrl, P(k=0.5, mode=1.0, T=T, val=bad), 1, 17, 4.0, True, None
        yield "bad:at0", [1.0, -0.5], lin_eq, lin_ctrl, P(mode=2.0, T=0.0, val=bad), 1, 9, 4.0, True, None
        # only on an interpolated row: exactly one grid time of the first cycle
        for row in (1, 5, 16):
            tk = float(np.linspace(0.0, 4.0, 17)[row])
            yield "bad:gridrow", [1.0, -0.5], lin_eq, lin_ctrl, P(k=0.5, mode=2.0, T=tk, val=bad), 1, 17, 4.0, True, None
        yield "bad:window", [1.0, -0.5], lin_eq, lin_ctrl, P(k=0.5, mode=4.0, T=1.0, val=bad, T2=1.5), 1, 17, 4.0, True, None
        yield "bad:bigstate", [1.0, 3.0], lin_eq, lin_ctrl, P(mode=5.0, T=50.0, val=bad), 1, 17, 4.0, True, None
    # diverging systems
    for a in (3.0, 10.0, 30.0, 200.0):
        yield "div:exp", [1.0, a], lin_eq, lin_ctrl, P(), 1, 17, 10.0, True, None
        yield "div:exp-", [-1.0, a], lin_eq, lin_ctrl, P(), 1, 17, 10.0, True, None
    for x0 in (1.0, 0.25, 5.0):
        yield "div:blowup", [x0, 0.0], sq_eq, lin_ctrl, P(), 1, 17, 8.0, True, None
    # start outside the range (the first-row check) and at the edge
    for x0 in (1e10, -1e10, 3e11, 9999999999.999998, -9999999999.999998):
        yield "start:edge", [x0, 0.0], lin_eq, lin_ctrl, P(), 1, 5, 1.0, True, None
        yield "start:edge-decay", [x0, -1.0], lin_eq, lin_ctrl, P(), 1, 5, 1.0, True, None
        # the differential -x/2 is in range although the state is not: only the first-row check can notice
        yield "start:edge-decay", [x0, -0.5], lin_eq, lin_ctrl, P(), 1, 5, 1.0, True, None
        yield "start:edge-decay", [1.5 * x0, -0.5], lin_eq, lin_ctrl, P(), 1, 9, 4.0, True, None
    # (a time limit beyond 1e10 makes the time column leave the range: scripted stream only, because
    #  `max_step=steps` would need > 1e9 real integrator steps)

    # --- the integrator gives up although nothing left the range (finding `time_limit_grows`) ------
    def noise_eq(state, t, _c, out):
        out[0] = 9e9 * math.sin(1e15 * t) if (40.0 < t < 48.0 or 55.0 < t < 63.0) else 0.0

    def zero_ctrl(_s, _t, _p, dest):
        dest[0] = 0.0
    yield "stiff:noise", [0.0], noise_eq, zero_ctrl, None, 1, 100, 50.0, True, None

    def noise_all_eq(state, t, _c, out):   # gives up near t = 1 in every cycle: all 5 cycles fail
        out[0] = 9e9 * math.sin(1e15 * t) if t > 100.0 else 0.0
    yield "stiff:noise5", [0.0], noise_all_eq, zero_ctrl, None, 1, 1000, 2000.0, True, None

    # --- random linear programs --------------------------------------------------------------
    for _ in range(80 if quick else 600):
        a = rng.choice([-2.0, -0.5, 0.0, 0.5, 1.0, 4.0, 25.0])
        mode = rng.choice([0.0, 0.0, 1.0, 2.0, 4.0, 5.0])
        steps = rng.choice([2, 5, 9, 17, 40])
        mt = rng.choice([0.5, 2.0, 8.0, 20.0])
        T = mt * rng.random()
        if mode == 2.0:
            T = float(np.linspace(0.0, mt, steps)[rng.randrange(steps)])
        p = P(k=rng.choice([0.0, 0.5, 3.0]), bias=rng.choice([0.0, 0.25]), mode=mode, T=T,
              val=rng.choice(bads + [5.0, -9e9]), T2=T + mt * 0.1)
        yield "lin:random", [rng.choice([1.0, -1.0, 0.125, 100.0]), a], lin_eq, lin_ctrl, p, 1, steps, mt, True, None

    # --- bundled systems x bundled controllers -------------------------------------------------
    from moptipyapps.dynamic_control.controllers.ann import anns
    from moptipyapps.dynamic_control.controllers.cubic import cubic
    from moptipyapps.dynamic_control.controllers.linear import linear
    from moptipyapps.dynamic_control.controllers.predefined import predefined
    from moptipyapps.dynamic_control.controllers.quadratic import quadratic
    from moptipyapps.dynamic_control.systems.lorenz import make_lorenz
    from moptipyapps.dynamic_control.systems.stuart_landau import make_stuart_landau
    from moptipyapps.dynamic_control.systems.three_coupled_oscillators import make_3_couple_oscillators
    systems = [make_stuart_landau(3), make_lorenz(3)] + ([] if quick else [make_3_couple_oscillators(3)])
    for system in systems:
        ctrls = []
        for mk in ([linear, quadratic] if quick else [linear, quadratic, cubic]):
            try:
                ctrls.append(mk(system))
            except ValueError:      # e.g. no polynomial controllers for the 6-dimensional oscillators
                ck.count("real:bundled:no-controller")
        if not quick:
            try:
                ctrls += [*list(anns(system))[:3], *predefined(system)]
            except ValueError:
                ck.count("real:bundled:no-controller")
        elif system.state_dims == 2:
            ctrls += [cubic(system), list(anns(system))[1]]
        for ctrl in ctrls:
            for rep in range(2 if quick else 6):
                scale = [0.1, 1.0, 32.0, 1000.0, 1e6, 3.0][rep % 6]
                params = np.array([rng.uniform(-1, 1) * scale for _ in range(ctrl.param_dims)])
                pts = np.vstack([system.test_starting_states, system.training_starting_states])
                start = [float(v) for v in pts[rng.randrange(len(pts))]]
                yield (f"bundled:{system.name}:{ctrl.name}", start, system.equations, ctrl.controller, params,
                       system.control_dims, rng.choice([8, 20, 33]), rng.choice([2.0, 6.0]), True,
                       ("sys", system))


def check_env_assumptions(ck: Check, rec: Recorder, steps, np, case):
    """the runtime assumptions `EnvOk` of the theorems, checked on what really happened"""
    for c in rec.cycles:
        T = c["T"]
        evs = c["pre"] + [e for s in c["steps"] for e in s["evals"]]
        ck.spec(all(e["t"] <= np.nextafter(T, INF) for e in evs), "assume_evals_le",
                f"RK45 evaluated more than one ulp beyond t_bound={T}", case)
        if any(e["t"] > T for e in evs):
            ck.count("real:eval_one_ulp_beyond_bound")
        if T is not None and T > 0:
            g = np.linspace(0.0, T, steps)
            ck.spec(len(g) == steps and g[0] == 0.0 and all(g[i] < g[i + 1] for i in range(steps - 1))
                    and g[-1] <= T, "assume_grid", f"np.linspace(0,{T},{steps}) is not an increasing grid within [0,T]", case)
            mo, me, _ = c["final"]
            s1, s2 = shrink_values(mo, me, T, np)
            if math.isfinite(me):
                ck.spec(s1 < me, "assume_shrink1", f"shrink1({mo},{me})={s1} is not below min_error_t", case)
            if not math.isnan(mo):
                ck.spec(s2 < T, "assume_shrink2", f"shrink2({mo},{T})={s2} is not below the limit", case)


def run_real(ck: Check, ode_mod, np, ops, expect):
    """run the real programs, record, queue model ops; spec oracle on the returned arrays"""
    jobs = []
    for (label, start, eqs, ctl, params, cdim, steps, mt, _spec, extra) in real_programs(ck):
        ck.count("real:" + label.split(":")[0] + ":" + label.split(":")[1])
        rec = Recorder(ode_mod, None, step_budget=4000 if ck.quick else 20000)
        res = rec.run(start, eqs, ctl, params, cdim, steps, mt)
        n = len(start)
        case = {"program": label, "start": start, "params": None if params is None else [float(v) for v in params],
                "steps": steps, "max_time": mt}
        bounds = [c["T"] for c in rec.cycles if c["T"] is not None]
        # --- C: termination / the time limit never grows -------------------------------------
        grew = [b for b in bounds if b > mt]
        ck.spec(not grew, "time_limit_grows",
                f"run_ode raised its time limit above max_time={mt}: per-cycle limits {bounds}"
                + (" and did not return within the step budget" if rec.error == "budget" else ""), case)
        ck.spec(len(rec.cycles) <= 5, "cycles", f"{len(rec.cycles)} cycles", case)
        if res is None and rec.error == "walltime":
            ck.spec(False, "terminates", "run_ode did not return within 30 s although fewer than "
                    f"{rec.step_budget} integrator steps were taken (one integrator step never returned): the "
                    "simulation must terminate for every controller, incl. NaN/inf outputs", case)
            ck.count("real:walltime")
            continue
        if res is None and str(rec.error).startswith("shim:"):
            ck.compare("recorder", f"odeS <{label} start={start} steps={steps} max_time={mt}>", "recording shim fits run_ode",
                       "recording shim no longer fits: " + rec.error)
            ck.count("real:shim_broken")
            continue
        if res is None:
            if rec.error != "budget":
                ck.spec(False, "no_result", f"run_ode did not return: {rec.error}", case)
            # budget: a stiff program that needs more RK45 steps than we record (e.g. 96000 for Stuart-Landau
            # with gains ~5e5); termination of scipy's stepping is runtime, so this is skipped, not a verdict
            ck.count("real:budget_exhausted_skipped" if rec.error == "budget" else "real:noresult")
            continue
        check_env_assumptions(ck, rec, steps, np, case)
        line = encode_run(rec, start, cdim, steps, mt, np)
        ops.append(line)
        expect.append(("odeS", "real:" + label, impl_canon(rec, res, n, cdim, steps), None))
        ck.case(line if len(line) < 3000 else f"odeS <{label} start={start} steps={steps} max_time={mt}>")
        # bookkeeping of f, per cycle
        for c in rec.cycles:
            if c["steps"]:
                evs = c["pre"] + [e for s in c["steps"] for e in s["evals"]]
                mo, me, ok = c["steps"][-1]["snap"]
                ops.append("odeF " + enc_evals(evs, np))
                expect.append(("odeF", "real:" + label, f"ok={'true' if ok else 'false'} maxOk={tok(mo)} minErr={tok(me)}", None))
        # --- C: the property on the returned array (Lean spec, evaluated by the driver) -----------
        exp_ctrl = []
        for r in res:
            d = np.full(cdim, np.nan)
            with np.errstate(all="ignore"):
                ctl(np.array(r[0:n]), float(r[-1]), params, d)
            exp_ctrl.append([float(v) for v in d])
        ops.append(f"odeC {toks(start)} {cdim} {steps} {tok(mt)} ; " + "|".join(toks(r) for r in res) + " ; "
                   + "|".join(toks(r) for r in exp_ctrl))
        expect.append(("odeC", "real:" + label, None, (case, res.shape, bounds)))
        jobs.append((label, start, res, n, cdim, steps, mt, extra, params, case))
    return jobs


# --------------------------------------------------------------------------- multi_run_ode (the glue the objective uses)
def multi_run(ck: Check, ode_mod, np) -> None:
    """`multi_run_ode` = one `run_ode` per starting state (test states with the test budget first, then training states
    with the training budget), each handed to every collector as (index, ode, j_from_ode(ode), t_from_ode(ode)).
    Judged against separate calls of the (already judged) `run_ode` / `j_from_ode` / `t_from_ode`."""
    rng = ck.rng
    progs = {}
    for (label, start, eqs, ctl, params, cdim, steps, mt, _spec, _extra) in real_programs(ck):
        kind = label.split(":")[1]
        if kind in ("stable", "analytic", "timedep", "exp", "afterT") and kind not in progs:
            progs[kind] = (label, start, eqs, ctl, params, cdim)

    def same(a, b):
        return a.shape == b.shape and bool(np.array_equal(a, b, equal_nan=True))

    for kind, (label, start, eqs, ctl, params, cdim) in sorted(progs.items()):
        n = len(start)
        for _ in range(2 if ck.quick else 8):
            test = [np.array(start, dtype=float)] + [np.array([start[0] * rng.choice([0.5, -1.0, 2.0]), start[1]])
                                                     for _ in range(rng.randint(0, 2))]
            train = [np.array([start[0] + rng.choice([0.25, -0.75]), start[1]]) for _ in range(rng.randint(0, 2))]
            ts, tt = rng.choice([2, 5, 17]), rng.choice([1.0, 4.0])
            rs, rt = rng.choice([3, 9, 33]), rng.choice([0.5, 2.0])
            use, gamma = rng.choice([-1, 0, 1, n]), rng.choice([0.1, 0.5, 2.0])
            got_a, got_b = [], []
            case = {"program": label, "test": [v.tolist() for v in test], "training": [v.tolist() for v in train],
                    "test_steps": ts, "test_time": tt, "training_steps": rs, "training_time": rt,
                    "use_state_dims": use, "gamma": gamma}
            coll = (lambda i, o, j, t: got_a.append((i, o, j, t)), lambda i, o, j, t: got_b.append((i, o, j, t)))
            single = rng.random() < 0.3
            with np.errstate(all="ignore"):
                ode_mod.multi_run_ode(test, train, coll[0] if single else coll, eqs, ctl, params, cdim, ts, tt, rs, rt, use, gamma)
                want = [ode_mod.run_ode(sp, eqs, ctl, params, cdim, ts, tt) for sp in test] + \
                       [ode_mod.run_ode(sp, eqs, ctl, params, cdim, rs, rt) for sp in train]
            ck.count("multi_run:" + kind)
            ck.case(f"multi_run {json.dumps(case, sort_keys=True)}")
            ok = len(got_a) == len(want) and (single or len(got_b) == len(want))
            ck.spec(ok, "multi_run", f"collector called {len(got_a)}/{len(got_b)} times for {len(want)} starting states", case)
            if not ok:
                continue
            for k, w in enumerate(want):
                i, o, j, t = got_a[k]
                with np.errstate(all="ignore"):
                    wj = guarded_j(ck, ode_mod, np, w, n, use, gamma, case)
                    wt = ode_mod.t_from_ode(w)
                good = (i == k and same(o, w) and (j == wj or (j != j and wj != wj)) and t == wt
                        and (single or (got_b[k][0] == k and same(got_b[k][1], w) and got_b[k][3] == wt)))
                ck.spec(good, "multi_run",
                        f"multi_run_ode result #{k}: index {i}, j={j} (separate j_from_ode: {wj}), t={t} (t_from_ode: {wt}), "
                        f"simulation {'equals' if same(o, w) else 'DIFFERS from'} the separate run_ode call with the "
                        f"{'test' if k < len(test) else 'training'} budget", case)


# --------------------------------------------------------------------------- starting states that are not float64
def start_dtypes(ck: Check, ode_mod, np) -> None:
    """A starting state is "a vector": the same numbers handed over as int64 / int32 / float32 arrays must give the
    simulation of the float64 vector (float64 result, same rows) - every clause of the property is judged on the float64
    run by the other streams, this one ties the other element types to it (found missing by seeded change
    C10-result-inherits-start-dtype)."""
    seen = set()
    for (label, start, eqs, ctl, params, cdim, steps, mt, _spec, _extra) in real_programs(ck):
        kind = label.split(":")[1]
        if kind in seen or kind not in ("stable", "analytic", "timedep", "exp", "blowup") or any(v != int(v) for v in start) \
                or max(abs(v) for v in start) > 1e6:
            continue
        seen.add(kind)
        with np.errstate(all="ignore"):
            ref = ode_mod.run_ode(np.array(start, dtype=np.float64), eqs, ctl, params, cdim, steps, mt)
            for dt in (np.int64, np.int32, np.float32):
                got = ode_mod.run_ode(np.array(start, dtype=dt), eqs, ctl, params, cdim, steps, mt)
                case = {"program": label, "start": start, "start_dtype": np.dtype(dt).name, "steps": steps, "max_time": mt}
                ck.count("start_dtype:" + np.dtype(dt).name)
                ck.case(f"start_dtype {json.dumps(case, sort_keys=True)}")
                ck.spec(got.dtype == np.float64 and got.shape == ref.shape and bool(np.array_equal(got, ref, equal_nan=True)),
                        "start_dtype", f"run_ode on the {np.dtype(dt).name} starting state {start} returns a {got.dtype} array of "
                        f"shape {got.shape} that differs from the simulation of the same float64 vector "
                        f"(first differing row: {next((i for i in range(min(len(got), len(ref))) if not np.array_equal(got[i], ref[i], equal_nan=True)), None)})",
                        case)


# --------------------------------------------------------------------------- figure of merit
def j_cases(ck: Check):
    """(stream, matrix of Fractions, sd, use, gamma Fraction)"""
    rng = ck.rng
    q = Fraction
    # doc examples
    od = [[1, 2, 3, 4, 0], [5, 6, 7, 8, 1], [9, 6, 4, 3, 3], [7, 4, 2, 1, 7]]
    yield "doc", [[q(v) for v in r] for r in od], 3, 2, q(1, 2)
    yield "doc", [[q(v) for v in r] for r in od], 3, -1, q(1)
    # exhaustive small shapes
    for m in (0, 1, 2, 3, 4):
        for sd in (1, 2, 3):
            for cd in (1, 2):
                for use in (-1, 0, 1, 2, 3):
                    if use > sd:
                        continue
                    T = q(2) ** rng.randint(-2, 3)
                    ts = sorted({q(0), T} | {T * rng.randint(1, 7) / 8 for _ in range(m)})
                    ts = ts[:m - 1] + [T] if m >= 2 else ts[:m]
                    M = [[q(rng.randint(-32, 32), 4) for _ in range(sd + cd)] + [ts[i]] for i in range(m)]
                    yield "small", M, sd, use, rng.choice([q(1), q(1, 2), q(1, 4), q(2), q(0)])
    for _ in range(600 if ck.quick else 6000):
        m = rng.randint(2, 9)
        sd, cd = rng.randint(1, 4), rng.randint(1, 3)
        use = rng.choice([-1, 0] + list(range(1, sd + 1)))
        T = q(2) ** rng.randint(-3, 6)
        ts = sorted({T * rng.randint(1, 63) / 64 for _ in range(m - 2)})
        ts = [q(0)] + ts + [T]
        m = len(ts)
        M = [[q(rng.randint(-64, 64), rng.choice([1, 2, 8])) for _ in range(sd + cd)] + [ts[i]] for i in range(m)]
        if rng.random() < 0.15:   # clamp: |v| >= 1e100 entries (control column of a counted row)
            M[rng.randrange(m - 1)][sd + rng.randrange(cd)] = q(rng.choice([1e100, -1e100, 1e150, -2e100]))
        yield "random", M, sd, use, rng.choice([q(1), q(1, 2), q(1, 8), q(4)])
    # non-increasing times, zero total time
    yield "zero-time", [[q(1), q(2), q(0)], [q(3), q(1), q(0)]], 1, -1, q(1)
    yield "decreasing", [[q(1), q(2), q(0)], [q(3), q(1), q(4)], [q(1), q(1), q(2)]], 1, -1, q(1)


def fmat(M) -> str:
    return "|".join(",".join(str(v.numerator) if v.denominator == 1 else f"{v.numerator}/{v.denominator}" for v in r)
                    for r in M) or "_"


def fr(v: Fraction) -> str:
    return str(v.numerator) if v.denominator == 1 else f"{v.numerator}/{v.denominator}"


def doc_j(M, sd, use, gamma):
    """the documented figure of merit, recomputed with Fractions (independent of model and code)"""
    if use <= 0:
        use = sd
    m = len(M)
    tot = Fraction(0)
    for i in range(m - 1):
        w = M[i + 1][-1] - M[i][-1]
        c = sum((v * v for v in M[i][sd:-1]), Fraction(0)) * gamma
        s = sum((v * v for v in M[i][:use]), Fraction(0)) if i >= 1 else Fraction(0)
        tot += w * (c + s)
    return tot / M[-1][-1]


class _GuardNp:
    """stand-in for the module global `np` of ode.py while `j_from_ode` runs: 1-D `np.empty(n)` buffers become views of a
    longer NaN-filled array, so that a kernel writing behind a too-short destination (kernels have no bounds checks)
    lands in the guard zone, where it is seen, instead of corrupting the heap of the check process"""
    GUARD = 512

    def __init__(self, real):
        self._real, self.bufs = real, []

    def __getattr__(self, name):
        return getattr(self._real, name)

    def empty(self, shape, *args, **kwargs):
        res = self._real.empty(shape, *args, **kwargs)   # same errors for the same arguments
        if res.ndim == 1 and res.dtype == self._real.float64:
            buf = self._real.full(res.shape[0] + self.GUARD, self._real.nan)
            self.bufs.append((buf, res.shape[0]))
            return buf[:res.shape[0]]
        return res


def guarded_j(ck: Check, ode_mod, np, arr, sd, use, gamma, case):
    """`j_from_ode` with guard zones behind its scratch buffers; an overrun is reported with the input"""
    real_np, guard = ode_mod.np, _GuardNp(ode_mod.np)
    ode_mod.np = guard
    try:
        return ode_mod.j_from_ode(arr, sd, use, gamma)
    except IndexError as e:   # only under NUMBA_BOUNDSCHECK=1 (the C13 re-run of this stream)
        ck.spec(False, "j_oob", f"IndexError in j_from_ode (rows={arr.shape[0]}, cols={arr.shape[1] if arr.ndim == 2 else '?'}, "
                f"state_dim={sd}, use_state_dims={use}): {e}", case)
        return float("nan")
    finally:
        ode_mod.np = real_np
        for buf, n in guard.bufs:
            over = int(np.sum(~np.isnan(buf[n:])))
            ck.spec(over == 0, "j_dest_overrun", f"j_from_ode: the kernel wrote {over} value(s) behind its {n}-element "
                    f"destination (rows={arr.shape[0]}, cols={arr.shape[1] if arr.ndim == 2 else '?'}, state_dim={sd}, "
                    f"use_state_dims={use})", case)


def run_j(ck: Check, ode_mod, np, ops, expect, real_jobs):
    kernel = getattr(ode_mod, "__j_from_ode_compute")
    for stream, M, sd, use, gamma in j_cases(ck):
        ck.count("j:" + stream)
        arr = np.array([[float(v) for v in r] for r in M], dtype=float).reshape(len(M), len(M[0]) if M else sd + 2)
        with np.errstate(all="ignore"):
            try:
                j = float(guarded_j(ck, ode_mod, np, arr, sd, use, float(gamma), {"M": fmat(M), "sd": sd, "use": use}))
            except ValueError:
                j = "err"
        t = float(ode_mod.t_from_ode(arr)) if len(M) else None
        # raw kernel on an over-long NaN-filled destination: how many entries are written?
        written = None
        if len(M) >= 2:
            u = sd if use <= 0 else use
            size = (len(M) - 1) * (len(M[0]) - 1 - sd + u) - u
            if size >= 0:
                dest = np.full(size + 3, np.nan)
                kernel(arr, sd, u, float(gamma), dest)
                written = int(np.sum(~np.isnan(dest)))
                ck.spec(written == size and not np.isnan(dest[:size]).any(), "j_fill",
                        f"kernel wrote {written} entries, destination has {size}", {"M": fmat(M), "sd": sd, "use": use})
        line = f"odeJ {sd} {use} {fr(gamma)} ; {fmat(M)}"
        ops.append(line)
        expect.append(("odeJ", "j:" + stream, (j, t, written), (M, sd, use, gamma)))
        ck.case(line, nontrivial=len(M) >= 2)
    # figure of merit of real simulations (floats are not dyadic-friendly: tolerance, a test)
    for (label, start, res, n, cdim, steps, mt, extra, params, case) in real_jobs:
        if res.shape[0] < 2 or not np.isfinite(res).all():
            continue   # (a non-finite entry is already a violation of the row specification)
        for use, gamma in ((-1, 0.1), (1, 0.5)):
            j = float(guarded_j(ck, ode_mod, np, res, n, use, gamma, case))
            M = [[Fraction(float(v)) for v in r] for r in res]
            ref = doc_j(M, n, use, Fraction(gamma))
            ok = math.isfinite(j) and j >= 0 and abs(j - float(ref)) <= 1e-9 * max(1.0, abs(float(ref)))
            ck.spec(ok, "j_real", f"j_from_ode={j} documented value={float(ref)}", case)
            ck.count("j:real")
        ck.spec(float(ode_mod.t_from_ode(res)) == float(res[-1, -1]), "t_from_ode", "t_from_ode != last time", case)


# --------------------------------------------------------------------------- numeric tests (labelled as tests)
def numeric_tests(ck: Check, ode_mod, np, real_jobs):
    for (label, start, res, n, cdim, steps, mt, extra, params, case) in real_jobs:
        if not np.isfinite(res).all():
            continue
        if label in ("lin:analytic", "lin:stable") and res.shape[0] == steps and steps >= 2:
            a = start[1] - float(params[0])            # x' = (a - k) x + bias, bias = 0
            x0 = start[0]
            worst = max(abs(float(r[0]) - x0 * math.exp(a * float(r[-1])))
                        / (2e-2 * abs(x0 * math.exp(a * float(r[-1]))) + 1e-4) for r in res)
            ck.spec(worst < 1.0, "analytic",
                    f"deviation from x0*exp((a-k)t) is {worst:.3g} x the tolerance (2e-2 relative + 1e-4 absolute)", case)
            ck.count("test:analytic")
        if res.shape[0] >= 2:
            a, b = ode_mod.diff_from_ode(res, n)
            ok = a.shape == (res.shape[0] - 1, n + cdim) and b.shape == (res.shape[0] - 1, n)
            if ok:
                for i in range(res.shape[0] - 1):
                    dt = res[i + 1, -1] - res[i, -1]
                    for s in range(n):
                        ref = (res[i + 1, s] - res[i, s]) / dt
                        ok = ok and (b[i, s] == ref or abs(b[i, s] - ref) <= 1e-12 * abs(ref))
                    ok = ok and all(a[i, c] == res[i, c] for c in range(n + cdim))
            ck.spec(bool(ok), "diff_from_ode", "diff_from_ode differs from (s[i+1]-s[i])/(t[i+1]-t[i])", case)
            ck.count("test:diff")


def system_validation(ck: Check, np, ops, expect):
    """system.py promises `gamma must be positive and finite`, times `> 1e-5 and finite` (fix 550679e);
    correspondence with the model predicate `sysOk` + the promise itself as spec (keys system_*_check)"""
    from moptipyapps.dynamic_control.system import System
    st = np.array([[1.0, 0.0]])
    vals_g = [-1.0, 0.0, -0.0, math.nan, -INF, INF, 5e-324, 0.1, 1.0, 1e300]
    vals_t = [-5.0, 0.0, math.nan, -INF, INF, 1e-5, 9.999999999999999e-06, 1.0000000000000002e-05, 1e-4, 50.0]

    def accepted(g, t1, t2):
        try:
            System("x", 2, 1, 0, -1, g, st, st, test_time=t1, training_time=t2)
            return True
        except ValueError:
            return False
    for g in vals_g:
        acc = accepted(g, 50.0, 50.0)
        ops.append(f"odeV {toks([g, 50.0, 50.0])}")
        expect.append(("odeV", "sysval", f"ok={'true' if acc else 'false'}", None))
        ck.spec(acc == (math.isfinite(g) and g > 0), "system_gamma_check",
                f"System {'accepted' if acc else 'rejected'} gamma={g} (J can be negative / NaN for gamma <= 0)", {"gamma": g})
    for t in vals_t:
        for which in (0, 1):
            t1, t2 = (t, 50.0) if which == 0 else (50.0, t)
            acc = accepted(0.1, t1, t2)
            ops.append(f"odeV {toks([0.1, t1, t2])}")
            expect.append(("odeV", "sysval", f"ok={'true' if acc else 'false'}", None))
            ck.spec(acc == (math.isfinite(t) and t > 1e-5), "system_time_check",
                    f"System {'accepted' if acc else 'rejected'} {'test_time' if which == 0 else 'training_time'}={t} "
                    "(run_ode integrates backwards / over an empty range for non-positive limits)", {"time": t, "which": which})
    ck.count("sysval", len(vals_g) + 2 * len(vals_t))


# --------------------------------------------------------------------------- the streams
def streams(ck: Check) -> None:
    import numpy as np
    import moptipyapps.dynamic_control.ode as ode_mod
    ops, expect = [], []
    # (0) _is_ok itself at the boundaries
    for v in (0.0, 1e10, -1e10, 9999999999.999998, -9999999999.999998, math.nan, INF, -INF, 1e300, -1e-300):
        for pos in (0, 1, 4):
            x = np.zeros(5)
            x[pos] = v
            ok = bool(ode_mod._is_ok(x))
            ck.spec(ok == (-1e10 < v < 1e10), "is_ok", f"_is_ok gives {ok} for {v}", {"v": v, "pos": pos})
    # (1) scripted integrator: correspondence of the state machine
    for label, start, cdim, steps, mt, fake in fake_cases(ck):
        rec = Recorder(ode_mod, fake)
        res = rec.run(start, fake_eq, fake_ctrl, None, cdim, steps, mt)
        line = encode_run(rec, start, cdim, steps, mt, np)
        ops.append(line)
        expect.append(("odeS", label, impl_canon(rec, res, len(start), cdim, steps), None))
        ck.case(line)
        ck.count(label)
        for c in rec.cycles:
            if c["steps"]:
                evs = c["pre"] + [e for s in c["steps"] for e in s["evals"]]
                mo, me, ok = c["steps"][-1]["snap"]
                ops.append("odeF " + enc_evals(evs, np))
                expect.append(("odeF", label, f"ok={'true' if ok else 'false'} maxOk={tok(mo)} minErr={tok(me)}", None))
    # (2) real integrator
    real_jobs = run_real(ck, ode_mod, np, ops, expect)
    # (3) figure of merit
    run_j(ck, ode_mod, np, ops, expect, real_jobs)
    numeric_tests(ck, ode_mod, np, real_jobs)
    multi_run(ck, ode_mod, np)
    start_dtypes(ck, ode_mod, np)
    system_validation(ck, np, ops, expect)

    outs = ck.model(ops)
    for line, (op, stream, iout, ctx), mout in zip(ops, expect, outs):
        short = line if len(line) < 1500 else line[:1500] + "…"
        if op == "odeS":
            mc, tags = model_canon(mout)
            ck.compare(stream, short, mc, iout)
            for t in tags:
                ck.count("branch:" + t.split("@")[0])
            ck.count("cycles:" + kv(mout).get("cycles", "?"))
            ck.count("res:" + kv(mout).get("res", "?"))
        elif op == "odeF":
            ck.compare(stream + ":f", short, mout, iout)
        elif op == "odeV":
            ck.compare(stream, short, mout, iout)
        elif op == "odeC":
            case, shape, bounds = ctx
            d = kv(mout)
            good = d.get("good") == "true" and shape[0] == case["steps"]
            isfail = d.get("isfail") == "true" and shape[0] == 1
            clause = {"1": "row count", "2": "row width", "3": "first row != start", "4": "first time != 0",
                      "5": "times not strictly increasing", "6": "time beyond the limit",
                      "7": "value not finite / outside ±1e10", "8": "control != controller(state, time)"}
            key = "rows_time_limit" if d.get("clause") == "6" else "rows"
            ck.spec(good or isfail, key,
                    f"returned array {shape} is neither {case['steps']} good rows (fails: "
                    f"{clause.get(d.get('clause', '?'), d.get('clause'))}) nor the failure row; per-cycle limits {bounds}",
                    case)
            ck.count("spec:good" if good else "spec:failrow" if isfail else "spec:bad")
        elif op == "odeJ":
            j, t, written = iout
            M, sd, use, gamma = ctx
            d = kv(mout)
            mj = d.get("j")
            if mj in ("oob", "err", "div0"):
                ic = "err" if j == "err" else ("div0" if (len(M) >= 2 and M[-1][-1] == 0) else "val")
                ck.compare(stream, short, mj, ic)
                ck.count("j:" + mj)
                continue
            ck.compare(stream, short, repr(float(frac(mj))), repr(j))
            if t is not None:
                ck.compare(stream + ":t", short, d.get("t"), tok(t))
            if written is not None:
                ck.compare(stream + ":idx", short, f"{d.get('idx')}/{d.get('size')}/{d.get('filled')}",
                           f"{written}/{written}/true")
            if len(M) >= 2:
                clamp = any(abs(v) >= Fraction(1e100) for r in M for v in r[:-1])
                ref = doc_j(M, sd, use, gamma)
                if not clamp:
                    # C: J equals the documented formula (harness Fractions and Lean docJ) …
                    ck.spec(frac(d["doc"]) == ref and float(ref) == j, "j_doc",
                            f"j_from_ode={j}, documented formula={float(ref)} (Lean docJ={d['doc']})",
                            {"M": fmat(M), "sd": sd, "use": use, "gamma": str(gamma)})
                    inc = all(M[i][-1] <= M[i + 1][-1] for i in range(len(M) - 1))
                    if inc and gamma >= 0:   # … and is non-negative
                        ck.spec(j >= 0, "j_nonneg", f"J={j} < 0", {"M": fmat(M), "sd": sd, "use": use})


def check(ck: Check) -> None:
    ck.level = "proof"
    ck.rule = ("(1) scripted-integrator runs of the real run_ode (random scripts: 1-4 dense segments with gaps/short ends, "
               "evaluations in/out of range, status finished/failed, rows in/out of range; steps 1..12; 9 time limits) "
               "compared with the Lean model fed the recorded integrator behaviour: cycles, per-cycle time limit, row calls, "
               "max_ok_t/min_error_t, next limit, full result; (2) real RK45 runs on bundled systems x controllers, linear "
               "systems, ill-behaved controllers (always / after T / at t=0 / only on one grid row / window / state-triggered; "
               "1e50, NaN, ±inf, ±1e10), diverging systems, edge start states, recorded the same way + Lean spec GoodRows/"
               "IsFailureRow on every returned array; (3) j_from_ode/t_from_ode/raw kernel on dyadic matrices compared exactly "
               "(exhaustive small shapes m<=4, sd<=3, cd<=2, all use values; random m<=9) + documented formula with Fractions; "
               "a case is one protocol line, distinct by line hash; non-trivial = a simulation / a matrix with >= 2 rows")
    ck.assumptions += [
        "scipy RK45 (stepping, status, dense output) is a recorded input of the model; its own termination and accuracy are runtime",
        "RK45 evaluates the right-hand side at times <= nextafter(t_bound, inf) (its last stage t+(t_bound-t) can round one ulp up; checked on every recorded run)",
        "controller/equations are pure functions writing every output entry; float results are inputs of the model (V = finite|nan|±inf)",
        "np.linspace(0, T, steps) is strictly increasing from 0.0 to T with `steps` entries (checked on every returned array)",
        "the two shrink formulas and np.nextafter are evaluated in floats by the harness from the operands the model computed (compared with the next recorded t_bound)",
        "numba compiles _is_ok (fastmath) so that NaN/±inf fail `-1e10 < x < 1e10` (tested at the boundaries)",
        "math.fsum is the exact sum, correctly rounded; figure-of-merit theorems are over exact rationals",
        "starting state finite, steps >= 1, max_time > 0 (RK45 raises / integrates backwards otherwise)",
    ]
    ck.not_proved += [
        "termination of scipy's inner stepping loop (the model takes the finite record of one cycle as input)",
        "float evaluation of controllers/equations/shrink formulas and integrator accuracy (runtime; analytic-solution agreement is a numeric test with tolerance 2e-2)",
        "all run_ode theorems are relative to EnvOk (Model/Ode.lean): linspace grid, evaluation times <= t_bound, nextafter(t) < t, "
        "shrink results strictly below their bound — IEEE/scipy facts checked on every recorded run, not proved",
        "j_eq_documented / j_nonneg hold for |entries| < 1e100 (no clamp) resp. gamma >= 0 and non-decreasing times; float rounding of the products is outside",
    ]
    ck.lean(["Props.C10"], THEOREMS)
    streams(ck)
