"""C05 — tour length = cyclic edge sum; instance bounds; symmetry flag (DESIGN.md section 6)."""
from __future__ import annotations

import itertools

from . import common
from .common import Check, cmat, fmt_ints, fmt_matrix, kv

THEOREMS = [
    "Tsp.tourLen_eq_cyclicSum", "Tsp.tourLen?_noOOB", "Tsp.tour_between_bounds",
    "Tsp.mkInstance_spec", "Tsp.symmetric_flag_iff", "Tsp.stored_exact_and_fits",
    "Tsp.instance_tour_bounds", "Tsp.tourLen_no_overflow", "Tsp.mkInstance_accepts",
]


LAYOUTS = ("C", "F", "transposed-view", "strided-view", "int32", "uint64")


def laid_out(np, M, layout: str):
    """the same logical matrix in another memory layout / element type (all are plain `np.ndarray`s a caller may pass)"""
    a = np.array(M, dtype=np.int64)
    if a.ndim != 2 or a.size == 0:
        return a
    if layout == "F":
        return np.asfortranarray(a)
    if layout == "transposed-view":
        return a.T.copy().T
    if layout == "strided-view":
        big = np.full((2 * a.shape[0], 2 * a.shape[1]), -7, dtype=np.int64)
        big[::2, ::2] = a
        return big[::2, ::2]
    if layout == "int32" and a.size and 0 <= a.min() and a.max() < 2**31:
        return a.astype(np.int32)
    if layout == "uint64" and a.size and a.min() >= 0:
        return a.astype(np.uint64)
    return a


def impl_instance(lb, M, mult, layout: str = "C"):
    import numpy as np
    from moptipyapps.tsp.instance import Instance
    try:
        inst = Instance("x", int(lb), laid_out(np, M, layout), int(mult))
    except (ValueError, TypeError):
        return None, "ERR"
    return inst, (f"n={inst.n_cities} lb={inst.tour_length_lower_bound} ub={inst.tour_length_upper_bound} "
                  f"sym={'true' if inst.is_symmetric else 'false'} dtype={inst.dtype} "
                  f"stored={cmat(np.asarray(inst).tolist())}")


def impl_tourlen(inst_or_matrix, x):
    import numpy as np
    from moptipyapps.tsp.tour_length import tour_length
    try:
        return int(tour_length(inst_or_matrix, np.array(x, dtype=np.int64)))
    except IndexError:
        return "OOB"


def impl_objective(ck: Check, inst, x, v, M):
    """the objective object a user optimises with: `TourLength(inst).evaluate` on a tour in the integer type of the
    permutation space (int8 for small n, ...) must be the kernel's value, its bounds the instance's bounds"""
    import numpy as np
    from moptipy.spaces.permutations import Permutations
    from moptipyapps.tsp.tour_length import TourLength
    n = len(x)
    if n < 2 or sorted(x) != list(range(n)) or v == "OOB":
        return
    f = TourLength(inst)
    xa = np.array(x, dtype=Permutations.standard(n).dtype)
    got = int(f.evaluate(xa))
    ctx = {"M": M if n <= 12 else f"<{n} cities>", "x": x, "x_dtype": str(xa.dtype)}
    ck.spec(got == v, "objective_evaluate", f"TourLength.evaluate={got} on the {xa.dtype} tour, kernel on the int64 tour={v}", ctx)
    ck.spec(xa.tolist() == list(x), "objective_evaluate", "TourLength.evaluate modified the tour", ctx)
    ck.spec(f.lower_bound() == inst.tour_length_lower_bound and f.upper_bound() == inst.tour_length_upper_bound,
            "objective_bounds", f"objective bounds [{f.lower_bound()}, {f.upper_bound()}] are not the instance's "
            f"[{inst.tour_length_lower_bound}, {inst.tour_length_upper_bound}]", ctx)
    ck.count(f"objective_x_{xa.dtype}")


def rand_matrix(rng, n, hi, sym, zero_frac=0.0):
    M = [[0] * n for _ in range(n)]
    for i in range(n):
        for j in range(n):
            if i == j:
                continue
            if sym and j < i:
                M[i][j] = M[j][i]
            else:
                M[i][j] = 0 if rng.random() < zero_frac else rng.randint(1 if zero_frac == 0 else 0, hi)
    return M


def gen_cases(ck: Check):
    """Yield (stream, lbGiven, M, mult, tours)."""
    rng = ck.rng
    quick = ck.quick
    # (2) exhaustive small scope: all n=2 matrices with entries 0..3, all n=3 matrices with entries 0..2
    for a, b in itertools.product(range(4), repeat=2):
        yield "exh2", 0, [[0, a], [b, 0]], 1, [[0, 1], [1, 0]]
    trip = list(itertools.product(range(3), repeat=6))
    if quick:
        trip = rng.sample(trip, 150)
    perms3 = [list(p) for p in itertools.permutations(range(3))]
    for e in trip:
        yield "exh3", 0, [[0, e[0], e[1]], [e[2], 0, e[3]], [e[4], e[5], 0]], 1, perms3
    # (4) boundary: upper bound around every dtype threshold, entries up to 1e12, bounds near 1e15
    for thr in (127, 128, 255, 256, 32767, 32768, 65535, 65536, 2**31 - 1, 2**31, 2**32 - 1, 2**32,
                10**12, 10**15, 10**15 + 1, 10**15 + 2):
        for delta in (-1, 0, 1):
            ub = thr + delta
            for n in (2, 3):
                a = rng.randint(1, ub - 1) if ub > 2 else 1
                rest = ub - a
                if n == 2:
                    M = [[0, a], [rest, 0]]
                else:
                    c = max(1, min(a, rest) // 2)
                    M = [[0, a, rng.randint(0, a)], [rng.randint(0, rest), 0, rest], [c, rng.randint(0, c), 0]]
                for mult in (1, 2):
                    yield "boundary", 0, M, mult, [list(range(n)), list(range(n))[::-1]]
    # lbGiven / mult edge cases and malformed matrices
    base = [[0, 5, 9], [5, 0, 4], [9, 4, 0]]
    for lb in (-1, 0, 17, 18, 22, 23, 10**15, 10**15 + 1):
        yield "lbgiven", lb, base, 1, [[0, 1, 2]]
    for mult in (0, 1, 10**9, 10**9 + 1):
        yield "mult", 0, base, mult, [[0, 1, 2]]
    yield "malformed", 0, [[0, 1], [1, 1]], 1, []            # non-zero diagonal
    yield "malformed", 0, [[0, 0], [1, 0]], 1, []            # no positive neighbour in row 0
    yield "malformed", 0, [[0]], 1, []                       # one city
    yield "malformed", 0, [[0, -3, 5], [2, 0, 1], [1, 1, 0]], 1, [[0, 1, 2], [2, 1, 0]]  # negative entry
    yield "malformed", 0, [[0, -3, 1], [1, 0, 1], [1, 1, 0]], 1, []  # negative nearest sum
    yield "malformed", 0, [[0, 5, -3, 5], [1, 0, 5, 1], [1, 1, 0, 1], [1, 1, 1, 0]], 1, [[0, 2, 1, 3]]
    # (3) structured random
    n_rand = 250 if quick else 4000
    for _ in range(n_rand):
        n = rng.choice([2, 2, 3, 4, 5, 6, 8, 12, 20] if quick else [2, 3, 4, 5, 6, 8, 12, 20, 40, 60])
        hi = rng.choice([3, 10, 100, 127, 1000, 40000, 10**6, 10**9, 10**12])
        M = rand_matrix(rng, n, hi, rng.random() < 0.5, rng.choice([0.0, 0.0, 0.2]))
        tours = []
        for _ in range(3):
            t = list(range(n))
            rng.shuffle(t)
            tours.append(t)
        yield "random", 0, M, rng.choice([1, 1, 1, 3]), tours
    # nearly symmetric matrices: large entries whose mirror differs by a few units in ONE pair only (a tolerance-based
    # comparison would call them symmetric), and exactly symmetric ones of the same magnitude
    for _ in range(40 if quick else 400):
        n = rng.choice([2, 3, 4, 6, 9])
        hi = rng.choice([10**5, 10**6, 10**9, 10**12])
        M = rand_matrix(rng, n, hi, True)
        for i in range(n):
            for j in range(n):
                if i != j:
                    M[i][j] += hi          # every entry >= hi: relative differences of a few units are tiny
        for i in range(n):
            for j in range(i):
                M[i][j] = M[j][i]
        if rng.random() < 0.7:
            i, j = rng.sample(range(n), 2)
            M[i][j] += rng.choice([1, 1, 2, 5, -1, -3])
        t = list(range(n))
        rng.shuffle(t)
        yield "near_symmetric", 0, M, 1, [t, t[::-1]]
    # non-permutation / out-of-range tours against the raw kernel (model says OOB exactly when numba would leave the array)
    for _ in range(20):
        n = rng.randint(2, 5)
        M = rand_matrix(rng, n, 9, False)
        yield "nonperm", 0, M, 1, [[rng.randint(0, n - 1) for _ in range(n)]]


def shipped(ck: Check):
    from moptipyapps.tsp.instance import Instance
    import numpy as np
    names = list(Instance.list_resources(True, True)) + list(Instance.list_resources(False, True))
    lim = 60 if ck.quick else 180
    out = []
    for nm in names:
        from moptipyapps.tsp.instance import ncities_from_tsplib_name
        try:
            if ncities_from_tsplib_name(nm) > lim:
                continue
        except Exception:
            continue
        inst = Instance.from_resource(nm)
        out.append((nm, inst, np.asarray(inst).tolist()))
    return out


def streams(ck: Check) -> None:
    """Correspondence (B) and spec oracle (C) for the TSP constructor and the tour-length kernel."""
    import numpy as np
    ops, expect = [], []   # (op line, impl canonical output, context for the oracle)
    for stream, lb, M, mult, tours in gen_cases(ck):
        ck.count(f"{stream}")
        # the matrix arrives in any memory layout / integer type; the instance is a function of its VALUES
        layout = "C" if stream in ("exh2", "malformed") else ck.rng.choice(LAYOUTS)
        ck.count(f"layout_{layout}")
        inst, iout = impl_instance(lb, M, mult, layout)
        line = f"tspI {lb} {mult} ; {fmt_matrix(M)}"
        ops.append(line)
        expect.append(("tspI", stream, iout, None))
        ck.case(line, nontrivial=iout != "ERR")
        ck.count("ctor_ok" if inst is not None else "ctor_err")
        if inst is not None:
            ck.count(f"dtype_{inst.dtype}")
            # C: symmetry flag, stored = given, entries fit
            sym = all(M[i][j] == M[j][i] for i in range(len(M)) for j in range(len(M)))
            ck.spec(bool(inst.is_symmetric) == sym, "symflag", "symmetry flag differs from matrix symmetry", {"M": M})
            ck.spec(np.asarray(inst).tolist() == M, "stored", "stored matrix differs from the given one", {"M": M})
            ck.spec(all(v >= 0 for r in M for v in r), "negdist_accepted",
                    "constructor accepted a negative distance (bounds/no-overflow clauses assume non-negative matrices)", {"M": M})
        target = inst if inst is not None else np.array(M, dtype=np.int64)
        for x in tours:
            if len(M) != len(M[0]) if M else True:
                continue
            v = impl_tourlen(target, x)
            if inst is not None:
                impl_objective(ck, inst, x, v, M)
            line = f"tspL {fmt_matrix(M)} ; {fmt_ints(x)}"
            ops.append(line)
            expect.append(("tspL", stream, v, (inst, lb, x, M)))
            ck.case(line)
    for nm, inst, M in shipped(ck):
        ck.count("shipped")
        n = len(M)
        for k in range(3):
            x = list(range(n))
            if k:
                ck.rng.shuffle(x)
            v = impl_tourlen(inst, x)
            impl_objective(ck, inst, x, v, M)
            line = f"tspL {fmt_matrix(M)} ; {fmt_ints(x)}"
            ops.append(line)
            expect.append(("tspL", "shipped:" + nm, v, (inst, 0, x, M)))
            ck.case(line)
    outs = ck.model(ops)
    for line, (op, stream, iout, ctx), mout in zip(ops, expect, outs):
        if op == "tspI":
            ck.compare(stream, line, mout, iout)
            continue
        d = kv(mout)
        mval = d.get("val", mout)
        ck.compare(stream, line, mval, str(iout))
        inst, lb, x, M = ctx
        n = len(M)
        if sorted(x) == list(range(n)) and iout != "OOB":
            # C: the documented cyclic edge sum (Lean spec `cyclicSum`, evaluated by the driver)
            ck.spec(d.get("spec") == str(iout), "cyclic", f"tour_length={iout} but cyclic edge sum={d.get('spec')}",
                    {"M": M if n <= 12 else f"<{n} cities>", "x": x})
            if inst is not None and lb == 0:
                ck.spec(inst.tour_length_lower_bound <= iout <= inst.tour_length_upper_bound, "bounds",
                        f"tour length {iout} outside [{inst.tour_length_lower_bound},{inst.tour_length_upper_bound}]",
                        {"M": M if n <= 12 else f"<{n} cities>", "x": x})


def check(ck: Check) -> None:
    ck.rule = ("corpus + exhaustive (all 2-city matrices over 0..3, 3-city matrices over 0..2 x all tours) + dtype-threshold "
               "boundary stream + structured random matrices (sym/asym, entries up to 1e12) x random tours + shipped "
               "instances; a case is one protocol line; non-trivial = constructor accepted / kernel evaluated; distinct by line hash")
    ck.assumptions += ["numba compiles tour_length as written (int64 accumulator, negative index wrap for x[-1])",
                       "moptipy int_range_to_dtype behaves as modelled by Base.dtypeFor (checked at thresholds by this stream)",
                       "names/sanitize_name and np.ndarray subclassing are outside the model"]
    modules, theorems = ["Props.C05"], list(THEOREMS)
    # tie between source and model: lean/Gen/TourLength.lean is regenerated from the CURRENT source of tour_length and
    # Props/C05Gen.lean proves it equal to the hand-written model `Tsp.tourLen?` for all inputs
    try:
        from .translate import loop2lean
        ck.gen_begin()   # released at the end of ck.lean
        loop2lean.emit_tour_length(common.REPO, common.LEAN)
        modules.append("Props.C05Gen")
        theorems.append("C05Gen.tour_length_eq_model")
    except Exception as e:  # noqa: BLE001 - source outside the translatable subset: the obligation cannot be regenerated
        ck.proof_failures.append(f"translator loop2lean: tour_length is not translatable, the theorem "
                                 f"C05Gen.tour_length_eq_model could not be re-checked against the source: {e!r}")
    ck.lean(modules, theorems)
    streams(ck)
