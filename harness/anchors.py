"""Fingerprints of the anchored source files of each property (properties.jsonl: anchors.files).

The hand-written models were validated against /repo at the commits recorded in `corpus/anchor_hashes.json`.
On every run the check recomputes the fingerprints (AST dump with docstrings removed, so comments/formatting do
not matter) of its property's anchored files in the CURRENT tree.  If one differs, the code the model mirrors has
been edited since the model was validated: the check says so in its evidence and (where the thorough scope is
affordable) widens its correspondence to the thorough scope for that run.

maintenance:  /venv/bin/python -m harness.anchors --update      (rewrites corpus/anchor_hashes.json from /repo)
"""
from __future__ import annotations

import ast
import hashlib
import json
import sys
from pathlib import Path

from .common import REPO, ROOT

BASE = ROOT / "corpus" / "anchor_hashes.json"


def _strip_docstrings(tree: ast.AST) -> None:
    for node in ast.walk(tree):
        if isinstance(node, (ast.FunctionDef, ast.AsyncFunctionDef, ast.ClassDef, ast.Module)):
            body = node.body
            if body and isinstance(body[0], ast.Expr) and isinstance(getattr(body[0], "value", None), ast.Constant) \
                    and isinstance(body[0].value.value, str):
                node.body = body[1:] or [ast.Pass()]


def fingerprint(path: Path) -> str:
    try:
        tree = ast.parse(path.read_text())
    except (OSError, SyntaxError) as e:
        return f"unreadable:{type(e).__name__}"
    _strip_docstrings(tree)
    return hashlib.sha256(ast.dump(tree, include_attributes=False).encode()).hexdigest()[:20]


def anchored_files(prop: str) -> list[str]:
    for line in (ROOT / "properties.jsonl").read_text().splitlines():
        if line.strip():
            p = json.loads(line)
            if p["id"] == prop:
                out = []
                for f in p["anchors"]["files"]:
                    q = REPO / f
                    if q.is_dir():
                        out += sorted(str(x.relative_to(REPO)) for x in q.rglob("*.py"))
                    elif f.endswith(".py"):
                        out.append(f)
                return sorted(set(out))
    return []


def current(prop: str) -> dict[str, str]:
    return {f: fingerprint(REPO / f) for f in anchored_files(prop)}


def changed(prop: str) -> list[str]:
    """anchored files whose code differs from the validated baseline (empty list if there is no baseline)"""
    if not BASE.exists():
        return []
    base = json.loads(BASE.read_text()).get(prop, {})
    cur = current(prop)
    return sorted(f for f in set(base) | set(cur) if base.get(f) != cur.get(f))


def main() -> int:
    if "--update" in sys.argv:
        props = [json.loads(l)["id"] for l in (ROOT / "properties.jsonl").read_text().splitlines() if l.strip()]
        BASE.parent.mkdir(exist_ok=True)
        BASE.write_text(json.dumps({p: current(p) for p in props}, indent=1, sort_keys=True) + "\n")
        print(f"wrote {BASE}")
        return 0
    for line in (ROOT / "properties.jsonl").read_text().splitlines():
        if line.strip():
            p = json.loads(line)["id"]
            print(p, changed(p) or "unchanged")
    return 0


if __name__ == "__main__":
    sys.exit(main())
