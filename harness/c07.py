"""C07 — TTP error count is zero exactly for feasible schedules (DESIGN.md section 6).

Correspondence: Lean model `TtpErrors.countErrs?` (driver `drv_c07`) vs. the real numba kernel
`moptipyapps.ttp.errors.count_errors` (raw, with dirty scratch arrays) and the real objective
`Errors(Instance).evaluate(GamePlan)`.  Spec oracle: Lean `FeasiblePlan` / `documentedCount` /
`Consistent` evaluated by the driver on the plan, compared with what the implementation returned.
"""
from __future__ import annotations

import itertools
import os

from . import common
from .common import Check, fmt_ints, fmt_matrix, kv

THEOREMS = [
    "TtpErrors.countErrors_nonneg", "TtpErrors.scratch_irrelevant", "TtpErrors.countErrors_noOOB",
    "TtpErrors.countErrors_zero_iff", "TtpErrors.countErrors_eq_documented",
    "TtpErrors.countErrors_le_upper_partial", "TtpErrors.upperBound_claim_false",
]

BOUNDSCHECK = os.environ.get("NUMBA_BOUNDSCHECK", "0") == "1"

# constraint settings used for the exhaustive four-team stream (ll = 2*4-1 = 7, D = 6)
CFG4 = [(1, 3, 1, 3, 1, 6),    # the shipped setting (circ4, gal4, ...)
        (1, 2, 1, 2, 1, 2),
        (2, 3, 1, 3, 0, 4),
        (1, 7, 1, 7, 0, 7),    # nothing but structure
        (2, 4, 2, 4, 2, 5),
        (3, 7, 3, 7, 7, 7)]    # the extreme corner


def all_day_rows(n: int, byes: bool) -> list[list[int]]:
    """All mutually consistent assignments of one day for n teams (independent of the driver)."""
    res: list[list[int]] = []

    def rec(row, free):
        if not free:
            res.append(list(row))
            return
        i, rest = free[0], free[1:]
        if byes:
            row[i] = 0
            rec(row, rest)
        for k, j in enumerate(rest):
            r2 = rest[:k] + rest[k + 1:]
            row[i], row[j] = j + 1, -(i + 1)
            rec(row, r2)
            row[i], row[j] = -(j + 1), i + 1
            rec(row, r2)
            row[i] = row[j] = 0
    rec([0] * n, list(range(n)))
    return res


def in_space(n, rounds, plan) -> bool:
    return len(plan) == (n - 1) * rounds and all(len(r) == n and all(-n <= v <= n for v in r) for r in plan)


def upper_key(cons: bool, accepted: bool, cfg, n: int, rounds: int) -> tuple[str, bool]:
    """Key of an excess over Errors.upper_bound().  The declared bound is *known* not to be a bound in
    general (finding `upper_bound_exceeded`, Lean: `upperBound_claim_false`); `countErrors_le_upper_partial`
    proves it for mutually consistent plans under accepted settings whose three minima are <= 1 and whose
    separation_max can never bind (>= D-2).  An excess inside that class contradicts the theorem and gets
    its own key, which no known finding covers."""
    hmin, _, amin, _, smin, smax = cfg
    days = (n - 1) * rounds
    in_class = (cons and accepted and n >= 2 and rounds >= 1 and hmin <= 1 and amin <= 1 and smin <= 1
                and smax >= days - 2)
    return ("upper_bound_exceeded:in_proved_class" if in_class else "upper_bound_exceeded"), in_class


class Impl:
    """The real code."""

    def __init__(self) -> None:
        import numba
        import numpy as np
        from moptipyapps.ttp.errors import Errors, count_errors
        from moptipyapps.ttp.game_plan import GamePlan
        from moptipyapps.ttp.game_plan_space import GamePlanSpace
        from moptipyapps.ttp.instance import Instance
        self.np, self.Errors, self.count_errors = np, Errors, count_errors
        self.GamePlan, self.GamePlanSpace, self.Instance = GamePlan, GamePlanSpace, Instance

        # not cached: the kernel is inlined into this loop, a numba cache would not notice a changed kernel
        @numba.njit(cache=False)
        def batch4(rows, prefixes, cfgs, out, t1, t2):
            y = np.empty((6, 4), rows.dtype)
            for a in range(prefixes.shape[0]):
                for d in range(5):
                    y[d, :] = rows[prefixes[a, d]]
                for j in range(12):
                    y[5, :] = rows[j]
                    for k in range(cfgs.shape[0]):
                        t1[:] = (a + 3 * j + 7 * k) % 120 - 60   # dirty scratch arrays
                        t2[:, :] = (5 * a + j + k) % 100 - 50
                        out[a, j, k] = count_errors(y, cfgs[k, 0], cfgs[k, 1], cfgs[k, 2], cfgs[k, 3],
                                                    cfgs[k, 4], cfgs[k, 5], t1, t2)
        self.batch4 = batch4

    def raw(self, plan, cfg, t1, t2, dtype="int64"):
        np = self.np
        n = len(plan[0]) if plan else len(t2)
        y = np.array(plan, dtype=dtype).reshape((len(plan), n))
        try:
            return int(self.count_errors(y, *[int(c) for c in cfg], t1, t2))
        except IndexError:
            return "OOB"
        except ZeroDivisionError:
            return "OOB"

    def instance(self, n, rounds, cfg):
        np = self.np
        M = np.array([[0 if i == j else 1 + abs(i - j) for j in range(n)] for i in range(n)], dtype=np.int64)
        try:
            return self.Instance("c07", M, [f"t{i}" for i in range(n)], int(rounds), *[int(c) for c in cfg])
        except ValueError:
            return None


# ------------------------------------------------------------------ generators
def rand_cfg(rng, n, rounds, valid: bool):
    ll = rounds * n - 1
    D = (n - 1) * rounds
    pool = sorted({0, 1, 2, 3, max(D - 2, 0), ll - 1, ll, ll + 1} | {rng.randint(0, ll + 1)})
    if valid:
        pool = [v for v in pool if v <= ll]
        hmin = rng.choice([1, 1, 1, 2, 3, min(ll, rng.choice(pool) or 1)])
        amin = rng.choice([1, 1, 1, 2, 3, min(ll, rng.choice(pool) or 1)])
        hmin, amin = min(max(hmin, 1), ll), min(max(amin, 1), ll)
        hmax = rng.choice([hmin, min(ll, hmin + 1), min(ll, max(hmin, 3)), ll])
        amax = rng.choice([amin, min(ll, amin + 1), min(ll, max(amin, 3)), ll])
        smin = min(ll, rng.choice([0, 0, 1, 1, 1, 2, rng.choice(pool)]))
        smax = rng.choice([smin, min(ll, smin + 1), min(ll, max(smin, D - 2)), ll, rng.randint(smin, ll)])
        return (hmin, hmax, amin, amax, smin, smax)
    return tuple(rng.choice(pool + [-1]) for _ in range(6))


def round_robin(n):
    """circle method: list of n-1 rounds of pairs"""
    teams = list(range(n))
    out = []
    for _ in range(n - 1):
        out.append([(teams[i], teams[n - 1 - i]) for i in range(n // 2)])
        teams = [teams[0]] + [teams[-1]] + teams[1:-1]
    return out


def rand_plan(rng, n, rounds, kind):
    D = (n - 1) * rounds
    plan = [[0] * n for _ in range(D)]
    if kind in ("rr", "rr_mut", "rr_shuffled"):
        rr = round_robin(n)
        perm = list(range(n))
        rng.shuffle(perm)
        days = []
        for r in range(rounds):
            for k, rnd in enumerate(rr):
                row = [0] * n
                for (a, b) in rnd:
                    a, b = perm[a], perm[b]
                    if (r + k + (a + b if kind != "rr" else 0) + (rng.randint(0, 1) if kind == "rr_shuffled" else 0)) % 2:
                        a, b = b, a
                    if r % 2:
                        a, b = b, a
                    row[a], row[b] = b + 1, -(a + 1)
                days.append(row)
        if kind == "rr_shuffled":
            rng.shuffle(days)
        plan = days
        if kind == "rr_mut":
            for _ in range(rng.randint(1, 3)):
                d, t = rng.randrange(D), rng.randrange(n)
                plan[d][t] = rng.choice([0, -plan[d][t], rng.randint(-n, n), t + 1, -(t + 1)])
    elif kind in ("consistent", "consistent_byes"):
        for d in range(D):
            free = list(range(n))
            rng.shuffle(free)
            while len(free) >= 2:
                a, b = free.pop(), free.pop()
                if kind == "consistent_byes" and rng.random() < 0.25:
                    continue
                plan[d][a], plan[d][b] = b + 1, -(a + 1)
    elif kind == "sticky":      # long streaks / repeated opponents / many equal rows
        base = [rand_plan(rng, n, 1, "consistent")[0] for _ in range(2)]
        for d in range(D):
            plan[d] = list(base[0] if rng.random() < 0.7 else base[1])
            if rng.random() < 0.3:
                plan[d] = [-v for v in plan[d]]
    elif kind == "cyclic":      # every team at home against the next one
        s = rng.randint(1, n - 1)
        for d in range(D):
            plan[d] = [((t + s) % n) + 1 for t in range(n)]
            if rng.random() < 0.2:
                t = rng.randrange(n)
                plan[d][t] = rng.randint(-n, n)
    elif kind == "selfplay":
        for d in range(D):
            plan[d] = [rng.choice([t + 1, -(t + 1), rng.randint(-n, n)]) for t in range(n)]
    else:                       # uniform over the space
        for d in range(D):
            plan[d] = [rng.randint(-n, n) for _ in range(n)]
    return plan


KINDS = ["rr", "rr", "rr_shuffled", "rr_mut", "rr_mut", "consistent", "consistent_byes", "sticky", "cyclic",
         "selfplay", "uniform"]


def garbage(rng, n, np, dtype):
    lo, hi = (-100, 100) if dtype == "int8" else (-10**6, 10**6)
    t1 = np.array([rng.randint(lo, hi) for _ in range(n * (n - 1) // 2)], dtype=dtype)
    t2 = np.array([[rng.randint(lo, hi) for _ in range(n)] for _ in range(n)], dtype=dtype).reshape((n, n))
    return t1, t2


def line_for(n, rounds, cfgs, plan, t1, t2) -> str:
    return (f"ttpE {n} {rounds} ; {' | '.join(fmt_ints(c) for c in cfgs)} ; {fmt_matrix(plan)} ; "
            f"{fmt_ints(t1)} ; {fmt_matrix(t2)}")


# ------------------------------------------------------------------ streams
def oracle(ck: Check, n, rounds, cfg, plan, val, ub_impl, d, rec, stream, scratch_ok=True, ctor_accepted=None):
    """Spec oracle C on one implementation result `val` for (plan, cfg); `d`/`rec` = driver spec tokens."""
    case = {"n": n, "rounds": rounds, "cfg": list(cfg), "plan": plan, "value": val, "stream": stream}
    if val == "OOB":
        ck.spec(d.get("inspace") != "1" or not scratch_ok or n < 2, "oob",
                "count_errors left its arrays on a plan of the game-plan space (scratch arrays as allocated by Errors)", case)
        return
    ck.spec(val >= 0, "negative", f"count_errors returned {val} < 0", case)
    if d.get("inspace") != "1" or rec is None:
        return
    # the quantifier is "settings the Instance constructor accepts": where a real Instance exists that is the
    # constructor's verdict, for the raw kernel it is the (correspondence-checked) model of the constructor
    accepted = (rec[9] == "1") if ctor_accepted is None else ctor_accepted
    feas, doc = rec[10] == "1", int(rec[11])
    cons = d.get("cons") == "1"
    if accepted:
        ck.count("feasible" if feas else "infeasible")
        ck.spec((val == 0) == feas, "zero_iff",
                f"count_errors = {val} but the plan is {'feasible' if feas else 'not feasible'}", case)
        if cons:
            ck.count("consistent_plan")
            ck.spec(val == doc, "documented", f"count_errors = {val} != documented per-rule count {doc}", case)
    key, in_class = upper_key(cons, accepted, cfg, n, rounds)
    if in_class:
        ck.count("upper_in_proved_class")
    ck.spec(val <= ub_impl, key, f"count_errors = {val} > Errors.upper_bound() = {ub_impl} "
            f"(n={n}, rounds={rounds}, cfg={list(cfg)}, consistent={cons})", case)


def stream_exhaustive4(ck: Check, impl: Impl) -> None:
    np = impl.np
    rows_txt = ck.model(["ttpRows"])[0]
    rows = [[int(v) for v in r.split(",")] for r in rows_txt.split("|")] if "|" in rows_txt else []
    indep = all_day_rows(4, False)
    ok = len(rows) == 12 and sorted(rows) == sorted(indep)
    ck.compare("rows4", "ttpRows", "ok" if ok else rows_txt, "ok")
    if not ok:
        return
    cfgs = CFG4[:4] if ck.quick else CFG4
    allp = list(itertools.product(range(12), repeat=5))
    if ck.quick:
        allp = ck.rng.sample(allp, len(allp) // 50)          # 2 % slice (x 12 last days)
    prefixes = np.array(allp, dtype=np.int64)
    out = np.zeros((len(allp), 12, len(cfgs)), dtype=np.int64)
    try:
        impl.batch4(np.array(rows, dtype=np.int8), prefixes, np.array(cfgs, dtype=np.int64), out,
                    np.empty(6, np.int8), np.empty((4, 4), np.int8))
        failed = False
    except IndexError:
        failed = True
    cf = " | ".join(fmt_ints(c) for c in cfgs)
    lines = [f"ttp4 {cf} ; {fmt_ints(p)}" for p in allp]
    outs = ck.model(lines)
    ub = (4 * 6 - 1) * 4 - 1
    ck.count("exh4_plans", 12 * len(allp))
    for a, (line, mo) in enumerate(zip(lines, outs)):
        ck.case(line)
        if failed:
            ck.compare("exh4", line, mo, "OOB")
            continue
        vals = out[a]
        per = mo[2:].split("/") if mo.startswith("r=") else []
        mvals = "/".join(",".join(x.split(":")[0] for x in q.split(",")) for q in per)
        ivals = "/".join(",".join(str(int(v)) for v in vals[j]) for j in range(12))
        ck.compare("exh4", line, mvals, ivals)
        if len(per) != 12:
            continue
        for j in range(12):
            toks = per[j].split(",")
            for k, cfg in enumerate(cfgs):
                v = int(vals[j, k])
                feas = toks[k].endswith(":1")
                ck.spec_checked += 2
                if feas:
                    ck.count("exh4_feasible")
                if (v == 0) != feas or v < 0 or v > ub:
                    plan = [rows[i] for i in allp[a]] + [rows[j]]
                    case = {"n": 4, "rounds": 2, "cfg": list(cfg), "plan": plan, "value": v, "stream": "exh4"}
                    ck.spec(v >= 0, "negative", f"count_errors returned {v} < 0", case)
                    ck.spec((v == 0) == feas, "zero_iff",
                            f"count_errors = {v} but the plan is {'feasible' if feas else 'not feasible'}", case)
                    key, _ = upper_key(True, True, cfg, 4, 2)
                    ck.spec(v <= ub, key, f"count_errors = {v} > Errors.upper_bound() = {ub} "
                            f"(n=4, rounds=2, cfg={list(cfg)}, consistent=True)", case)


def stream_objective(ck: Check, impl: Impl) -> None:
    """Real `Errors` objective on real `Instance`/`GamePlan` objects (+ constructor acceptance)."""
    rng, np = ck.rng, impl.np
    todo = []   # (stream, n, rounds, cfg, plan)
    # boundary: the two known upper-bound witnesses, the docstring examples, smallest instance
    alt = [[2, -1, 4, -3], [-2, 1, -4, 3]] * 3
    todo.append(("witness", 4, 2, (3, 7, 3, 7, 7, 7), alt))
    todo.append(("witness", 4, 2, (1, 3, 1, 3, 1, 6), [[2, 3, 4, 1]] * 6))
    doc = [[2, -1, 4, -3], [4, 3, -2, -1], [3, 4, -1, -2], [-2, 1, -4, 3], [-4, -3, 2, 1], [-3, -4, 1, 2]]
    for cfg in ((1, 3, 1, 3, 1, 2), (1, 2, 1, 3, 1, 2), (1, 2, 1, 2, 1, 2), (1, 3, 1, 3, 1, 1)):
        todo.append(("docstring", 4, 2, cfg, doc))
    for rounds in (1, 2, 3):
        for plan in itertools.product([[2, -1], [-2, 1], [0, 0], [1, 2], [-1, -2], [2, 0], [0, 1], [2, 1], [-2, -1]],
                                      repeat=rounds):
            ll = 2 * rounds - 1
            for cfg in sorted({(1, 1, 1, 1, 0, 0), (1, ll, 1, ll, 0, ll), (1, ll, 1, ll, 1, ll), (ll, ll, 1, 1, ll, ll)}):
                todo.append(("exh2", 2, rounds, cfg, [list(r) for r in plan]))
            # settings that break exactly one acceptance condition of the constructor (the real constructor
            # decides; if it ever accepts one of them the oracle applies the property to that instance)
            for cfg in ((0, ll, 1, ll, 0, ll), (1, 0, 1, ll, 0, ll), (1, ll + 1, 1, ll, 0, ll), (1, ll, 0, ll, 0, ll),
                        (1, ll, 1, 0, 0, ll), (1, ll, 1, ll + 1, 0, ll), (1, ll, 1, ll, -1, ll),
                        (1, ll, 1, ll, 1, 0), (1, ll, 1, ll, 0, ll + 1)):
                todo.append(("exh2_nearvalid", 2, rounds, cfg, [list(r) for r in plan]))
    n_inst = 1000 if ck.quick else 4000
    per_inst = 8 if ck.quick else 14
    for _ in range(n_inst):
        n = rng.choice([2, 4, 4, 6, 6, 8, 10])
        rounds = rng.choice([1, 2, 2, 3])
        cfg = rand_cfg(rng, n, rounds, rng.random() < 0.9)
        for _ in range(per_inst):
            todo.append(("objective", n, rounds, cfg, rand_plan(rng, n, rounds, rng.choice(KINDS))))
    # long seasons: the number of days / of meetings of a pair exceeds the int8 range although the team ids do not
    # (the scratch arrays' type is chosen from (n-1)*rounds, the plan's type from n) - cf. seeded change C15-int8-day-counter
    for n, rounds in ([(2, 100), (4, 42), (4, 43), (4, 86), (6, 26)] if ck.quick else
                      [(2, 100), (2, 64), (4, 42), (4, 43), (4, 44), (4, 86), (4, 100), (6, 26), (6, 52), (8, 19), (10, 15)]):
        for valid in (True, True, False):
            cfg = rand_cfg(rng, n, rounds, valid)
            for kind in rng.sample(KINDS, min(len(KINDS), 3 if ck.quick else 5)):
                todo.append(("long-season", n, rounds, cfg, rand_plan(rng, n, rounds, kind)))
    lines, expect = [], []
    cache: dict = {}
    for stream, n, rounds, cfg, plan in todo:
        key = (n, rounds, cfg)
        if key not in cache:
            inst = impl.instance(n, rounds, cfg)
            cache[key] = (inst, impl.Errors(inst) if inst is not None else None,
                          impl.GamePlanSpace(inst) if inst is not None else None)
        inst, f, space = cache[key]
        line = line_for(n, rounds, [cfg], plan, [3] * (n * (n - 1) // 2), [[4] * n] * n)
        ck.count(stream)
        ck.count(f"n={n}")
        if inst is None:
            ck.count("ctor_rejects_cfg")
            lines.append(line)
            expect.append((stream, n, rounds, cfg, plan, "REJECT", None))
            ck.case(line, nontrivial=False)
            continue
        x = impl.GamePlan(inst)
        x[:, :] = np.array(plan, dtype=np.int64).reshape(x.shape)
        space.validate(x)                      # every generated plan is in the space
        try:
            val = f.evaluate(x)
        except IndexError:
            val = "OOB"
        lines.append(line)
        expect.append((stream, n, rounds, cfg, plan, val, int(f.upper_bound())))
        ck.case(line)
    for line, (stream, n, rounds, cfg, plan, val, ub), mo in zip(lines, expect, ck.model(lines)):
        d = kv(mo)
        rec = d.get("r", "").split(",")
        if val == "REJECT":
            ck.compare(stream + ":ctor", line, "accepted=" + (rec[9] if len(rec) == 12 else mo), "accepted=0")
            continue
        if len(rec) != 12:
            ck.compare(stream, line, mo, f"val={val}")
            oracle(ck, n, rounds, cfg, plan, val, ub, d, None, stream)
            continue
        ck.compare(stream, line, f"accepted={rec[9]} val={rec[0]} ub={d.get('ub')}", f"accepted=1 val={val} ub={ub}")
        oracle(ck, n, rounds, cfg, plan, val, ub, d, rec, stream, ctor_accepted=True)


def stream_raw(ck: Check, impl: Impl) -> None:
    """Raw kernel, every configuration corner (also settings the constructor rejects), dirty scratch
    arrays of both storage types; under NUMBA_BOUNDSCHECK=1 also plans/scratch arrays outside the valid range."""
    rng, np = ck.rng, impl.np
    n_cases = 4000 if ck.quick else 20000
    lines, expect = [], []
    for _ in range(n_cases):
        n = rng.choice([2, 4, 4, 6, 8, 10])
        rounds = rng.choice([1, 2, 3])
        D = (n - 1) * rounds
        cfgs = [rand_cfg(rng, n, rounds, False), rand_cfg(rng, n, rounds, True), rand_cfg(rng, n, rounds, False)]
        plan = rand_plan(rng, n, rounds, rng.choice(KINDS))
        dtype = rng.choice(["int8", "int64"])
        t1, t2 = garbage(rng, n, np, dtype)
        kind = "inspace"
        if BOUNDSCHECK and rng.random() < 0.3:
            kind = rng.choice(["entry_out_of_range", "short_temp_1", "narrow_temp_2"])
            if kind == "entry_out_of_range":
                plan[rng.randrange(D)][rng.randrange(n)] = rng.choice([n + 1, -(n + 1), n + 3])
            elif kind == "short_temp_1":
                t1 = t1[:max(len(t1) - 1, 0)]
            else:
                t2 = np.ascontiguousarray(t2[:, :n - 1])
        ck.count("raw:" + kind)
        g1, g2 = t1.tolist(), t2.tolist()
        line = line_for(n, rounds, cfgs, plan, g1, g2)
        vals = [impl.raw(plan, c, t1.copy(), t2.copy(), dtype) for c in cfgs]
        lines.append(line)
        expect.append((n, rounds, cfgs, plan, vals, kind in ("inspace", "entry_out_of_range")))
        ck.case(line)
    # a plan for one team: days // (teams - 1) divides by zero
    if True:
        line = "ttpE 1 1 ; 1 1 1 1 0 0 ;  ;  ; 0"
        try:
            impl.count_errors(np.zeros((0, 1), np.int64), 1, 1, 1, 1, 0, 0, np.zeros(0, np.int64), np.zeros((1, 1), np.int64))
            v = "ok"
        except ZeroDivisionError:
            v = "OOB"
        lines.append(line)
        expect.append((1, 1, [(1, 1, 1, 1, 0, 0)], [], [v], True))
    for line, (n, rounds, cfgs, plan, vals, scratch_ok), mo in zip(lines, expect, ck.model(lines)):
        d = kv(mo)
        recs = [q.split(",") for q in d.get("r", "").split("/")]
        mvals = "/".join(r[0] for r in recs)
        ck.compare("raw", line, mvals, "/".join(str(v) for v in vals))
        if n < 2 or len(recs) != len(cfgs):
            continue
        ub = (4 * (n - 1) * rounds - 1) * n - 1
        for cfg, v, rec in zip(cfgs, vals, recs):
            oracle(ck, n, rounds, cfg, plan, v, ub, d, rec if len(rec) == 12 else None, "raw", scratch_ok)


def stream_space(ck: Check, impl) -> None:
    """The quantifier of C07 (and of C13) is "all plans accepted by the game-plan space": the space must accept exactly
    the plans of the right shape with entries in -n..n.  One entry of a valid plan is replaced by every representable
    value around the limits and at the extremes of the plan's integer type (e.g. -128, whose absolute value wraps);
    `GamePlanSpace.validate` must reject exactly the out-of-range ones.  An accepted out-of-range entry would make the
    compiled kernels index outside their arrays (found missing by seeded change C07-space-accepts-type-min)."""
    import os
    np = impl.np
    rng = ck.rng
    for n, rounds in ((2, 2), (4, 1), (4, 2), (6, 2), (10, 1)) + (() if ck.quick else ((16, 2), (126, 1), (128, 1))):
        cfg = (1, 3, 1, 3, 1, min(6, rounds * n - 1))
        inst = impl.instance(n, rounds, cfg)
        if inst is None:
            continue
        space = impl.GamePlanSpace(inst)
        base = np.array(rand_plan(rng, n, rounds, KINDS[0]), dtype=inst.game_plan_dtype)
        info = np.iinfo(inst.game_plan_dtype)
        cands = sorted({v for v in (-n - 2, -n - 1, -n, -1, 0, 1, n, n + 1, n + 2, info.min, info.min + 1, info.max - 1, info.max,
                                    -128, -127, 127, -32768, 32767) if info.min <= v <= info.max})
        for v in cands:
            for _ in range(2):
                plan = impl.GamePlan(inst)
                plan[:, :] = base
                d, t = rng.randrange(plan.shape[0]), rng.randrange(n)
                plan[d, t] = v
                try:
                    space.validate(plan)
                    accepted = True
                except (ValueError, TypeError):
                    accepted = False
                in_range = -n <= v <= n
                ck.case(f"space n={n} rounds={rounds} value={v} at ({d},{t})")
                ck.count("space_accept" if accepted else "space_reject")
                case = {"n": n, "rounds": rounds, "value": v, "day": d, "team": t, "dtype": str(inst.game_plan_dtype)}
                ck.spec(accepted == in_range, "space_accepts_out_of_range" if accepted else "space_rejects_in_range",
                        f"GamePlanSpace.validate {'accepts' if accepted else 'rejects'} a plan with entry {v} for n={n} "
                        f"(entries must be in -{n}..{n})", case)
                if accepted and not in_range and os.environ.get("NUMBA_BOUNDSCHECK") == "1":
                    try:   # C13: what the kernel does with what the space let through
                        impl.Errors(inst).evaluate(plan)
                    except IndexError:
                        ck.spec(False, "oob", f"count_errors indexes outside its arrays for the ACCEPTED plan entry {v}", case)


def streams(ck: Check) -> None:
    impl = Impl()
    stream_space(ck, impl)
    stream_exhaustive4(ck, impl)
    stream_objective(ck, impl)
    stream_raw(ck, impl)


def replay(path: str) -> int:
    """`./check C07 --replay replays/C07-impl-<seed>.json`: re-run the recorded failing inputs on the real
    kernel and on the Lean model/spec; exit 1 if the implementation still contradicts the specification."""
    import json
    from . import common
    obj = json.loads(open(path).read())
    ck = Check("C07", "quick", 0)
    impl = Impl()
    np = impl.np
    bad = 0
    for v in obj.get("violations", []):
        c = v["case"]
        n, rounds, cfg, plan = c["n"], c["rounds"], tuple(c["cfg"]), c["plan"]
        t1 = np.full(n * (n - 1) // 2, 77, np.int64)
        t2 = np.full((n, n), -5, np.int64)
        val = impl.raw(plan, cfg, t1, t2)
        line = line_for(n, rounds, [cfg], plan, t1.tolist(), t2.tolist())
        d = kv(ck.model([line])[0])
        rec = d.get("r", "").split(",")
        ub = (4 * (n - 1) * rounds - 1) * n - 1
        print(f"{v['key']}: n={n} rounds={rounds} cfg={list(cfg)} plan={plan}")
        print(f"  implementation: count_errors={val} upper_bound={ub}; model: {rec[0]}; spec: accepted={rec[9] if len(rec) == 12 else '?'} "
              f"feasible={rec[10] if len(rec) == 12 else '?'} documented={rec[11] if len(rec) == 12 else '?'} consistent={d.get('cons')}")
        before = len(ck.spec_violations) + len(ck.known)
        oracle(ck, n, rounds, cfg, plan, val, ub, d, rec if len(rec) == 12 else None, "replay")
        if len(ck.spec_violations) + len(ck.known) > before:
            bad += 1
            print("  -> still violates the specification")
        else:
            print("  -> no longer violates the specification")
    del common
    return 1 if bad else 0


def check(ck: Check) -> None:
    ck.rule = ("exhaustive: all 12^6 day-wise consistent four-team double round-robin plans (quick: seeded 2 % slice) "
               "x 6 (quick 4) constraint settings on the raw kernel; all 2-team plans over 9 day rows for rounds 1..3 "
               "x 4 settings, docstring examples and bound witnesses on the real Errors objective; random instances "
               "(n in 2..10, rounds 1..3, accepted and rejected settings) x structured plans (round robins, mutated, "
               "consistent with byes, sticky, cyclic, self-play, uniform) on Errors.evaluate; raw kernel with dirty "
               "int8/int64 scratch arrays and settings at 0/1/ll/ll+1/-1. A case = one protocol line "
               "(exhaustive line = 12 plans x settings); non-trivial = kernel evaluated; distinct by line hash")
    ck.assumptions += [
        "numba compiles count_errors as written (int64 arithmetic on int8 loads, `//` as floor division, no negative-index use)",
        "moptipy int_range_to_dtype picks a type that holds -1..D for temp_1/temp_2 and -n..n for plans (no wrap modelled)",
        "pycommons check_int_range accepts exactly lo..hi; the TSP super-constructor accepts the generated symmetric matrices",
        "GamePlanSpace.validate is the definition of the plan space (entries -n..n, shape D x n)",
    ]
    ck.not_proved += [
        "countErrors_le_upper at full strength is FALSE for the code (finding): proved only as countErrors_le_upper_partial "
        "(mutually consistent plan, home/away_streak_min <= 1, separation_min <= 1, separation_max >= D-2); "
        "negations at concrete witnesses are Lean examples in Props/C07.lean",
    ]
    ck.extra["exhaustive_enumeration"] = (
        "all 12^6 = 2,985,984 day-wise consistent four-team double round-robin plans x 6 settings in the thorough tier "
        "(seeded 2 % slice x 4 settings in quick): kernel value = model value, value = 0 <=> Lean FeasiblePlan, "
        "0 <= value, value <= upper bound inside the proved class")
    modules, theorems = ["Props.C07"], list(THEOREMS)
    # tie between source and model: lean/Gen/CountErrors.lean is regenerated from the CURRENT source of count_errors and
    # Props/C07Gen.lean proves it equal to the hand-written model `TtpErrors.countErrors?` for all inputs
    try:
        from .translate import loop2lean
        ck.gen_begin()   # released at the end of ck.lean
        loop2lean.emit_count_errors(common.REPO, common.LEAN)
        modules.append("Props.C07Gen")
        theorems.append("C07Gen.count_errors_eq_model")
    except Exception as e:  # noqa: BLE001 - source outside the translatable subset: the obligation cannot be regenerated
        ck.proof_failures.append(f"translator loop2lean: count_errors is not translatable, the theorem "
                                 f"C07Gen.count_errors_eq_model could not be re-checked against the source: {e!r}")
    ck.lean(modules, theorems)
    streams(ck)
