"""Self-test of the framework against the seeded changes under seeded/.

usage: /venv/bin/python -m harness.selftest [name-prefix ...]
For every seeded/<name>/ it makes a scratch worktree of /repo under /tmp, applies patch.diff, runs the registered
quick check of the seed's property against that tree (VERIF_REPO), expects exit code 1 with a VIOLATION line, and
removes the worktree again.  /repo itself is never modified.  Writes seeded/SELFTEST.json.
"""
from __future__ import annotations

import json
import os
import subprocess
import sys
import time
from pathlib import Path

ROOT = Path(__file__).resolve().parent.parent


def run(cmd, **kw):
    return subprocess.run(cmd, capture_output=True, text=True, check=False, **kw)


def main() -> int:
    sel = sys.argv[1:]
    out = ROOT / "seeded" / "SELFTEST.json"
    results = json.loads(out.read_text()) if (sel and out.exists()) else {}
    if os.environ.get("VERIF_SELFTEST_OUT"):     # several selections in parallel (disjoint properties): merged afterwards
        out, results = Path(os.environ["VERIF_SELFTEST_OUT"]), {}
    for d in sorted((ROOT / "seeded").iterdir()):
        if not (d / "patch.diff").exists() or (sel and not any(d.name.startswith(s) for s in sel)):
            continue
        meta = json.loads((d / "meta.json").read_text())
        prop, tier = meta["property"], meta.get("tier", "quick")   # a few seeds only show in the thorough scope
        wt = f"/tmp/selftest-{d.name}"
        run(["git", "-C", "/repo", "worktree", "remove", "--force", wt])
        r = run(["git", "-C", "/repo", "worktree", "add", "-q", wt, "HEAD"])
        if r.returncode != 0:
            results[d.name] = {"status": "worktree failed", "detail": r.stderr[-300:]}
            continue
        try:
            a = run(["git", "apply", str(d / "patch.diff")], cwd=wt)
            if a.returncode != 0:
                results[d.name] = {"status": "patch does not apply", "detail": a.stderr[-300:]}
                continue
            t0 = time.time()
            c = run([str(ROOT / "check"), prop, "--tier", tier], cwd=ROOT, env=dict(os.environ, VERIF_REPO=wt))
            viol = [ln for ln in c.stdout.splitlines() if ln.startswith("VIOLATION")]
            detail = [ln.strip() for ln in c.stdout.splitlines() if ln.startswith("  ")][:1]
            ok = c.returncode == 1 and bool(viol)
            results[d.name] = {"property": prop, "tier": tier, "status": "caught" if ok else f"NOT caught (exit {c.returncode})",
                               "with_failing_input": ok and "no-failing-input-found" not in viol[0],
                               "first": (detail or viol or [""])[0][:200], "wall_s": round(time.time() - t0, 1)}
        finally:
            run(["git", "-C", "/repo", "worktree", "remove", "--force", wt])
        print(d.name, results[d.name]["status"], results[d.name].get("first", ""), flush=True)
    out.write_text(json.dumps(dict(sorted(results.items())), indent=1) + "\n")
    bad = [k for k, v in results.items() if v["status"] != "caught"]
    print(f"{len(results) - len(bad)}/{len(results)} seeded changes caught" + (f"; NOT caught: {bad}" if bad else ""))
    # (runs against scratch trees write their evidence to .work/evidence-scratch, never to evidence/)
    return 1 if bad else 0


if __name__ == "__main__":
    sys.exit(main())
