"""C18 — TSPLIB and tour files load to the matrices the format prescribes (DESIGN.md section 6)."""
from __future__ import annotations

import itertools
import math
from decimal import Decimal, getcontext
from fractions import Fraction

from .common import Check, cmat, fmt_ints, fmt_matrix, kv

THEOREMS = [
    "Tsplib.walker_full", "Tsplib.walker_upperRow", "Tsplib.walker_lowerDiag", "Tsplib.walker_upperDiag",
    "Tsplib.explicit_formats_agree", "Tsplib.section_load", "Tsplib.wrapping_irrelevant", "Tsplib.explicit_section_loads",
    "Tsplib.blank_lines_ignored", "Tsplib.tokeniser_roundtrip", "Tsplib.mkInstance_facts", "Tsplib.accepted_entries_readable",
    "Tsplib.write_read_roundtrip", "Tsplib.write_read_same_instance", "Tsplib.tour_parser_perm",
    "Tsplib.nint_unique", "Tsplib.ceil_unique", "Tsplib.att_is_ceil",
]

ERRS = (ValueError, TypeError, OverflowError)
FORMATS = ("FULL_MATRIX", "UPPER_ROW", "LOWER_DIAG_ROW", "UPPER_DIAG_ROW")
#: characters Python's str.strip() removes (ASCII ones and a few others), used at line ends only
EDGE_WS = [" ", "\t", "  ", "\t ", "\r", "\x0b", "\x0c", "\x1c", "\x1f", "\x85", "\xa0", "\u2003", "\u3000", ""]


# --------------------------------------------------------------------------- protocol helpers
def esc(s: str) -> str:
    return "".join(c if (32 <= ord(c) <= 126 and c != "%") else f"%{ord(c):x};" for c in s)


def content(lines) -> str:
    return esc("".join(ln + "\n" for ln in lines))


def unesc(s: str) -> str:
    out, i = [], 0
    while i < len(s):
        if s[i] == "%":
            j = s.index(";", i)
            out.append(chr(int(s[i + 1:j], 16)))
            i = j + 1
        else:
            out.append(s[i])
            i += 1
    return "".join(out)


# --------------------------------------------------------------------------- implementation adapters
def mods():
    import moptipyapps.tsp.instance as im
    import moptipyapps.tsp.known_optima as ko
    return im, ko


def show_inst(inst) -> str:
    import numpy as np
    return (f"name={inst.name} n={inst.n_cities} lb={inst.tour_length_lower_bound} "
            f"ub={inst.tour_length_upper_bound} sym={'true' if inst.is_symmetric else 'false'} "
            f"dtype={inst.dtype} M={cmat(np.asarray(inst).tolist())}")


def impl_load(ck: Check, lines, lb: int, via_file: bool = False):
    im, _ = mods()
    try:
        if via_file:
            p = ck.work / "case.tsp"
            p.write_text("".join(ln + "\n" for ln in lines), encoding="utf-8")
            inst = im.Instance.from_file(str(p), lambda _n: lb)
        else:
            inst = im._from_stream(iter(lines), lambda _n: lb)
    except ERRS:
        return None, "ERR"
    except Exception as e:  # noqa: BLE001  (an exception the code is not meant to raise: reported, never hidden)
        return None, f"EXC:{type(e).__name__}"
    return inst, show_inst(inst)


def impl_sect(fmt: str, n: int, lines):
    im, _ = mods()
    try:
        m = im._matrix_from_edge_weights(n, "EXPLICIT", fmt, iter(lines))
    except ERRS:
        return None, "ERR"
    except Exception as e:  # noqa: BLE001
        return None, f"EXC:{type(e).__name__}"
    return m.tolist(), f"M={cmat(m.tolist())}"


def impl_write(name: str, lb: int, mult: int, M, comments):
    import numpy as np
    im, _ = mods()
    try:
        inst = im.Instance(name, lb, np.array(M, dtype=np.int64), mult)
    except ERRS:
        return None, None, "ERR"
    text: list[str] = []
    inst.to_stream(text.append, comments)
    try:
        back = im._from_stream(iter(text), lambda _n: lb)
        bs = show_inst(back)
    except ERRS:
        back, bs = None, "ERR"
    except Exception as e:  # noqa: BLE001
        back, bs = None, f"EXC:{type(e).__name__}"
    return inst, back, f"L={esc(chr(10).join(text))} ## {bs}"


def impl_tour(lines):
    _, ko = mods()
    try:
        t = ko._from_stream(iter(lines))
    except ERRS:
        return None, "ERR"
    except Exception as e:  # noqa: BLE001
        return None, f"EXC:{type(e).__name__}"
    return [int(v) for v in t], f"t={','.join(str(int(v)) for v in t)} dtype={t.dtype}"


def impl_nums(line: str):
    im, _ = mods()
    out: list = []
    try:
        im.__dict__["__line_to_nums"](line, out.append)
    except ERRS:
        return "ERR"
    except Exception as e:  # noqa: BLE001
        return f"EXC:{type(e).__name__}"
    res = []
    for v in out:
        if isinstance(v, int):
            res.append(f"i{v}")
        else:
            num, den = abs(v).as_integer_ratio()   # den is a power of two
            e = -(den.bit_length() - 1)
            while num and num % 2 == 0:
                num //= 2
                e += 1
            if num == 0:
                e = 0
            res.append(f"f{'-' if math.copysign(1.0, v) < 0 else '+'}{num}p{e}")
    return "N=" + ",".join(res)


def impl_ints(line: str):
    """`__read_n_ints` on one line (the count is taken from a first tokenising pass)"""
    im, _ = mods()
    out: list = []
    try:
        im.__dict__["__line_to_nums"](line, out.append)
        r = im.__dict__["__read_n_ints"](len(out), iter([line]))
    except ERRS:
        return "ERR"
    except Exception as e:  # noqa: BLE001
        return f"EXC:{type(e).__name__}"
    return "I=" + ",".join(str(v) for v in r)


DIST = {"EUC_2D": "__dist_2deuc", "CEIL_2D": "__dist_2dceil", "ATT": "__dist_att", "GEO": "__dist_loglat"}


def impl_dist(kind: str, a, b):
    """the distance function; 999999999 stands for 'raised' or 'no non-negative int' (never a correct value here)"""
    im, _ = mods()
    try:
        d = im.__dict__[DIST[kind]](list(a), list(b))
    except Exception:  # noqa: BLE001
        return 999999999
    return d if isinstance(d, int) and d >= 0 else 999999999


def py_num(tok: str):
    """the Python number `__line_to_nums` makes of a (well-formed) token"""
    return float(tok) if ("." in tok or "e" in tok or "E" in tok) else int(tok)


# --------------------------------------------------------------------------- GEO reference (high precision)
getcontext().prec = 80
_PI = Decimal("3.141592")
_RRR = Decimal("6378.388")


def _cos(x: Decimal) -> Decimal:
    x = abs(x)
    k = 0
    while x > Decimal("0.5"):
        x /= 2
        k += 1
    term, s, i, x2 = Decimal(1), Decimal(1), 0, x * x
    while abs(term) > Decimal(10) ** -75:
        i += 2
        term = -term * x2 / (i * (i - 1))
        s += term
    for _ in range(k):
        s = 2 * s * s - 1
    return s


def _rad(tok: str) -> Decimal:
    x = Decimal(tok)
    deg = int(x)     # truncation, as the TSPLIB FAQ (and the code) do
    return _PI * (Decimal(deg) + 5 * (x - deg) / 3) / 180


def geo_check(a, b, d: int):
    """Is d = int(RRR * acos(x) + 1) for the exact x?  Returns True / False / None (too close to call)."""
    if Decimal(a[0]) == Decimal(b[0]) and Decimal(a[1]) == Decimal(b[1]):
        return d == 1          # acos(1) = 0
    lat1, lon1, lat2, lon2 = _rad(a[0]), _rad(a[1]), _rad(b[0]), _rad(b[1])
    q1, q2, q3 = _cos(lon1 - lon2), _cos(lat1 - lat2), _cos(lat1 + lat2)
    x = ((1 + q1) * q2 - (1 - q1) * q3) / 2
    eps = Decimal(10) ** -60
    # d - 1 <= RRR * acos(x) < d   <=>   cos(d / RRR) < x <= cos((d - 1) / RRR)     (cos decreasing on [0, pi])
    if d < 1:
        return False
    hi = _cos(Decimal(d - 1) / _RRR)
    if Decimal(d) / _RRR >= Decimal("3.1415926535897932384626"):
        lo = Decimal(-2)
    else:
        lo = _cos(Decimal(d) / _RRR)
    if abs(x - hi) < eps or abs(x - lo) < eps:
        return None
    return lo < x <= hi


def geo_matrix(coords):
    """the GEO matrix by search around the float value, verified with `geo_check`"""
    n = len(coords)
    M = [[0] * n for _ in range(n)]
    for i in range(n):
        for j in range(i):
            d0 = impl_dist("GEO", [py_num(t) for t in coords[i]], [py_num(t) for t in coords[j]])
            d = next((c for c in (d0, d0 - 1, d0 + 1) if geo_check(coords[i], coords[j], c)), None)
            M[i][j] = M[j][i] = -1 if d is None else d
    return M


# --------------------------------------------------------------------------- generators
def rand_matrix(rng, n, hi, sym, zero_frac=0.0, neg=False):
    M = [[0] * n for _ in range(n)]
    for i in range(n):
        for j in range(n):
            if i == j:
                continue
            if sym and j < i:
                M[i][j] = M[j][i]
            else:
                v = 0 if rng.random() < zero_frac else rng.randint(1, hi)
                M[i][j] = -v if (neg and rng.random() < 0.2) else v
    return M


def py_listing(fmt, M):
    n = len(M)
    if fmt == "FULL_MATRIX":
        return [v for r in M for v in r]
    if fmt == "UPPER_ROW":
        return [M[r][c] for r in range(n) for c in range(r + 1, n)]
    if fmt == "LOWER_DIAG_ROW":
        return [M[r][c] for r in range(n) for c in range(r + 1)]
    return [M[r][c] for r in range(n) for c in range(r, n)]


def fancy_token(rng, v: int) -> str:
    """another spelling of the integer `v` that Python's int()/float() read as `v`"""
    k = rng.randrange(10)
    s = str(abs(v))
    sign = "-" if v < 0 else ""
    if k == 0:
        return f"{sign}{s}.0"
    if k == 1:
        return f"{sign}{s}."
    if k == 2:
        return f"{sign}{s}e0"
    if k == 3 and len(s) > 1 and len(s) < 16:
        return f"{sign}{s[0]}.{s[1:]}E+{len(s) - 1}"
    if k == 4 and v >= 0:
        return f"+{s}"
    if k == 5:
        return f"{sign}0{s}"
    if k == 6 and len(s) > 1:
        return f"{sign}{s[0]}_{s[1:]}"
    if k == 7 and len(s) < 15:
        return f"{sign}{s}0e-1"
    if k == 8:
        return f"{sign}{s}E0"
    return f"{sign}{s}"


def wrap(rng, toks, style, rows=None):
    """lay tokens out in lines"""
    toks = [str(t) for t in toks]
    if style == "one":
        return [" ".join(toks)]
    if style == "each":
        return list(toks)
    if style == "rows" and rows is not None:
        out, k = [], 0
        for r in rows:
            out.append(" ".join(toks[k:k + r]))
            k += r
        return out
    lines, cur = [], []
    for t in toks:
        cur.append(t)
        if rng.random() < 0.3:
            lines.append(cur)
            cur = []
    if cur:
        lines.append(cur)
    out = []
    for ln in lines:
        while rng.random() < 0.15:
            out.append(rng.choice(["", " ", "\t", " \t "]))
        s = ln[0]
        for t in ln[1:]:
            s += " " * rng.choice([1, 1, 1, 2, 3]) + t
        out.append(rng.choice(EDGE_WS) + s + rng.choice(EDGE_WS))
    while rng.random() < 0.15:
        out.append(rng.choice(["", "  ", "\t"]))
    return out


def header(rng, name, typ, n, ewt, ewf, extra=(), plain=False):
    items = [("NAME", name)]
    if typ is not None:
        items.append(("TYPE", typ))
    if n is not None:
        items.append(("DIMENSION", str(n)))
    if ewt is not None:
        items.append(("EDGE_WEIGHT_TYPE", ewt))
    if ewf is not None:
        items.append(("EDGE_WEIGHT_FORMAT", ewf))
    items += list(extra)
    if plain:
        return [f"{k}: {v}" for k, v in items]
    if rng.random() < 0.7:
        rng.shuffle(items)
    if rng.random() < 0.4:
        items.insert(rng.randrange(len(items) + 1), ("COMMENT", rng.choice(["x", "a: b", "EOF", "1 2 3", "NAME: y"])))
    if rng.random() < 0.3:
        items.insert(rng.randrange(len(items) + 1), ("DISPLAY_DATA_TYPE", "NO_DISPLAY"))
    out = []
    for k, v in items:
        sep = rng.choice([": ", " : ", ":", " :  ", "\t:\t", ": "])
        out.append(rng.choice(["", "", " ", "\t"]) + k + sep + v + rng.choice(["", "", " ", "\r", "\t "]))
        if rng.random() < 0.1:
            out.append(rng.choice(["", " ", "junk line without colon", "12 13"]))
    return out


def gen_load_cases(ck: Check, listings):
    """yield (stream, lines, lb, expect) — expect = (name, M) for files that must load to M, else None"""
    rng = ck.rng
    quick = ck.quick

    def file_for(name, M, fmt, style, fancy=False, typ="auto", plain=False, tail=("EOF",), lst=None):
        n = len(M)
        toks = listings(fmt, M) if lst is None else lst
        if fancy:
            toks = [fancy_token(rng, v) if rng.random() < 0.3 else str(v) for v in toks]
        rows = {"FULL_MATRIX": [n] * n, "UPPER_ROW": [n - 1 - r for r in range(n)],
                "LOWER_DIAG_ROW": [r + 1 for r in range(n)], "UPPER_DIAG_ROW": [n - r for r in range(n)]}[fmt]
        sym = all(M[i][j] == M[j][i] for i in range(n) for j in range(n))
        if typ == "auto":
            typ = rng.choice(["TSP", "TSP (M.~Hofmeister)", None, "ATSP"]) if sym else rng.choice(["ATSP", None])
        nm = name + (".tsp" if (not plain and rng.random() < 0.3) else "")
        return (header(rng, nm, typ, n, "EXPLICIT", fmt, plain=plain) + ["EDGE_WEIGHT_SECTION"]
                + wrap(rng, toks, style, rows) + list(tail))

    # (2) exhaustive small scope
    small = [[[0, a], [a, 0]] for a in range(4)]
    small += [[[0, a, b], [a, 0, c], [b, c, 0]] for a, b, c in itertools.product(range(3), repeat=3)]
    for M in small:
        for fmt in FORMATS:
            for style in ("one", "each", "rows"):
                yield "exh-sym", file_for("s", M, fmt, style, plain=True, typ="TSP"), 0, ("s", M)
    asym = [[[0, a], [b, 0]] for a, b in itertools.product(range(4), repeat=2)]
    asym += [[[0, e[0], e[1]], [e[2], 0, e[3]], [e[4], e[5], 0]] for e in itertools.product(range(2), repeat=6)]
    for M in asym:
        for style in ("one", "rows"):
            yield "exh-asym", file_for("a", M, "FULL_MATRIX", style, plain=True, typ="ATSP"), 0, ("a", M)
    # (4) boundary: token range, float spellings, values that only floats can reach, diagonal tokens
    B = 10**15
    for v, ok in ((B, False), (B + 1, False), (B - 1, False), (B // 2, True), (B // 2 + 1, False), (10**12, True),
                  (10**12 + 1, True), (10**14, True)):
        M = [[0, v], [v, 0]]       # accepted by the constructor iff 2 v <= 10^15
        for fmt in FORMATS:
            yield "boundary", file_for("b", M, fmt, "rows", plain=True, typ="TSP"), 0, (("b", M) if ok else None)
    for v in (B - 1, B, B + 1, -B, -B - 1):   # the token range itself (asymmetric 2-city instances: v + 1 <= 10^15)
        yield "boundary", ["NAME: b", "TYPE: ATSP", "DIMENSION: 2", "EDGE_WEIGHT_TYPE: EXPLICIT",
                           "EDGE_WEIGHT_FORMAT: FULL_MATRIX", "EDGE_WEIGHT_SECTION", f"0 {v}", "1 0", "EOF"], 0, (
            ("b", [[0, v], [1, 0]]) if v == B - 1 else None)
    for tok in ("1e12", "1.0e12", "1000000000001.0", "1e15", "1e16", "9.007199254740993e15", "1e18",
                "9223372036854774784.0", "9223372036854775807.0", "1e19", "1e308", "1e309", "-0.0", "0.5", "1.5",
                "2.0000000000000001", "1.9999999999999999", "1e-400", "5e-324", ".5e1", "5.e0", "0x10", "1_0", "1__0", "_1",
                "1_", "+7", "+-7", "--7", "1e", "e1", ".", "1.2.3", "1e1e1", "nan", "inf", "-inf", "Infinity",
                "1e+", "1E1", "00012", "1 ", "1\t", "\t1", "1\x0b", "1\xa0", "1\x1c 2", "2 \x1c1", "1\x1f 2", "1\x85 2",
                "1\u2003 2", "1.0\x1d 2", "1.0\x0c 2"):
        yield "boundary-token", header(rng, "t", "TSP", 2, "EXPLICIT", "UPPER_ROW", plain=True) + [
            "EDGE_WEIGHT_SECTION", tok, "EOF"], 0, None
    for diag in ("1e30", "7", "-3", "2.5", "1e400", "99999999999999"):
        yield "boundary-diag", header(rng, "d", "TSP", 2, "EXPLICIT", "LOWER_DIAG_ROW", plain=True) + [
            "EDGE_WEIGHT_SECTION", f"{diag} 4 0", "EOF"], 0, None
        yield "boundary-diag", header(rng, "d", "TSP", 2, "EXPLICIT", "UPPER_DIAG_ROW", plain=True) + [
            "EDGE_WEIGHT_SECTION", f"0 4 {diag}", "EOF"], 0, None
        yield "boundary-diag", header(rng, "d", "ATSP", 2, "EXPLICIT", "FULL_MATRIX", plain=True) + [
            "EDGE_WEIGHT_SECTION", f"{diag} 4 3 0", "EOF"], 0, None
    for dim, ok in (("2", True), ("1", False), ("0", False), ("-2", False), ("1000000000", True), ("1000000001", False),
                    ("2.0", False), (" 2", True), ("+2", True), ("0_2", True), ("two", False)):
        yield "boundary-dim", ["NAME: q", f"DIMENSION: {dim}", "EDGE_WEIGHT_TYPE: EXPLICIT",
                               "EDGE_WEIGHT_FORMAT: UPPER_ROW", "EDGE_WEIGHT_SECTION", "5", "EOF"], 0, None
    # (3) structured random
    n_rand = 160 if quick else 3000
    sizes = [2, 2, 3, 3, 4, 5, 6, 8, 12] if quick else [2, 3, 4, 5, 6, 8, 12, 20, 35]
    for k in range(n_rand):
        n = rng.choice(sizes)
        hi = rng.choice([3, 9, 100, 1000, 10**6, 10**9, 10**12, 10**15 // 40])
        sym = rng.random() < 0.75
        M = rand_matrix(rng, n, hi, sym, rng.choice([0.0, 0.0, 0.15]))
        name = rng.choice(["r", "abc", "x_1", "gr17", "A9z"])
        fmts = FORMATS if sym else ("FULL_MATRIX",)
        for fmt in fmts:
            tail = rng.choice([("EOF",), (), ("", "EOF", "junk"), ("DISPLAY_DATA_SECTION", "1 2 3", "EOF"), (" EOF ",)])
            yield (f"random-{fmt}", file_for(name, M, fmt, "random", fancy=rng.random() < 0.5, tail=tail),
                   rng.choice([0, 0, 1, 2]), (name, M))
    # (5) malformed
    good = lambda: [[0, 3, 4], [3, 0, 5], [4, 5, 0]]  # noqa: E731
    Mg = good()
    base = ["NAME: m", "TYPE: TSP", "DIMENSION: 3", "EDGE_WEIGHT_TYPE: EXPLICIT", "EDGE_WEIGHT_FORMAT: UPPER_ROW",
            "EDGE_WEIGHT_SECTION", "3 4", "5", "EOF"]
    yield "malformed-none", list(base), 0, ("m", Mg)
    for key in ("NAME: z", "TYPE: TSP", "DIMENSION: 3", "EDGE_WEIGHT_TYPE: EXPLICIT", "EDGE_WEIGHT_FORMAT: UPPER_ROW",
                "NODE_COORD_TYPE: NO_COORDS"):
        for pos in (0, 5):
            ls = list(base)
            ls.insert(pos, key)
            if key.startswith("NODE"):
                ls.insert(pos, key)
            yield "malformed-dupkey", ls, 0, None
    for drop in range(5):
        ls = list(base)
        del ls[drop]
        yield "malformed-missingkey", ls, 0, None
    for i, repl in ((1, "TYPE: CVRP"), (1, "TYPE: ATSP"), (1, "TYPE:"), (1, "TYPE: TSP (M.~Hofmeister)"),
                    (3, "EDGE_WEIGHT_TYPE: EUC_3D"), (3, "EDGE_WEIGHT_TYPE: EUC_2D"), (3, "EDGE_WEIGHT_TYPE : GEO"),
                    (4, "EDGE_WEIGHT_FORMAT: LOWER_ROW"), (4, "EDGE_WEIGHT_FORMAT: FUNCTION"),
                    (4, "EDGE_WEIGHT_FORMAT: upper_row"), (0, "NAME: a-b"), (0, "NAME: a__b"), (0, "NAME: _a"),
                    (0, "NAME: .tsp"), (0, "NAME: a b"), (0, "NAME: m.tsp.tsp"), (0, "NAME: m.TSP"), (0, ": m"),
                    (0, "NAME m"), (0, "NAME:: m"), (0, "NAME: m:1"), (2, "DIMENSION: 4"), (2, "DIMENSION: 2"),
                    (5, "FIXED_EDGES_SECTION"), (5, "EDGE_WEIGHT_SECTION:"), (5, "EDGE_WEIGHT_SECTION "),
                    (5, "NODE_COORD_SECTION"), (8, "EOF "), (8, "eof"), (8, "EDGE_WEIGHT_SECTION"),
                    (8, "NODE_COORD_SECTION"), (8, "FIXED_EDGES_SECTION"), (8, "COMMENT:")):
        ls = list(base)
        ls[i] = repl
        yield "malformed-value", ls, 0, None
    for body in (["3 4"], ["3 4 5 6"], ["3 4", "5 6"], ["3 4 5", "6"], ["3", "4", "5", "6", "EOF"], ["3 4", "EOF", "5"],
                 ["3 4.5 5"], ["3 x 5"], ["3 4", "", " ", "5"], ["3\t4 5"], ["3 4\t 5"], ["3,4,5"], ["3 4 5 "], [],
                 ["3 4", "TYPE: TSP", "5"], ["-3 4 5"], ["0 0 5"], ["3 4", "5", "EDGE_WEIGHT_SECTION", "3 4 5"]):
        yield "malformed-count", base[:6] + body + ["EOF"], 0, None
    # TYPE TSP with an asymmetric full matrix; ATSP with a symmetric one
    for typ in ("TSP", "ATSP"):
        for body in (["0 1 2", "1 0 3", "2 3 0"], ["0 1 2", "1 0 3", "2 4 0"], ["9 1 2", "1 9 3", "2 3 9"]):
            yield "malformed-type", ["NAME: m", f"TYPE: {typ}", "DIMENSION: 3", "EDGE_WEIGHT_TYPE: EXPLICIT",
                                     "EDGE_WEIGHT_FORMAT: FULL_MATRIX", "EDGE_WEIGHT_SECTION"] + body + ["EOF"], 0, None
    # section before the keys it needs; lower bound too large
    yield "malformed-order", ["NAME: m", "EDGE_WEIGHT_SECTION", "3 4 5", "DIMENSION: 3", "EDGE_WEIGHT_TYPE: EXPLICIT",
                              "EDGE_WEIGHT_FORMAT: UPPER_ROW", "EOF"], 0, None
    yield "malformed-order", base[1:6] + ["3 4 5", "NAME: late", "EOF"], 0, ("late", Mg)
    yield "malformed-lb", list(base), 10**6, None
    yield "malformed-lb", list(base), -1, None
    # random mutations of valid files
    for _ in range(60 if quick else 1500):
        n = rng.choice([2, 3, 4])
        M = rand_matrix(rng, n, 9, True)
        fmt = rng.choice(FORMATS)
        ls = file_for("u", M, fmt, "random", fancy=rng.random() < 0.5)
        k = rng.randrange(6)
        if k == 0:
            del ls[rng.randrange(len(ls))]
        elif k == 1:
            ls.insert(rng.randrange(len(ls) + 1), rng.choice(ls))
        elif k == 2:
            i = rng.randrange(len(ls))
            ls[i] = ls[i] + rng.choice([" 1", " 2.5", " x", ":", " EOF"])
        elif k == 3:
            i = rng.randrange(len(ls))
            if ls[i]:
                j = rng.randrange(len(ls[i]))
                ls[i] = ls[i][:j] + rng.choice(["", " ", "\t", "1", ".", "e", "-", "_", ":"]) + ls[i][j + 1:]
        elif k == 4:
            i, j = rng.randrange(len(ls)), rng.randrange(len(ls))
            ls[i], ls[j] = ls[j], ls[i]
        else:
            i = rng.randrange(len(ls))
            ls[i] = rng.choice(["EOF", "", "EDGE_WEIGHT_SECTION", "NODE_COORD_SECTION", "7", "TYPE: ATSP"])
        yield "malformed-mutated", ls, 0, None


def rand_coord(rng, kind):
    """a coordinate token and a magnitude class"""
    k = rng.randrange(6) if kind != "int" else 0
    if k <= 1:
        return str(rng.randint(-3000, 30000) if rng.random() < 0.8 else rng.randint(0, 10**7))
    if k == 2:
        return f"{rng.randint(0, 99999)}.{rng.randint(0, 9)}"
    if k == 3:
        return f"{rng.randint(0, 9999)}.{rng.randint(0, 999):03d}"
    if k == 4:
        return f"{rng.randint(1, 9)}.{rng.randint(0, 99999):05d}e+0{rng.randint(0, 4)}"
    return f"{rng.randint(0, 999)}.{rng.randint(0, 99):02d}E{rng.randint(0, 3)}"


def gen_coord_files(ck: Check):
    """yield (stream, lines, kind, coords or None)"""
    rng = ck.rng
    for _ in range(60 if ck.quick else 1200):
        kind = rng.choice(["EUC_2D", "CEIL_2D", "ATT"])
        n = rng.choice([2, 3, 4, 6, 9])
        style = rng.choice(["int", "int", "mixed"])
        coords = [(rand_coord(rng, style), rand_coord(rng, style)) for _ in range(n)]
        if rng.random() < 0.2:
            coords[1] = coords[0]          # two cities at the same place
        extra = [("NODE_COORD_TYPE", "TWOD_COORDS")] if rng.random() < 0.3 else []
        ls = header(rng, "c", rng.choice(["TSP", None]), n, kind, rng.choice([None, "FUNCTION"]), extra=extra)
        ls.append("NODE_COORD_SECTION")
        for i, (x, y) in enumerate(coords):
            ls.append(rng.choice(["", " ", "  "]) + f"{i + 1}" + " " * rng.choice([1, 2]) + x + " " + y + rng.choice(["", " "]))
            if rng.random() < 0.1:
                ls.append("")
        ls += rng.choice([["EOF"], [], ["EOF", "junk"]])
        yield f"coords-{kind}", ls, kind, coords
    pre = ["NAME: c", "TYPE: TSP", "DIMENSION: 3", "EDGE_WEIGHT_TYPE: EUC_2D", "NODE_COORD_SECTION"]
    for body in (["1 0 0", "2 3 4", "3 6 8"], ["1 0 0", "2 3 4"], ["1 0 0", "2 3 4", "3 6 8", "4 1 1"], ["1 0 0", "3 3 4", "2 6 8"],
                 ["1.0 0 0", "2 3 4", "3 6 8"], ["1 0 0 0", "2 3 4 0", "3 6 8 0"], ["1 0", "2 3", "3 6"], ["0 0 0", "1 3 4", "2 6 8"],
                 ["1 0 0", "2 3 4", "3 6 x"], ["1 0 0", "", "2 3 4", " 3 6 8 "], ["1 0 0", "2 0 0", "3 0 0"],
                 ["1 0 0", "2 1e400 4", "3 6 8"], ["1 0 0", "2 1e13 4", "3 6 8"], ["1 0 0", "2 10000000000000 4", "3 6 8"],
                 ["1 0.5 0.5", "2 3.5 4.5", "3 1e1 2E0"], ["+1 0 0", "02 3 4", "3 6 8"]):
        yield "coords-malformed", pre + body + ["EOF"], "EUC_2D", None
        yield "coords-malformed", pre + body, "EUC_2D", None
    for hd in (["NAME: c", "DIMENSION: 3", "EDGE_WEIGHT_TYPE: EXPLICIT"], ["NAME: c", "DIMENSION: 3"],
               ["NAME: c", "EDGE_WEIGHT_TYPE: ATT"], ["NAME: c", "DIMENSION: 3", "EDGE_WEIGHT_TYPE: ATT", "NODE_COORD_TYPE: NO_COORDS"],
               ["NAME: c", "DIMENSION: 3", "EDGE_WEIGHT_TYPE: CEIL_2D", "NODE_COORD_TYPE: TWOD_COORDS"],
               ["NAME: c", "DIMENSION: 3", "EDGE_WEIGHT_TYPE: ATT", "NODE_COORD_TYPE: THREED_COORDS"]):
        yield "coords-malformed", hd + ["NODE_COORD_SECTION", "1 0 0", "2 30 40", "3 60 80", "EOF"], "EUC_2D", None


def gen_tours(ck: Check):
    rng = ck.rng
    base_hdr = ["NAME : t.opt.tour", "COMMENT : x (12)", "TYPE : TOUR", "DIMENSION : 5"]
    for n in range(1, 7):
        for perm in ([list(range(1, n + 1))] + [rng.sample(range(1, n + 1), n) for _ in range(3)]):
            for term in (["-1", "EOF"], ["-1"], ["EOF"], [], ["-1", "9 9"], [" -1 "], ["eof"]):
                for sec in ("TOUR_SECTION", "tour_section", " Tour_Section\t"):
                    yield "tour-valid", base_hdr + [sec] + [str(v) for v in perm] + term
    for _ in range(150 if ck.quick else 3000):
        n = rng.choice([1, 2, 3, 5, 8, 13, 40, 130, 260])
        perm = rng.sample(range(1, n + 1), n)
        k = rng.randrange(8)
        if k == 1 and n > 1:
            perm[rng.randrange(n)] = perm[rng.randrange(n)]          # maybe a duplicate
        elif k == 2:
            perm.pop(rng.randrange(n))                                 # wrong size
        elif k == 3:
            perm[rng.randrange(n)] = rng.choice([0, -1, -2, n + 1, n + 5, 10**12, 10**12 + 1])
        body = wrap(rng, perm, rng.choice(["one", "each", "random"]))
        if k == 4:
            body = [b.replace(" ", "\t") for b in body]
        if k == 5:
            body.insert(rng.randrange(len(body) + 1), rng.choice(["x", "1.0", "3 -1", "TOUR_SECTION", "EOF", "-1", "+1", "0_1"]))
        hdr = list(base_hdr) if rng.random() < 0.7 else []
        if k == 6:
            hdr.insert(rng.randrange(len(hdr) + 1), rng.choice(["-1", "EOF", "7", "1 2 3"]))
        sec = [] if k == 7 and rng.random() < 0.5 else ["TOUR_SECTION"]
        yield "tour-random", hdr + sec + body + rng.choice([["-1", "EOF"], ["-1"], ["EOF"], []])


def gen_metric_points(ck: Check):
    """yield (kind, (ax, ay, bx, by) as tokens, tag)"""
    rng = ck.rng
    for kind in ("EUC_2D", "CEIL_2D", "ATT"):
        scale = 10 if kind == "ATT" else 1
        # perfect squares +-1 and the neighbourhood of half-integers, via Pythagorean-free search
        for k in list(range(0, 40)) + [rng.randint(40, 10**4) for _ in range(60 if ck.quick else 1500)]:
            for target in (k * k * scale, (k * k + k) * scale, (k * k + k) * scale + scale // 2):
                dx = rng.randint(0, math.isqrt(target)) if target else 0
                dy0 = math.isqrt(max(0, target - dx * dx))
                for dy in (dy0 - 1, dy0, dy0 + 1, dy0 + 2):
                    if dy < 0:
                        continue
                    ox, oy = rng.randint(-50, 50), rng.randint(-50, 50)
                    yield kind, (str(ox + dx), str(oy), str(ox), str(oy + dy)), "int-edge"
        for _ in range(150 if ck.quick else 4000):
            yield kind, tuple(rand_coord(rng, "int") for _ in range(4)), "int-random"
        for _ in range(150 if ck.quick else 4000):
            yield kind, tuple(rand_coord(rng, "mixed") for _ in range(4)), "dec-random"
        # decimal half-integer neighbourhoods: distances k + 0.5 +- 0.001 along an axis
        for k in range(0, 30):
            for d in ("499", "500", "501"):
                yield kind, (f"{k}.{d}", "0", "0", "0"), "dec-edge"
                yield kind, ("0.0", f"{k}.{d}", "0", "0.000"), "dec-edge"
        # tsp225[166,169]: exactly 88.5 in decimal arithmetic, 88.49999999999997 in binary64 (TSPLIB95 defines the latter)
        yield kind, ("525.42", "281.65", "525.42", "193.15"), "dec-edge"
        yield kind, ("0.1", "0.7", "0.1", "0.2"), "dec-edge"
        yield kind, ("1.1", "2.2", "1.1", "0.7"), "dec-edge"


# --------------------------------------------------------------------------- streams
def tsplib_text(fname):
    from moptipyapps.tsp.tsplib import open_resource_stream
    with open_resource_stream(fname) as s:
        return s.read().splitlines()


def coords_of(lines):
    """(kind, [(xtok, ytok)]) of a coordinate file"""
    kind, out, on = None, [], False
    for ln in lines:
        s = ln.strip()
        if s.startswith("EDGE_WEIGHT_TYPE"):
            kind = s.split(":")[1].strip()
        elif s == "NODE_COORD_SECTION":
            on = True
        elif s == "EOF":
            on = False
        elif on and s:
            p = s.split()
            out.append((p[1], p[2]))
    return kind, out


def streams(ck: Check) -> None:
    import numpy as np
    im, ko = mods()
    from moptipyapps.tsp.tour_length import tour_length
    rng = ck.rng
    ops: list[str] = []
    post: list = []     # one callable(model_out) per op

    def add(op, fn):
        ops.append(op)
        post.append(fn)

    # ---- phase 0: listings from the Lean specification (`listOf`) for all matrices used below
    cache: dict[str, dict] = {}
    pending: list = []

    def listings(fmt, M):
        key = cmat(M)
        if key not in cache:
            pending.append(M)
            cache[key] = {f: py_listing(f, M) for f in FORMATS}    # replaced/checked after the model pass
        return cache[key][fmt]

    load_cases = list(gen_load_cases(ck, listings))
    lst_ops = [f"lists {fmt_matrix(M)}" for M in pending]
    names = {"full": "FULL_MATRIX", "ur": "UPPER_ROW", "ld": "LOWER_DIAG_ROW", "ud": "UPPER_DIAG_ROW"}
    for M, out in zip(pending, ck.model(lst_ops)):
        d = kv(out)
        n = len(M)
        sym0 = all(M[i][j] == M[j][i] for i in range(n) for j in range(n)) and all(M[i][i] == 0 for i in range(n))
        for short, fmt in names.items():
            got = [int(v) for v in d.get(short, "").split(",") if v != ""]
            ck.compare("spec-listing", f"lists {fmt} {cmat(M)}", ",".join(map(str, got)),
                       ",".join(map(str, py_listing(fmt, M))))
        if sym0:
            ck.compare("spec-listing", f"lists agree {cmat(M)}", d.get("agree", "?"), "true")
        ck.case(f"lists {cmat(M)}")
        ck.count("listing")

    # ---- whole files in the four explicit formats (correspondence + "loads to the matrix it lists")
    for idx, (stream, lines, lb, expect) in enumerate(load_cases):
        via_file = (idx % 3 == 0) and not any("\r" in ln or "\n" in ln for ln in lines)
        inst, iout = impl_load(ck, lines, lb, via_file)
        line = f"load {lb} {content(lines)}"
        ck.case(line, nontrivial=iout != "ERR")
        ck.count(stream)
        ck.count("load_ok" if inst is not None else "load_err")
        ck.count("via_file" if via_file else "via_iter")

        def fn(mout, stream=stream, line=line, iout=iout, inst=inst, expect=expect, lines=lines):
            ck.compare(stream, line, mout, iout)
            if expect is not None:
                name, M = expect
                n = len(M)
                # would the constructor accept M?  (decided by the model = C05's constructor)
                if inst is None:
                    ck.spec(mout == "ERR" and not ctor_ok(M), "explicit_load",
                            "a file listing a valid matrix is rejected", {"lines": lines, "M": M})
                else:
                    sym = all(M[i][j] == M[j][i] for i in range(n) for j in range(n))
                    ok = (inst.name == name and inst.n_cities == n and bool(inst.is_symmetric) == sym
                          and np.asarray(inst).tolist() == M)
                    ck.spec(ok, "explicit_load", "the loaded instance differs from the matrix the file lists",
                            {"lines": lines, "M": M, "got": np.asarray(inst).tolist()})
        add(line, fn)

    # ---- a distance that is not an integer must be refused (never silently truncated)
    for _ in range(40 if ck.quick else 600):
        n = rng.choice([2, 3, 4])
        M = rand_matrix(rng, n, 50, True)
        fmt = rng.choice(FORMATS)
        toks = [str(v) for v in py_listing(fmt, M)]
        pos = [i for i, v in enumerate(py_listing(fmt, M)) if v != 0] or [0]
        i = rng.choice(pos)
        toks[i] = rng.choice([toks[i] + ".5", toks[i] + ".25", toks[i] + "5e-1", toks[i] + ".0000001"])
        lines = (header(rng, "f", None, n, "EXPLICIT", fmt, plain=True) + ["EDGE_WEIGHT_SECTION"]
                 + wrap(rng, toks, "random") + ["EOF"])
        inst, iout = impl_load(ck, lines, 0)
        line = f"load 0 {content(lines)}"
        ck.case(line)
        ck.count("nonintegral")

        def fn(mout, line=line, iout=iout, lines=lines):
            ck.compare("nonintegral", line, mout, iout)
            ck.spec(iout == "ERR", "nonintegral", "a file with a non-integral distance is accepted", {"lines": lines, "got": iout})
        add(line, fn)

    # ---- the section reader alone (matrices the constructor would reject included)
    for _ in range(80 if ck.quick else 2000):
        n = rng.choice([2, 3, 4, 5, 7])
        M = rand_matrix(rng, n, rng.choice([5, 10**12, 10**15]), True, rng.choice([0.0, 0.5]), neg=True)
        for fmt in FORMATS:
            toks = py_listing(fmt, M)
            k = rng.randrange(5)
            if k == 1 and fmt != "UPPER_ROW":  # arbitrary diagonal entries are skipped / overwritten with 0
                D = [row[:] for row in M]
                for i in range(n):
                    D[i][i] = rng.choice([7, -1, 10**15])
                toks = py_listing(fmt, D)
            elif k == 2:
                toks = toks[:-1]
            elif k == 3:
                toks = toks + [1]
            ls = wrap(rng, [fancy_token(rng, v) if rng.random() < 0.2 else v for v in toks], "random")
            nn = n if k != 4 else rng.choice([n - 1, n + 1, 1, 0])
            Mi, iout = impl_sect(fmt, nn, ls)
            line = f"sect {fmt} {nn} {content(ls)}"
            ck.case(line, nontrivial=iout != "ERR")
            ck.count(f"sect-{fmt}")

            def fn(mout, line=line, iout=iout, Mi=Mi, M=M, k=k, ls=ls, fmt=fmt):
                ck.compare("sect", line, mout, iout)
                if k in (0, 1):
                    ck.spec(Mi == M, "explicit_load", f"{fmt} section does not load to the listed matrix",
                            {"lines": ls, "M": M, "got": Mi})
            add(line, fn)

    # ---- writer, and reading back what the real writer wrote
    wcases = []
    for a, b in itertools.product(range(1, 4), repeat=2):
        wcases.append(("w", 0, 1, [[0, a], [b, 0]], []))
    for hi in (1, 9, 10**12, 10**12 + 1, 2 * 10**12, 10**14, 5 * 10**14, 5 * 10**14 + 1):
        wcases.append(("big", 0, 1, [[0, hi], [hi, 0]], []))
        wcases.append(("big", 0, 1, [[0, hi, 1], [2, 0, hi], [hi, 3, 0]], []))
    wcases.append(("big", 0, 1, [[0, 10**15 - 1], [1, 0]], []))      # the largest distance any instance can hold
    wcases.append(("big", 0, 1, [[0, 10**15], [1, 0]], []))
    for _ in range(20 if ck.quick else 300):                          # random instances with distances in (1e12, 1e15)
        n = rng.choice([2, 3, 4])
        M = rand_matrix(rng, n, 10**15 // (n + 1), rng.random() < 0.5)
        wcases.append(("big", 0, rng.choice([1, 2]), M, []))
    for _ in range(120 if ck.quick else 2500):
        n = rng.choice([2, 2, 3, 4, 5, 8, 13] if ck.quick else [2, 3, 4, 5, 8, 13, 30])
        M = rand_matrix(rng, n, rng.choice([3, 100, 10**6, 10**12]), rng.random() < 0.6, rng.choice([0.0, 0.2]))
        cm = rng.choice([[], [], ["a comment"], ["  padded\t", "two: colons"], ["EOF"], ["NAME: other"]])
        wcases.append((rng.choice(["w", "abc_1", "Z9"]), rng.choice([0, 0, 2]), rng.choice([1, 1, 3]), M, cm))
    for _ in range(30 if ck.quick else 300):     # nearly symmetric: large entries, one mirrored pair differs by a few units
        n = rng.choice([2, 3, 5])
        hi = rng.choice([10**5, 10**7, 10**11])
        M = rand_matrix(rng, n, hi, True)
        for i in range(n):
            for j in range(n):
                if i != j:
                    M[i][j] += hi
        for i in range(n):
            for j in range(i):
                M[i][j] = M[j][i]
        if rng.random() < 0.75:
            i, j = rng.sample(range(n), 2)
            M[i][j] += rng.choice([1, 2, 5, -1, -4])
        wcases.append(("near", 0, 1, M, []))
    wcases.append(("w", 0, 1, [[0, 1], [1, 0]], [""]))        # blank comment: written, not readable
    wcases.append(("w", 0, 1, [[0, 1], [1, 0]], [" \t"]))
    for name, lb, mult, M, cm in wcases:
        inst, back, iout = impl_write(name, lb, mult, M, cm)
        line = f"write {lb} {mult} {name} {cmat(M)} {content(cm)}"
        ck.case(line, nontrivial=inst is not None)
        ck.count("write-sym" if inst is not None and inst.is_symmetric else "write-asym" if inst is not None else "write-ctor-err")

        def fn(mout, line=line, iout=iout, inst=inst, back=back, M=M, cm=cm, name=name):
            ck.compare("write", line, mout, iout)
            if inst is None or any(not c.strip() for c in cm):
                return
            big = max(abs(v) for r in M for v in r) > 10**12
            ok = (back is not None and back.name == inst.name and back.n_cities == inst.n_cities
                  and bool(back.is_symmetric) == bool(inst.is_symmetric)
                  and np.asarray(back).tolist() == np.asarray(inst).tolist())
            ck.spec(ok, "roundtrip_big" if big else "roundtrip",
                    "to_stream output does not read back to the same instance", {"name": name, "M": M, "comments": cm})
        add(line, fn)

    # ---- assumption about the external sanitize_name: its fixed points have the shape the round-trip theorem needs
    from moptipy.utils.strings import sanitize_name
    alphabet = "abzAZ019_.-+ \t:;äß/\\"
    for _ in range(400 if ck.quick else 5000):
        nm = "".join(rng.choice(alphabet) for _ in range(rng.randint(1, 6)))
        try:
            fixed = sanitize_name(nm) == nm
        except ERRS:
            fixed = False
        if fixed:
            shape = len(nm) > 0 and not any(c.isspace() for c in nm) and "." not in nm
            ck.compare("assumption-nameshape", nm, "shape=True", f"shape={shape}")
            ck.count("name-fixedpoint")
        else:
            ck.count("name-not-fixedpoint")

    # ---- tokeniser
    toks_pool = ["0", "7", "-7", "+7", "007", "1_000", "1__0", "12.0", "12.5", "-0.0", "1e3", "1E3", "1e+3", "1e-3", "1.5e1",
                 ".5", "5.", ".", "e", "1e", "0.1e1", "1000000000000", "1000000000001", "-1000000000001", "1e12", "1e22", "1e23",
                 "9007199254740993", "9007199254740993.0", "0.30000000000000004", "0.1", "2.5e-1", "4.9e-324", "2.4e-324",
                 "2.5e-324", "1.7976931348623157e308", "1.7976931348623158e308", "1.7976931348623159e308", "1e400", "1e-400",
                 "123456789012345678901234567890.0", "0.000000000000000000000000000001e30", "1_0.0_1", "1._1", "x", "1x", "0x1",
                 "1.0.0", "--1", "+-1", "1e1.0", "1\t", "\t1", "1\t2", "1.e1", ".e1", "-.5", "+.5e+1", "1e0001", "0e999999999",
                 "1e-999999999", "1e999999999", "0.0e400", "4.35", "2.675", "1.005", "8.41", "17.955", "1e15", "1e16", "123456789.125", "9\x1c", "\x1c9", "9\x1d", "9\x1e", "9\x1f", "9\x85", "9\xa0",
                 "9\u3000", "9\x0b", "9\x0c", "9.5\x1c", "9.0\x1f", "\x1e9e0"]
    for t in toks_pool:
        for lnv in (t, f" {t}  3", f"3 {t}"):
            add(f"nums {content([lnv])}", lambda mout, lnv=lnv: (ck.compare("nums", lnv, mout, impl_nums(lnv)), ck.count("nums")))
            add(f"ints {content([lnv])}", lambda mout, lnv=lnv: (ck.compare("ints", lnv, mout, impl_ints(lnv)), ck.count("ints")))
            ck.case(f"nums {lnv!r}")
    for _ in range(300 if ck.quick else 6000):
        k = rng.randrange(4)
        if k == 0:
            t = "".join(rng.choice("0123456789.eE+-_ \t") for _ in range(rng.randint(1, 9)))
        elif k == 1:
            t = f"{rng.randint(0, 10**rng.randint(1, 25))}.{rng.randint(0, 10**rng.randint(1, 20))}"
        elif k == 2:
            t = f"{rng.randint(0, 10**rng.randint(1, 18))}e{rng.randint(-330, 310)}"
        else:
            t = f"{rng.choice(['', '-', '+'])}{rng.randint(0, 9999)}.{rng.choice(['0', '00', '5', '25', '999999999999999999999'])}"
        lnv = rng.choice(EDGE_WS) + t + rng.choice(EDGE_WS)
        add(f"nums {content([lnv])}", lambda mout, lnv=lnv: (ck.compare("nums", lnv, mout, impl_nums(lnv)), ck.count("nums-random")))
        add(f"ints {content([lnv])}", lambda mout, lnv=lnv: (ck.compare("ints", lnv, mout, impl_ints(lnv)), ck.count("ints-random")))
        ck.case(f"nums {lnv!r}")

    # ---- tours
    for stream, lines in gen_tours(ck):
        t, iout = impl_tour(lines)
        line = f"tour {content(lines)}"
        ck.case(line, nontrivial=t is not None)
        ck.count(stream)
        ck.count("tour_ok" if t is not None else "tour_err")

        def fn(mout, stream=stream, line=line, iout=iout):
            d = kv(mout)
            ck.compare(stream, line, mout if mout == "ERR" else f"t={d.get('t')} dtype={d.get('dtype')}", iout)
        add(line, fn)
        if t is not None:      # C: the Lean predicate `IsPerm` on the implementation's tour
            add(f"isperm {len(t)} ; {fmt_ints(t)}",
                lambda mout, t=t, lines=lines: ck.spec(mout == "perm=true", "tour_perm",
                                                        "an accepted tour is not a permutation of 0..k-1", {"lines": lines, "tour": t}))

    # ---- coordinate files: the model evaluates the TSPLIB95 definitions exactly (differential TEST of the float code)
    for stream, lines, kind, coords in gen_coord_files(ck):
        inst, iout = impl_load(ck, lines, 0)
        line = f"load 0 {content(lines)}"
        ck.case(line, nontrivial=inst is not None)
        ck.count(stream)

        def fn(mout, stream=stream, line=line, iout=iout, lines=lines):
            ck.compare(stream, line, mout, iout)
            if mout != "ERR" and iout != "ERR":
                ck.spec(mout == iout, "metric", "a coordinate file loads to distances other than the TSPLIB95 definition (binary64) gives",
                        {"lines": lines, "expected": mout, "got": iout})
        add(line, fn)

    # ---- the distance functions themselves against the integer characterisations (spec predicate on impl value)
    for kind, p, tag in gen_metric_points(ck):
        a = [py_num(p[0]), py_num(p[1])]
        b = [py_num(p[2]), py_num(p[3])]
        d = impl_dist(kind, a, b)
        line = f"pdist {kind} {d} {content([' '.join(p)])}"
        ck.case(line)
        ck.count(f"metric-{kind}-{tag}")

        def fn(mout, kind=kind, p=p, d=d, tag=tag, line=line):
            metric_verdict(ck, mout, kind, d, p, f"metric-{kind}", line)
        add(line, fn)
    for _ in range(200 if ck.quick else 5000):
        p = tuple(f"{rng.randint(-89, 89)}.{rng.randint(0, 59):02d}" if rng.random() < 0.8 else str(rng.randint(-89, 89))
                  for _ in range(4))
        if rng.random() < 0.1:
            p = (p[0], p[1], p[0], p[1])
        d = impl_dist("GEO", [py_num(t) for t in p[:2]], [py_num(t) for t in p[2:]])
        r = geo_check(p[:2], p[2:], d)
        ck.case(f"geo {p}")
        ck.count("metric-GEO-random" if r is not None else "metric-GEO-undecided")
        ck.spec(r is not False, "metric", f"GEO distance {d} of {p} is not the TSPLIB95 value", {"points": p, "got": d})

    # ---- shipped instances: matrices of coordinate instances, optimal tours (finite table, exhaustive in thorough)
    lim = 130 if ck.quick else 10**9
    tours = list(ko.list_resource_tours())
    all_names = list(im.Instance.list_resources())
    n_tours = 0
    for name in all_names:
        n = im.ncities_from_tsplib_name(name)
        suffix = ".atsp" if name in im.__dict__["_ASYMMETRIC_INSTANCES"] else ".tsp"
        lines = tsplib_text(name + suffix)
        kind, coords = coords_of(lines)
        has_tour = name in tours
        if (n > lim and not has_tour and kind == "EXPLICIT") or (ck.quick and n > 450):
            continue
        try:
            inst = im.Instance.from_resource(name)
        except Exception as e:  # noqa: BLE001
            ck.spec(False, "shipped_load", f"shipped instance {name} does not load: {type(e).__name__}: {e}", {"name": name})
            continue
        Mi = np.asarray(inst).tolist()
        lb = im.__dict__["_LOWER_BOUNDS"][name]
        full = n <= lim and (ck.quick or n <= 700)
        if kind == "GEO":
            if full and n <= (30 if ck.quick else 700):
                Mg = geo_matrix(coords)
                bad = [(i, j) for i in range(n) for j in range(n) if Mg[i][j] != Mi[i][j]]
                ck.count("shipped-geo-matrix")
                ck.case(f"shipped-geo {name}")
                ck.spec(not bad, "metric", f"{name}: GEO entries differ from the high-precision evaluation at {bad[:3]}", {"name": name})
            else:
                for _ in range(200):
                    i, j = rng.sample(range(n), 2)
                    ck.spec(geo_check(coords[i], coords[j], Mi[i][j]) is not False, "metric",
                            f"{name}: GEO entry [{i},{j}]={Mi[i][j]} differs from the high-precision evaluation", {"name": name})
                ck.count("shipped-geo-sampled")
                ck.case(f"shipped-geo-sampled {name}")
        elif kind != "EXPLICIT" and not full:
            # spot check of sampled entries with the spec predicate
            for _ in range(40 if ck.quick else 400):
                i, j = rng.sample(range(n), 2)
                p = coords[i] + coords[j]
                line = f"pdist {kind} {Mi[i][j]} {content([' '.join(p)])}"
                add(line, lambda mout, name=name, i=i, j=j, v=Mi[i][j], kind=kind, p=p, line=line: metric_verdict(
                    ck, mout, kind, v, p, f"shipped:{name}[{i},{j}]", line))
                ck.case(line)
            ck.count("shipped-coord-sampled")
        if full and kind != "GEO":
            line = f"load {lb} {content(lines)}"
            ck.case(line)
            ck.count(f"shipped-load-{kind}")
            add(line, lambda mout, name=name, line=line, inst=inst: ck.compare("shipped:" + name, line[:60], mout, show_inst(inst)))
        if has_tour and (n <= lim):
            n_tours += 1
            tl = tsplib_text(name + ".opt.tour")
            try:
                t = [int(v) for v in ko.opt_tour_from_resource(name)]
            except Exception as e:  # noqa: BLE001
                ck.spec(False, "shipped_tour", f"shipped tour {name} does not load: {type(e).__name__}: {e}", {"name": name})
                continue
            L = int(tour_length(inst, np.array(t)))
            if kind == "GEO" or not full:
                line = f"tourL {fmt_matrix(Mi)} ; {fmt_ints(t)}"
                pre = ""
            else:
                line = f"tourchk {lb} {content(lines)}%%{content(tl)}"
                pre = f"n={n} k={len(t)} "
            ck.case(line)
            ck.count("shipped-tour")

            def fn(mout, name=name, L=L, lb=lb, t=t, pre=pre, n=n):
                d = kv(mout)
                ck.compare("shipped-tour:" + name, "tourchk " + name, f"perm={d.get('perm')} len={d.get('len')}",
                           f"perm=true len={L}")
                ck.spec(d.get("perm") == "true" and d.get("len") == str(lb) and L == lb and len(t) == n, "shipped_tour",
                        f"{name}: shipped tour is a permutation: {d.get('perm')}, length {d.get('len')} / {L}, documented optimum {lb}",
                        {"name": name})
            add(line, fn)
    ck.extra["shipped_tours_checked"] = f"{n_tours} of {len(tours)} (exhaustive_enumeration)"

    outs = ck.model(ops)
    for fn, mout in zip(post, outs):
        fn(mout)


def metric_verdict(ck: Check, mout: str, kind: str, d: int, p, where: str, line: str) -> None:
    """impl distance `d` of the points `p` (tokens) against the two Lean evaluations:
    `val` = the TSPLIB95 definition in binary64 arithmetic (exact IEEE model), `spec`/`q` = the real-number
    definition on the decimal denotations (integer characterisation; decisive for integer coordinates)"""
    dd = kv(mout)
    ck.compare("metric-binary64", line, dd.get("val", mout), str(d))
    if dd.get("allint") == "true":
        ck.spec(dd.get("spec") == "true", "metric",
                f"{where}: {kind} distance {d} of integer points {p} is not the TSPLIB95 value {dd.get('q')}",
                {"kind": kind, "points": p, "got": d})
    else:
        ck.spec(dd.get("val") == str(d), "metric",
                f"{where}: {kind} distance {d} of {p} is not the binary64 evaluation {dd.get('val')} of the TSPLIB95 definition",
                {"kind": kind, "points": p, "got": d})
        ck.count("metric-decimal-exact-agrees" if dd.get("spec") == "true" else "metric-decimal-exact-differs")
        if dd.get("spec") != "true" and len(ck.notes) < 12:
            ck.notes.append(f"{where}: binary64 definition gives {d}, exact decimal arithmetic would give {dd.get('q')} for {kind} {p}")


def ctor_ok(M) -> bool:
    import numpy as np
    im, _ = mods()
    try:
        im.Instance("x", 0, np.array(M, dtype=np.int64))
    except ERRS:
        return False
    return True


def check(ck: Check) -> None:
    ck.rule = ("listings from the Lean spec + exhaustive (all symmetric 2-city matrices over 0..3 and 3-city matrices over 0..2 "
               "x 4 formats x 3 layouts; asymmetric 2x2 over 0..3, 3x3 over 0..1) + token/dimension boundary stream + random "
               "matrices x 4 formats x random wrapping/header order/blank lines/number spellings + malformed and mutated files "
               "+ section reader alone + writer/reader round trips + tokeniser on a float/int spelling pool and random tokens "
               "+ tours (valid, duplicates, wrong size, both terminators) + coordinate files and distance functions against the "
               "integer characterisations (GEO against an 80-digit evaluation) + shipped instances and all shipped optimal tours "
               "(exhaustive_enumeration; thorough: all 31). A case is one protocol line; distinct by line hash")
    ck.assumptions += [
        "ASCII input: non-ASCII decimal digits (accepted by Python's int()/float()) and non-ASCII names/upper() are outside the model",
        "sanitize_name (moptipy) is external: the driver uses its ASCII fixed-point test (word characters, no '__', no '_' at either end); "
        "the round-trip theorem assumes its fixed points are non-empty, free of white space and of '.' (checked on random strings by this stream)",
        "float(str) is correctly rounded binary64 (modelled exactly in integer arithmetic, checked by the tokeniser stream)",
        "np.array(list, int64) / item assignment raise OverflowError outside int64; numpy zeros/reshape/fill_diagonal as modelled",
        "Instance.__new__ = Tsp.mkInstance (C05); the lower-bound getter is a parameter",
        "distance functions: the model evaluates the TSPLIB95 definitions in IEEE-754 binary64 (every + - * / sqrt exactly rounded once, "
        "Python int arithmetic exact); libm sqrt is assumed correctly rounded and pow(x, 2.0) = the rounded x*x; for integer coordinates the "
        "result is additionally checked against the real-number definition (integer predicates IsEuc2d/IsCeil2d/IsAtt); cos/acos (GEO) are "
        "not modelled: GEO is compared with an 80-digit decimal evaluation (deg = trunc as in the TSPLIB FAQ and the code)",
        "text files: universal-newline line splitting of open() is not modelled (lines are given to the model already split)",
    ]
    ck.not_proved += [
        "metric clause (EUC_2D, CEIL_2D, ATT, GEO float code = TSPLIB95 definition): differential testing only, no theorem about floats "
        "(theorems nint_unique, ceil_unique, att_is_ceil concern the integer characterisations only)",
        "write_read_roundtrip carries the hypothesis n <= 10^9 (DIMENSION is read with check_to_int_range(.., 2, 10^9); the constructor "
        "itself has no such limit, but an instance with more cities cannot exist in memory) and non-blank comments "
        "(to_stream writes 'COMMENT: ' for a blank comment, which _from_stream rejects; default argument: no comments)",
        "character level: the round trip is proved for the exact text to_stream produces (model of str(int), ' '.join, the header lines); "
        "wrapping_irrelevant / section_load quantify over arbitrary lines through the tokeniser lineInts? (no grammar-level theorem that "
        "every Python-accepted spelling of an integer denotes that integer beyond the canonical decimal text)",
        "shipped tours = documented optima: exhaustive_enumeration over the shipped files, not a theorem",
    ]
    ck.lean(["Props.C18"], THEOREMS)
    streams(ck)
