"""Called by ./check when the check process was killed by a signal other than the time limit (SIGSEGV, SIGABRT, SIGBUS…).

The harness runs the real code in-process; compiled kernels run without bounds checks, so a changed kernel that writes
outside its arrays can corrupt the heap and take the interpreter down before any verdict is printed.  On the modelled
code this cannot happen (index theorems + bounds-checked runs of C13).  A crash is therefore reported as a violation:
with the case that was in flight when a stream announced it (`Check.in_flight`), otherwise `no-failing-input-found`.

usage: python -m harness.crash <prop> <tier> <returncode> <logfile>
"""
from __future__ import annotations

import json
import os
import signal
import sys
import time
from pathlib import Path

from . import common


def main() -> int:
    prop, tier, rc, log = sys.argv[1].upper(), sys.argv[2], int(sys.argv[3]), Path(sys.argv[4])
    seed = int(os.environ.get("VERIF_SEED", "0"))
    sig = rc - 128
    try:
        signame = signal.Signals(sig).name
    except ValueError:
        signame = f"signal {sig}"
    tail = ""
    try:
        tail = log.read_text(errors="replace")[-3000:]
    except OSError:
        pass
    case = None
    started = float(os.environ.get("VERIF_CHECK_STARTED", "0"))
    for p in [common.WORK / prop / "in_flight.json", *sorted((common.WORK / "C13").glob("*/in_flight.json"))]:
        try:
            if p.stat().st_mtime >= started:
                case = {"file": str(p.relative_to(common.ROOT)), "case": json.loads(p.read_text())}
                break
        except (OSError, ValueError):
            continue
    d = common.ROOT / "replays"
    d.mkdir(exist_ok=True)
    path = d / f"{prop}-crash-{seed}.json"
    path.write_text(json.dumps({
        "property": prop, "kind": "crash", "signal": signame, "tree_checked": common.tree_id(),
        "what": "the check process, which runs the implementation in-process, was killed by " + signame +
                " (memory corruption by a compiled kernel is the usual cause; run ./check C13 for the bounds-checked "
                "re-run that turns the stray access into an IndexError with its input)",
        "in_flight": case, "no_longer_checks": ["correspondence of " + prop + " (the implementation phase did not complete)"],
        "output_tail": tail}, indent=1))
    level = "proof"
    try:
        man = json.loads((common.ROOT / "MANIFEST.json").read_text())
        level = next(c["level"] for c in man["checks"] if c.get("property_id", c.get("property")) == prop)
    except Exception:  # noqa: BLE001
        pass
    ev = {"property_id": prop, "tier": tier if tier in ("quick", "thorough") else "quick", "seed": seed, "level": level,
          "coverage": {"evaluations": 0, "distinct_nontrivial": 0, "rule": "run aborted: check process killed by " + signame,
                       "samples": [case or "<none announced>"], "obligations": 0, "discharged": 0,
                       "checker_cmd": "none (aborted)", "trusted_base": [], "traces_validated_against_impl": 0,
                       "explanation": "aborted run; see " + str(path.relative_to(common.ROOT)),
                       "tree_checked": common.tree_id()},
          "assumptions": [], "wall_s": round(max(0.0, time.time() - started), 2) if started else 0.0, "violations": 1}
    evdir = common.ROOT / "evidence" if common.REPO.resolve() == Path("/repo") else common.WORK / "evidence-scratch"
    evdir.mkdir(parents=True, exist_ok=True)
    (evdir / f"{prop}.json").write_text(json.dumps(ev, indent=1, default=str) + "\n")
    print(f"VIOLATION property={prop} replay={path.relative_to(common.ROOT)} (implementation crashed the interpreter: "
          f"{signame})" + ("" if case else " no-failing-input-found"))
    return 1


if __name__ == "__main__":
    sys.exit(main())
