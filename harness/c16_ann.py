"""C16, part B — generated ANN controllers and minimising-network controllers.

Lean side: `lean/Model/AnnGen.lean`, `lean/Model/MinAnn.lean` (models + specs),
`lean/Proofs/AnnGen.lean`, `lean/Proofs/MinAnn.lean`, `lean/Props/C16Ann.lean` (theorems),
`lean/Driver/C16Ann.lean` (+ `C16AnnMain.lean`, lake exe `drv_c16ann`).

Streams (B = correspondence model/implementation, C = the property evaluated on what the
implementation produced):

ann_text   B  the source text `make_ann` hands to `CodeGenerator.build` (captured by wrapping
              `build`; nothing in /repo is changed) + name + the three dims given to `Controller`,
              byte for byte against `render (annGen …)`; rejected architectures against `makeAnn?`.
           C  the implementation's text is parsed into the statement AST and the *Lean* predicates
              "every parameter index used exactly once, in order", "every subscript in range",
              "param_dims = Σ(fan_in+1)·width + cd·(fan_in+2)" are evaluated on it by the driver.
ann_eval   B  the captured text is `exec`-ed (Python's own semantics) with `np.arctan` replaced by
              the bounded integer test activation x ↦ (x³+x+1) mod 10007 − 5003 and run on integer states/parameters; compared
              exactly with `run (annGen …)` over `Int`.
           C  the same result against `layered?` (the layer-by-layer specification).
ann_float  B/C  the real numba-compiled controller returned by `make_ann` against `run`/`layered?`
              over Lean `Float` with libm `atan` (tolerance 1e-9; a *test*, IEEE/fastmath is outside
              the proof).
min_exact  B  the source of the six `__min_ann_*` kernels, float literals replaced by the equal
              `Fraction`s, `np.arctan`/`np.nextafter`/`PHI` replaced by rational stand-ins, executed
              over `Fraction`s; compared exactly with the model over `Rat`.
min_real   C  the real compiled kernels: result finite, inside [-1000, 1000], at least as good as
              every point of the bracketing grid; (test) agreement with the model run over `Float`.
"""
from __future__ import annotations

import ast
import itertools
import math
import re
import struct
from fractions import Fraction

from .common import REPO, Check, kv

MODULES = ["Props.C16Ann"]
DRV = "drv_c16ann"
THEOREMS = [
    "AnnGen.annGen_refines", "AnnGen.layered_total", "AnnGen.annGen_correct",
    "AnnGen.annGen_ignores_stale_out", "AnnGen.annGen_paramCount",
    "AnnGen.annGen_params_each_once", "AnnGen.annGen_indices_in_range",
    "AnnGen.makeAnn?_eq_some", "AnnGen.paramCount_le", "AnnGen.makeAnn?_accepts_property_range",
    "AnnGen.Var.name_injective",
    "MinAnn.minAnn_in_interval", "MinAnn.minAnn_best_of_evaluated", "MinAnn.ratConsts_ok",
    "MinAnn.ratNum_eq", "MinAnn.minAnn_in_interval_rat",
]

RULE = ("ANN generator: render(annGen) == text built by make_ann (byte-identical, all architectures "
        "of the scope) and exec(text) == run(annGen) == layered? exactly over Int with a test "
        "activation; real compiled controller == layered? over Float within 1e-9. "
        "min_ann: Fraction execution of the kernel sources == model over Rat exactly; real kernels "
        "return a finite value in [-1000, 1000] that is no worse than any grid point.")
ASSUMPTIONS = [
    "Python semantics of the generated text (left-associative +, * binds tighter, sequential "
    "assignment to locals) is what AnnGen.run implements; tested by exec-ing the real text",
    "numba compiles the generated function to what Python would compute up to IEEE rounding and "
    "fastmath re-association (tested with tolerance 1e-9, not proved)",
    "np.arctan / libm atan is an opaque function `act` in the theorems",
    "min_ann: np.nextafter(x, ±inf) only assumed to satisfy x <= up x and dn x <= x; arithmetic exact "
    "(ordered field) in the theorem, binary64 + fastmath in the kernels",
    "Controller/check_int_range argument validation as read from pycommons (ValueError outside the ranges)",
]
NOT_PROVED = [
    "minAnn_in_interval is partial: proved over an exact linearly ordered field with fuel; "
    "termination of the three while loops of the float kernels (nextafter steps, delta > 1e-12) "
    "and binary64/fastmath rounding are outside the model (tested on the real kernels only)",
    "annGen_correct is about arbitrary (add, mul, act) applied in program order; numba fastmath may "
    "re-associate the sums of the compiled controller (float test with tolerance only)",
]

ACT_INT = lambda x: (x * x * x + x + 1) % 10007 - 5003  # noqa: E731  (= Drv.C16Ann.intOps.act; bounded)


# --------------------------------------------------------------------------- capturing make_ann
class _Capture:
    """Wrap `CodeGenerator.build`; `compile_=False` skips numba and returns a no-op callable."""

    def __init__(self, compile_: bool) -> None:
        self.compile = compile_
        self.texts: list[str] = []

    def __enter__(self):
        from moptipyapps.dynamic_control.controllers import ann, codegen
        self.cg, self.ann = codegen.CodeGenerator, ann
        self.orig = self.cg.build
        cap = self

        def build(gen):
            if cap.compile:
                fn = cap.orig(gen)
            else:
                gen.endline()
                fn = _noop
            cap.texts.append(gen._CodeGenerator__res())  # pylint: disable=W0212
            return fn
        self.cg.build = build
        self._before = set(vars(ann.make_ann))
        return self

    def __exit__(self, *a):
        self.cg.build = self.orig
        if not self.compile:  # do not leave no-op controllers in make_ann's cache
            for k in set(vars(self.ann.make_ann)) - self._before:
                delattr(self.ann.make_ann, k)
        return False

    def make(self, sd, cd, layers):
        """-> (controller | None, text | None)"""
        key = "__cache_" + "_".join(map(str, [sd, cd, *layers]))
        if hasattr(self.ann.make_ann, key):
            delattr(self.ann.make_ann, key)
        n0 = len(self.texts)
        try:
            c = self.ann.make_ann(sd, cd, list(layers))
        except ValueError:
            return None, (self.texts[-1] if len(self.texts) > n0 else None)
        # no new text: make_ann answered from a cache this harness does not know (a changed cache key) - the caller
        # reports that as a correspondence failure; stream `ann_cache` then judges what such a cache returns
        return c, (self.texts[-1] if len(self.texts) > n0 else None)


def _noop(state, t, params, out):  # pylint: disable=W0613
    return None


def esc(s: str) -> str:
    return s.replace("\n", "\\n")


_T = r"((?: \+ params\[\d+\] \* \w+)*)"
_RE_L = re.compile(r"^    (\w+) = state\[(\d+)\]$")
_RE_N = re.compile(r"^    (\w+) = np\.arctan\(params\[(\d+)\]" + _T + r"\)$")
_RE_O = re.compile(r"^    out\[(\d+)\] = params\[(\d+)\] \* np\.arctan\(params\[(\d+)\]" + _T + r"\)$")
_RE_T = re.compile(r" \+ params\[(\d+)\] \* (\w+)")


def parse_text(text: str):
    """generated source -> statement encoding of the driver's `prog` op (None if not of that shape)"""
    lines = text.split("\n")
    if len(lines) < 3 or lines[-1] != "" or not lines[1].startswith("def ____func("):
        return None
    out = []
    for ln in lines[2:-1]:
        m = _RE_L.match(ln)
        if m:
            out.append(f"L {m.group(1)} {m.group(2)}")
            continue
        m = _RE_N.match(ln)
        if m:
            ts = " ".join(f"{w}:{u}" for w, u in _RE_T.findall(m.group(3)))
            out.append(f"N {m.group(1)} {m.group(2)} {ts}".rstrip())
            continue
        m = _RE_O.match(ln)
        if m:
            ts = " ".join(f"{w}:{u}" for w, u in _RE_T.findall(m.group(4)))
            out.append(f"O {m.group(1)} {m.group(2)} {m.group(3)} {ts}".rstrip())
            continue
        return None
    return " | ".join(out)


class _FakeNumba:
    @staticmethod
    def njit(*_a, **_k):
        return lambda f: f


def exec_text(text: str, arctan):
    """`exec` the generated source the way CodeGenerator.build does, with stand-ins for numba/np"""
    class NP:  # pylint: disable=R0903
        ndarray = object
    NP.arctan = staticmethod(arctan)
    from typing import Final
    loca: dict = {}
    exec(text, {"numba": _FakeNumba, "np": NP, "Final": Final}, loca)  # noqa: S102  # nosec
    return loca["____func"]


def f2b(x: float) -> int:
    return struct.unpack("<Q", struct.pack("<d", float(x)))[0]


def b2f(b: int) -> float:
    return struct.unpack("<d", struct.pack("<Q", int(b)))[0]


def ints(xs) -> str:
    return " ".join(str(int(v)) for v in xs)


def param_count(sd, cd, layers):
    n, fan = 0, sd
    for w in layers:
        n += w * (fan + 1)
        fan = w
    return n + cd * (fan + 2)


# --------------------------------------------------------------------------- architectures
def bundled_archs():
    from moptipyapps.dynamic_control.systems.lorenz import LORENZ_4
    from moptipyapps.dynamic_control.systems.stuart_landau import STUART_LANDAU_4
    from moptipyapps.dynamic_control.systems.three_coupled_oscillators import THREE_COUPLED_OSCILLATORS
    res = []
    for s in (STUART_LANDAU_4, LORENZ_4, THREE_COUPLED_OSCILLATORS):
        for layers in ([], [1], [2], [3], [2, 2], [3, 2]):   # `anns(system)`
            res.append((s.state_dims, s.control_dims, layers))
    return res, {"sl": STUART_LANDAU_4, "lorenz": LORENZ_4, "osc": THREE_COUPLED_OSCILLATORS}


def text_archs(ck: Check):
    """(stream, sd, cd, layers) for the text comparison"""
    rng = ck.rng
    bund, _ = bundled_archs()
    for a in bund:
        yield ("bundled", *a)
    # the property's scope: sd, cd in 1..6, up to 3 hidden layers of width 1..8
    for sd in range(1, 7):
        for cd in range(1, 7):
            for depth in range(4):
                for layers in itertools.product(range(1, 9), repeat=depth):
                    if depth == 3 and ck.quick and rng.random() >= 0.15:
                        continue
                    yield (f"scope_d{depth}", sd, cd, list(layers))
    # boundary of what make_ann / Controller accept
    for a in [(2, 1, [64]), (2, 1, [64, 13]), (2, 1, [64, 14]), (100, 8, []), (100, 9, []), (100, 10, []),
              (2, 100, []), (2, 100, [1]), (2, 100, [8]), (2, 100, [9]), (100, 1, [9]), (100, 1, [10]),
              (2, 1, [1] * 40), (3, 2, [2] * 30), (2, 1, [7, 1, 7, 1, 7, 1, 7]), (6, 6, [8, 8, 8, 8, 8, 8]),
              (2, 1, [31, 29]), (2, 1, [30, 30]), (2, 1, [30, 31])]:
        yield ("boundary", *a)
    # malformed
    for a in [(0, 1, []), (1, 1, []), (1, 1, [3]), (101, 1, []), (2, 0, []), (2, 101, []), (2, 1, [0]),
              (2, 1, [65]), (2, 1, [3, 0, 3]), (2, 1, [64, 64]), (100, 100, []), (3, 1, [64, 64, 64])]:
        yield ("malformed", *a)
    # any depth and width: random deep / wide architectures
    for _ in range(60 if ck.quick else 1500):
        depth = rng.choice([1, 2, 3, 4, 4, 5, 6, 8, 12])
        wmax = rng.choice([2, 3, 5, 8, 16, 64])
        yield ("random_deep", rng.randint(2, rng.choice([3, 6, 20])), rng.randint(1, rng.choice([2, 6, 10])),
               [rng.randint(1, wmax) for _ in range(depth)])


def rand_ints(rng, n, lim):
    r = rng.random()
    if r < 0.1:   # unit vector: shows which slot a parameter lands in
        v = [0] * n
        if n:
            v[rng.randrange(n)] = rng.choice([1, -1, 2])
        return v
    if r < 0.2:
        return [rng.choice([0, 0, 1, -1]) for _ in range(n)]
    return [rng.randint(-lim, lim) for _ in range(n)]


# --------------------------------------------------------------------------- ANN streams
def ann_streams(ck: Check) -> None:
    rng = ck.rng
    ops: list[str] = []
    ctx: list[tuple] = []

    archs = list(text_archs(ck))
    accepted = []
    with _Capture(compile_=False) as cap:
        for stream, sd, cd, layers in archs:
            c, text = cap.make(sd, cd, layers)
            ck.count(f"text_{stream}")
            line = f"anntext {sd} {cd} ; {ints(layers)}"
            if c is None:
                impl = "ERR"
            elif text is None:
                impl = f"ok name={c.name} sd={c.state_dims} cd={c.control_dims} pd={c.param_dims} text=<none generated>"
            else:
                impl = (f"ok name={c.name} sd={c.state_dims} cd={c.control_dims} pd={c.param_dims} "
                        f"text={esc(text)}")
                accepted.append((stream, sd, cd, layers, c.param_dims, text))
            ops.append(line)
            ctx.append(("text", stream, impl, None))
            ck.case(line, nontrivial=c is not None)
            ck.count("arch_accepted" if c is not None else "arch_rejected")

    # evaluation cases: every bundled/boundary/deep architecture, a sample of the scope
    n_eval = 0
    for stream, sd, cd, layers, pd, text in accepted:
        if stream.startswith("scope") and rng.random() >= (0.06 if ck.quick else 0.25):
            continue
        prog = parse_text(text)
        try:
            fn = exec_text(text, ACT_INT)
        except Exception as e:  # noqa: BLE001  a text that is not Python is a mismatch, not a crash
            fn = None
            ck.compare("ann_eval", f"{sd} {cd} {layers}", "compilable", f"exec failed: {e!r}")
        big = pd > 150 or len(layers) > 4
        for k in range(1 if big else 3):
            lim = 1 if big else rng.choice([1, 3, 9])
            theta = rand_ints(rng, pd, lim)
            s = rand_ints(rng, sd, rng.choice([1, 4, 9])) if k else [rng.randint(1, 9) for _ in range(sd)]
            out0 = [rng.randint(-99, 99) for _ in range(cd)]
            tail = f"{ints(layers)} ; {ints(theta)} ; {ints(s)} ; {ints(out0)}"
            res = "OOB"
            if fn is not None:
                st, th, out = list(s), list(theta), list(out0)
                try:
                    fn(st, 0.0, th, out)
                    res = ",".join(map(str, out))
                except (IndexError, NameError):
                    res = "OOB"
                ck.spec(st == s and th == theta, "ann_inputs_modified",
                        "generated controller modified state or params", {"arch": [sd, cd, layers]})
            line = f"annrun {sd} {cd} ; {tail}"
            ops.append(line)
            ctx.append(("eval", stream, res, {"sd": sd, "cd": cd, "layers": layers, "params": theta,
                                              "state": s, "text": text}))
            ck.case(line)
            n_eval += 1
            if prog is not None and k == 0:
                ops.append(f"prog {sd} {cd} {pd} ; {ints(layers)} ; {prog} ; {ints(theta)} ; {ints(s)} ; {ints(out0)}")
                ctx.append(("prog", stream, res, {"sd": sd, "cd": cd, "layers": layers, "pd": pd}))
            elif prog is None and k == 0:
                ck.compare("ann_prog", f"{sd} {cd} {layers}", "text of the generated shape", "unparsable text")
    ck.count("eval_cases", n_eval)

    # wrong-length inputs: the model must say OOB where Python raises IndexError
    for sd, cd, layers in [(2, 1, [2]), (3, 2, [2, 2])]:
        pd = param_count(sd, cd, layers)
        with _Capture(compile_=False) as cap:
            _, text = cap.make(sd, cd, layers)
        fn = exec_text(text, ACT_INT)
        for dth, ds, do in [(-1, 0, 0), (0, -1, 0), (0, 0, -1), (1, 1, 1)]:
            theta, s, out0 = [1] * (pd + dth), [2] * (sd + ds), [7] * (cd + do)
            out = list(out0)
            try:
                fn(list(s), 0.0, list(theta), out)
                res = ",".join(map(str, out))
            except IndexError:
                res = "OOB"
            ops.append(f"annrun {sd} {cd} ; {ints(layers)} ; {ints(theta)} ; {ints(s)} ; {ints(out0)}")
            ctx.append(("eval_len", "lengths", res, None))
            ck.count("eval_wrong_length")

    outs = ck.model(ops, drv=DRV)
    for line, (kind, stream, impl, c), mo in zip(ops, ctx, outs):
        if kind == "text":
            ck.compare(f"ann_text_{stream}", line, mo, impl)
        elif kind in ("eval", "eval_len"):
            d = kv(mo)
            ck.compare("ann_eval", line, d.get("val", mo), impl)
            if kind == "eval":
                ck.spec(d.get("spec") == impl, "ann_layered",
                        "generated ANN controller differs from the network evaluated layer by layer "
                        f"(impl {impl[:80]} spec {str(d.get('spec'))[:80]})", c)
        elif kind == "prog":
            d = kv(mo)
            ck.compare("ann_prog_same", line[:200], d.get("same", mo), "true")
            ck.spec(d.get("once") == "true", "ann_param_once",
                    "generated text does not use params[0..param_dims-1] exactly once in order", c)
            ck.spec(d.get("inrange") == "true", "ann_index_range",
                    "generated text has a subscript outside state/params/out", c)
            ck.spec(d.get("count") == "true", "ann_param_count",
                    "param_dims given to Controller differs from the network's parameter count", c)
            ck.spec(d.get("val") == d.get("spec") == impl, "ann_layered_prog",
                    "parsed generated program (Lean interpreter) differs from the layered network", c)


def ann_float(ck: Check) -> None:
    """the real compiled controllers against the model over Float"""
    import numpy as np
    rng = ck.rng
    bund, _ = bundled_archs()
    archs = [a for a in bund if a[0] <= 3]
    if not ck.quick:
        archs += [a for a in bund if a[0] > 3]
        archs += [(rng.randint(2, 6), rng.randint(1, 6), [rng.randint(1, 8) for _ in range(rng.randint(0, 3))])
                  for _ in range(40)]
        archs += [(2, 1, [5, 4, 3, 2, 1]), (4, 3, [8] * 6)]
    ops, ctx = [], []
    with _Capture(compile_=True) as cap:
        for sd, cd, layers in archs:
            c, text = cap.make(sd, cd, layers)
            if not _dims_ok(ck, c, sd, cd, layers, "ann_float"):
                continue   # never run a controller of other dimensions: without bounds checks it would leave the arrays
            if text is None:
                ck.compare("ann_float_pyexec", f"{sd} {cd} {layers}", "text generated", "no text generated (foreign cache?)")
                continue
            pyfn = exec_text(text, math.atan)
            ck.count("float_archs")
            for k in range(20 if ck.quick else 60):
                scale = rng.choice([64, 8, 1])
                theta = [rng.randint(-32 * scale, 32 * scale) / scale for _ in range(c.param_dims)]
                s = [rng.randint(-64, 64) / 16 for _ in range(sd)] if k else [0.0] * sd
                st, th = np.array(s), np.array(theta)
                out = np.full(cd, np.nan)
                c.controller(st, 0.0, th, out)
                ck.spec(st.tolist() == s and th.tolist() == theta, "ann_inputs_modified",
                        "compiled ANN controller modified state or params", {"arch": [sd, cd, layers]})
                pout = [0.0] * cd
                pyfn(list(s), 0.0, list(theta), pout)
                ops.append(f"annrunf {sd} {cd} ; {ints(layers)} ; {ints(map(f2b, theta))} ; {ints(map(f2b, s))}")
                ctx.append((out.tolist(), pout, {"sd": sd, "cd": cd, "layers": layers, "params": theta, "state": s}))
                ck.case(ops[-1])
    _float_compare(ck, ops, ctx)


def _dims_ok(ck: Check, c, sd, cd, layers, stream) -> bool:
    """the controller handed out for (sd, cd, layers) must BE that network: same dimensions and parameter count"""
    want = (sd, cd, param_count(sd, cd, layers))
    got = (c.state_dims, c.control_dims, c.param_dims)
    return ck.spec(got == want, "ann_dims",
                   f"make_ann({sd}, {cd}, {layers}) returned controller '{c.name}' with (state, control, param) dims {got}, "
                   f"the requested network has {want}", {"stream": stream, "sd": sd, "cd": cd, "layers": layers})


def ann_cache(ck: Check) -> None:
    """`make_ann` as a user calls it - repeatedly, in one process, WITHOUT this harness clearing its cache: requests that
    share some but not all of (state_dims, control_dims, layers) must each get their own network, and a repeated
    request an equivalent one.  (The other streams delete the cache entry to see the generated text.)"""
    import numpy as np
    from moptipyapps.dynamic_control.controllers.ann import make_ann
    rng = ck.rng
    base = [(2, 1, [2]), (2, 2, [2]), (3, 2, [2]), (2, 2, [3]), (2, 2, [2, 2]), (2, 2, []), (2, 1, []), (3, 1, []),
            (4, 1, [1]), (4, 2, [1]), (2, 2, [2]), (2, 1, [2]), (3, 1, [2, 1]), (3, 1, [1, 2]), (3, 3, [1, 2])]
    if not ck.quick:
        base += [(rng.randint(2, 4), rng.randint(1, 4), [rng.randint(1, 3) for _ in range(rng.randint(0, 2))])
                 for _ in range(40)]
    order = list(base)
    rng.shuffle(order)
    ops, ctx = [], []
    for sd, cd, layers in base + order:     # fixed order first (replayable by reading), then a shuffled second pass
        try:
            c = make_ann(sd, cd, list(layers))
        except ValueError as e:
            ck.spec(False, "ann_cache_rejected", f"make_ann({sd}, {cd}, {layers}) raised {e!r}", {"arch": [sd, cd, layers]})
            continue
        ck.count("cache_requests")
        if not _dims_ok(ck, c, sd, cd, layers, "ann_cache"):
            continue
        for k in range(4):
            theta = [rng.randint(-64, 64) / 8 for _ in range(c.param_dims)]
            s = [rng.randint(-64, 64) / 16 for _ in range(sd)]
            st, th = np.array(s), np.array(theta)
            out = np.full(cd, np.nan)
            c.controller(st, 0.0, th, out)
            ops.append(f"annrunf {sd} {cd} ; {ints(layers)} ; {ints(map(f2b, theta))} ; {ints(map(f2b, s))}")
            ctx.append((out.tolist(), None, {"sd": sd, "cd": cd, "layers": layers, "params": theta, "state": s,
                                             "stream": "ann_cache"}))
            ck.case(ops[-1])
    _float_compare(ck, ops, ctx)


def _float_compare(ck: Check, ops, ctx) -> None:
    outs = ck.model(ops, drv=DRV)

    def close(a, b):
        return len(a) == len(b) and all(
            math.isfinite(x) and abs(x - y) <= 1e-9 * (1 + abs(y)) for x, y in zip(a, b))
    for line, (impl, pout, c), mo in zip(ops, ctx, outs):
        d = kv(mo)
        try:
            val = [b2f(int(t)) for t in d["val"].split(",")]
            spec = [b2f(int(t)) for t in d["spec"].split(",")]
        except (KeyError, ValueError):
            ck.compare("ann_float", line[:300], mo, "val=… spec=…")
            continue
        ck.compare("ann_float", line[:300], "close" if close(impl, val) else f"model {val}", "close"
                   if close(impl, val) else f"impl {impl}")
        if pout is not None:
            ck.compare("ann_float_pyexec", line[:300], "close" if close(impl, pout) else f"exec {pout}",
                       "close" if close(impl, pout) else f"impl {impl}")
        ck.spec(close(impl, spec), "ann_layered_float",
                f"compiled ANN controller {impl} differs from the layered network {spec} (tol 1e-9)", c)


# --------------------------------------------------------------------------- min_ann
EXPECTED_LITERALS = sorted([0.0, -1000.0, -990.0, 1000.0, 10.0, 1e-12])


class _FloatToFraction(ast.NodeTransformer):
    def __init__(self):
        self.lits: list[float] = []

    def visit_UnaryOp(self, node):
        if isinstance(node.op, ast.USub) and isinstance(node.operand, ast.Constant) \
                and isinstance(node.operand.value, float):
            self.lits.append(-node.operand.value)
            return ast.copy_location(ast.Call(func=ast.Name("__F", ast.Load()),
                                              args=[ast.Constant(-node.operand.value)], keywords=[]), node)
        return self.generic_visit(node)

    def visit_Constant(self, node):
        if isinstance(node.value, float):
            self.lits.append(node.value)
            return ast.copy_location(ast.Call(func=ast.Name("__F", ast.Load()),
                                              args=[ast.Constant(node.value)], keywords=[]), node)
        return node


def minann_sources():
    """name -> (FunctionDef with Fraction literals, sorted list of distinct float literals)"""
    src = (REPO / "moptipyapps/dynamic_control/controllers/min_ann.py").read_text()
    res = {}
    for node in ast.parse(src).body:
        if isinstance(node, ast.FunctionDef) and node.name.startswith("__min_ann_"):
            node.decorator_list = []
            tr = _FloatToFraction()
            node = ast.fix_missing_locations(tr.visit(node))
            res[node.name] = (node, sorted(set(tr.lits)))
    return res


def act_sig(x):
    return x / (1 + abs(x))


def act_tri(x):
    return abs(x - 4 * math.floor((x + 2) / 4)) - 1


def act_cub(x):
    return x * x * x - 300 * x


ACTS = {"sig": act_sig, "tri": act_tri, "cub": act_cub}


def build_fraction_kernel(fdef, act, eps, phi):
    import numpy as np

    class NP:  # pylint: disable=R0903
        ndarray = np.ndarray
    NP.arctan = staticmethod(act)
    NP.nextafter = staticmethod(lambda x, d: x + eps if d > 0 else x - eps)
    from typing import Final
    ns = {"np": NP, "inf": math.inf, "PHI": phi, "Final": Final, "__F": Fraction}
    mod = ast.Module(body=[fdef], type_ignores=[])
    exec(compile(mod, "<min_ann.py with Fraction literals>", "exec"), ns)  # noqa: S102  # nosec
    return ns[fdef.name]


def frs(xs) -> str:
    return " ".join(f"{Fraction(x).numerator}/{Fraction(x).denominator}" for x in xs)


def min_controllers():
    from moptipyapps.dynamic_control.controllers.min_ann import min_anns
    _, systems = bundled_archs()
    res = []
    for key in ("sl", "lorenz"):
        for c in min_anns(systems[key]):
            res.append((int(c.name.rsplit("_", 1)[1]), c.state_dims, c))
    return res


def rand_fracs(rng, n, kind):
    if kind == "small":
        return [Fraction(rng.randint(-16, 16), 8) for _ in range(n)]
    if kind == "tiny":
        return [Fraction(rng.randint(-8, 8), 64) for _ in range(n)]
    return [Fraction(rng.randint(-32 * 8, 32 * 8), 8) for _ in range(n)]


def min_exact(ck: Check) -> None:
    import numpy as np
    rng = ck.rng
    srcs = minann_sources()
    ctrls = min_controllers()
    from moptipyapps.dynamic_control.controllers import min_ann as mod
    ck.compare("minann_consts", "PHI", repr(0.5 * (math.sqrt(5.0) + 1.0)), repr(float(mod.PHI)))
    ops, ctx = [], []
    tol = Fraction(1e-12)
    for n, sd, c in ctrls:
        fname = c.controller.py_func.__name__
        pd = c.param_dims
        ck.compare("minann_dims", f"{fname}", f"n={n} sd={sd} pd={(sd + 1) if n == 1 else n * (sd + 3)} cd=1",
                   f"n={n} sd={c.state_dims} pd={pd} cd={c.control_dims}")
        if fname not in srcs:
            ck.compare("minann_source", fname, "kernel found in min_ann.py", "missing")
            continue
        fdef, lits = srcs[fname]
        ck.compare("minann_literals", fname, repr(EXPECTED_LITERALS), repr(lits))
        plan = [("sig", 8), ("cub", 5), ("tri", 2)] if ck.quick else [("sig", 80), ("cub", 50), ("tri", 12)]
        for act, reps in plan:
            for _ in range(reps):
                eps = rng.choice([Fraction(0), Fraction(1, 2 ** 40), Fraction(1, 2 ** 20)])
                phi = rng.choice([Fraction(809, 500), Fraction(float(mod.PHI)), Fraction(3, 2)])
                kern = build_fraction_kernel(fdef, ACTS[act], eps, phi)
                kind = rng.choice(["small", "tiny", "full"] if act != "tri" else ["tiny", "small"])
                state = [Fraction(rng.randint(-12, 12), 4) for _ in range(sd)]
                params = rand_fracs(rng, pd, kind)
                if n > 1 and rng.random() < 0.6:   # put the features of f inside the interval
                    for j in range(n):
                        params[j * (sd + 2) + sd] = Fraction(rng.choice([-1, 1]) * rng.randint(1, 64), 256)
                        params[j * (sd + 2) + sd + 1] = Fraction(rng.randint(-256, 256), 8)
                        params[n * (sd + 2) + j] = Fraction(rng.randint(-64, 64), 4)
                st, pa = np.array(state, dtype=object), np.array(params, dtype=object)
                out = np.array([None], dtype=object)
                kern(st, 0.0, pa, out)
                x = Fraction(out[0])
                line = f"minann {n} {act} ; {frs(state)} ; {frs(params)} ; {frs([eps, tol, phi])} ; 400"
                ops.append(line)
                ctx.append((f"{x.numerator}/{x.denominator}", x, fname))
                ck.case(line)
                ck.count(f"min_exact_{act}")
                ck.spec(st.tolist() == state and pa.tolist() == params, "minann_inputs_modified",
                        "min_ann kernel modified state or params", {"kernel": fname})
    outs = ck.model(ops, drv=DRV)
    for line, (impl, x, fname), mo in zip(ops, ctx, outs):
        d = kv(mo)
        ck.compare("min_exact", line[:400], d.get("x", mo), impl)
        ck.compare("min_exact_modelspec", line[:400], d.get("in", mo), "true")
        ck.spec(-1000 <= x <= 1000, "minann_interval",
                f"{fname} over exact rationals returned {float(x)} outside [-1000, 1000]", {"op": line[:400]})
        ck.count(f"min_exact_evals_{'>=1000' if int(d.get('n', 0)) >= 1000 else '<1000'}")
        ck.count("min_exact_interior" if abs(x) < 1000 and x != 0 else "min_exact_edge_or_zero")


def py_objective(n, sd, state, params):
    """the objective of the kernels, re-stated (docstrings of min_ann.py): one hidden layer of n
    arctan nodes over (state, z) — with bias and output weights unless n = 1"""
    if n == 1:
        a = sum(state[i] * params[i] for i in range(sd))
        return lambda z: math.atan(a + params[sd] * z)
    nodes = []
    for j in range(n):
        o = j * (sd + 2)
        nodes.append((sum(state[i] * params[o + i] for i in range(sd)), params[o + sd], params[o + sd + 1],
                      params[n * (sd + 2) + j]))
    return lambda z: sum(math.atan(a + w * z + b) * ow for a, w, b, ow in nodes)


def min_real(ck: Check) -> None:
    import numpy as np
    rng = ck.rng
    grid = [0.0, -1000.0] + [-990.0 + 10.0 * k for k in range(200)]
    ops, ctx = [], []
    for n, sd, c in min_controllers():
        pd = c.param_dims
        for k in range(120 if ck.quick else 2500):
            mode = rng.choice(["full", "small", "grid", "shaped", "shaped", "shaped"]) if k else "zero"
            if mode == "shaped" and n > 1:   # z-weights that put the features of f inside the interval
                params = [rng.uniform(-2, 2) for _ in range(pd)]
                for j in range(n):
                    params[j * (sd + 2) + sd] = rng.choice([-1, 1]) * 10 ** rng.uniform(-2.7, -0.3)
                    params[j * (sd + 2) + sd + 1] = rng.uniform(-32, 32)
                    params[n * (sd + 2) + j] = rng.uniform(-32, 32)
            elif mode == "full" or mode == "shaped":
                params = [rng.uniform(-32, 32) for _ in range(pd)]
            elif mode == "small":
                params = [rng.uniform(-1, 1) * rng.choice([1, 0.1, 0.01]) for _ in range(pd)]
            elif mode == "grid":
                params = [rng.randint(-32 * 16, 32 * 16) / 16 for _ in range(pd)]
            else:
                params = [0.0] * pd
            state = [rng.uniform(-6, 6) for _ in range(sd)] if k > 1 else [0.0] * sd
            st, pa = np.array(state), np.array(params)
            out = np.full(1, np.nan)
            try:
                c.controller(st, 0.0, pa, out)
            except IndexError as e:   # only possible under NUMBA_BOUNDSCHECK=1 (the C13 re-run of this stream)
                ck.spec(False, "minann_oob", f"IndexError in {c.name}/{sd}d (param_dims={pd}): {e}",
                        {"controller": c.name, "sd": sd, "state": state, "params": params})
                break
            x = float(out[0])
            case = {"controller": c.name, "sd": sd, "state": state, "params": params, "result": x}
            ck.count(f"min_real_{mode}")
            ck.spec(math.isfinite(x) and -1000.0 <= x <= 1000.0, "minann_interval",
                    f"{c.name}/{sd}d returned {x}, not a finite value inside [-1000, 1000]", case)
            ck.spec(st.tolist() == state and pa.tolist() == params, "minann_inputs_modified",
                    "min_ann kernel modified state or params", case)
            f = py_objective(n, sd, state, params)
            if math.isfinite(x):
                fx = f(x)
                best = min(f(g) for g in grid)
                ck.spec(fx <= best + 1e-9, "minann_best_of_grid",
                        f"{c.name}/{sd}d returned z={x} with value {fx}, worse than a grid point ({best})", case)
                ck.count("min_real_interior" if abs(x) < 1000 and x != 0.0 else "min_real_edge_or_zero")
            ops.append(f"minannf {n} ; {ints(map(f2b, state))} ; {ints(map(f2b, params))} ; 100000")
            ctx.append((x, f, case))
            ck.case(ops[-1])
    outs = ck.model(ops, drv=DRV)
    same = tie = 0
    for line, (x, f, case), mo in zip(ops, ctx, outs):
        d = kv(mo)
        if "x" not in d:
            ck.compare("min_real_model", line[:300], mo, "x=…")
            continue
        xm = b2f(int(d["x"]))
        if f2b(xm) == f2b(x):
            same += 1
            ck.compare("min_real_model", line[:300], "agree", "agree")
        elif math.isfinite(x) and abs(f(xm) - f(x)) <= 1e-9:
            tie += 1   # different libm/fastmath rounding chose another point of (numerically) equal value
            ck.compare("min_real_model", line[:300], "agree", "agree")
        else:
            ck.compare("min_real_model", line[:300], f"x={xm} f={f(xm)}", f"x={x} f={f(x) if math.isfinite(x) else x}")
    ck.count("min_real_model_same_bits", same)
    ck.count("min_real_model_equal_value", tie)


# --------------------------------------------------------------------------- entry points
def streams(ck: Check) -> None:
    ann_streams(ck)
    ann_float(ck)
    ann_cache(ck)
    min_real(ck)
    min_exact(ck)


def check(ck: Check) -> None:
    ck.rule = (ck.rule + " | " if ck.rule else "") + RULE
    ck.assumptions += ASSUMPTIONS
    ck.not_proved += NOT_PROVED
    saved = (ck.drv, ck.drv_root)
    ck.drv, ck.drv_root = DRV, "Driver.C16AnnMain"
    try:
        ck.lean(MODULES, THEOREMS)
    finally:
        ck.drv, ck.drv_root = saved
    streams(ck)
