"""C20 — one-dimensional ordering instances encode neighbour ranks faithfully; swap distance (DESIGN.md section 6)."""
from __future__ import annotations

import itertools
import math
import os

from . import common
from .common import Check, cmat, fmt_ints, fmt_matrix, kv

THEOREMS = [
    "Order1d.dedupe_total", "Order1d.dedupe_representatives", "Order1d.dedupe_matrix",
    "Order1d.distances_abs", "Order1d.flows_diag_zero", "Order1d.flows_beyond_horizon_zero",
    "Order1d.flows_equal_on_ties", "Order1d.flows_antitone", "Order1d.flows_inside_positive",
    "Order1d.flows_strict_inside", "Order1d.fromSequence_spec", "Order1d.fromSequence_total",
    "Order1d.swapDistance_noOOB", "Order1d.swapDistance_eq_n_minus_cycles",
    "Order1d.swapDistance_upper", "Order1d.swapDistance_lower",
    "Order1d.swapDistance_is_min_transpositions", "Order1d.swapDistance_symm",
    "Order1d.swapDistance_zero_iff",
]

NOT_PROVED: list[str] = []


# --------------------------------------------------------------------------- objects and distances
class Obj:
    """an object of the sequence: remembers its original index so that tags reveal the mapping"""

    __slots__ = ("idx", "val")

    def __init__(self, idx, val):
        self.idx, self.val = idx, val


def _tag(o):
    return str(o.idx)


def dense_int_matrix(vals):
    """order-isomorphic integer image of a matrix of exactly compared numbers (0 stays 0)"""
    uniq = sorted({v for row in vals for v in row} | {0})
    neg = [u for u in uniq if u < 0]
    rank = {u: (i - len(neg)) for i, u in enumerate(uniq)}
    return [[rank[v] for v in row] for row in vals]


def d_abs(a, b):
    return abs(a.val - b.val)


def d_abs1(a, b):
    return abs(abs(a.val) - abs(b.val)) + 1


def d_sq(a, b):                       # not a metric (no triangle inequality)
    return (a.val - b.val) ** 2


def d_coarse(a, b):                   # "zero" is not transitive: |a-b| <= 1 counts as equal
    d = abs(a.val - b.val)
    return 0 if d <= 1 else d


def d_mod(a, b):                      # asymmetric, many ties
    return (a.val - b.val) % 4


def d_half(a, b):                     # float distances, exact in binary
    return abs(a.val - b.val) / 2


def d_sqrt(a, b):                     # float distances, inexact
    return math.sqrt(abs(a.val - b.val))


def d_discrete(a, b):
    return 0 if a.val == b.val else 1


DISTS = [("abs", d_abs), ("abs1", d_abs1), ("sq", d_sq), ("coarse", d_coarse), ("mod", d_mod),
         ("half", d_half), ("sqrt", d_sqrt), ("discrete", d_discrete)]


def matrix_dist(M):
    def f(a, b):
        return M[a.idx][b.idx]
    return f


def full_matrix(objs, fn):
    return [[fn(a, b) for b in objs] for a in objs]


# --------------------------------------------------------------------------- implementation adapters
def impl_from_sequence(objs, fn, p, h):
    from moptipyapps.order1d.instance import Instance
    try:
        inst = Instance.from_sequence_and_distance(list(objs), fn, p, h, ("t",), _tag)
    except (ValueError, OverflowError, TypeError):
        return None, "ERR"
    except IndexError:
        return None, "OOB"
    maps = ",".join(f"{t[0]}:{k}" for t, k in inst.tags)
    return inst, (f"n={inst.n} hor={inst.horizon} dist={cmat(inst.distances.tolist())} "
                  f"flows={cmat(inst.flows.tolist())} maps={maps}")


def impl_ctor(D, p, h):
    import numpy as np
    from moptipyapps.order1d.instance import Instance
    n = len(D)
    try:
        a = np.array(D)
        if a.ndim == 2 and a.size and a.dtype.kind in "iuf":     # same values in Fortran order / as a transposed view, by turns
            k = (int(abs(a).sum()) + n) % 3
            a = np.asfortranarray(a) if k == 1 else (a.T.copy().T if k == 2 else a)
        inst = Instance(a, p, h, ("t",), [((str(i),), i) for i in range(n)])
    except (ValueError, OverflowError, TypeError):
        return None, "ERR"
    except IndexError:
        return None, "OOB"
    return inst, (f"n={inst.n} hor={inst.horizon} dist={cmat(inst.distances.tolist())} "
                  f"flows={cmat(inst.flows.tolist())}")


def sel(mout: str, keys) -> str:
    """the observable part of a model output line"""
    d = kv(mout)
    if "n" not in d:
        return mout
    return " ".join(f"{k}={d.get(k, '')}" for k in keys)


def safe_power(rng, n, h, quick):
    """integer power whose largest possible flow stays exactly representable in a float"""
    base = 2 * max(1, min(n - 1, h)) + 2
    pmax = 1
    while pmax < 99 and base ** (pmax + 1) < 2 ** 53:
        pmax += 1
    if rng.random() < 0.8:
        return min(pmax, rng.randint(1, 4))
    return rng.randint(1, pmax)


# --------------------------------------------------------------------------- instance streams
def gen_sequences(ck: Check):
    """yield (stream, objs, distance function, matrix for the model)"""
    rng = ck.rng
    quick = ck.quick
    # (2) exhaustive small scope: every upper triangle over {0,1,2} for N = 2, 3 (and 4 in thorough; sample in quick);
    # the lower triangle holds values the code must never look at
    for N in (0, 1, 2, 3, 4):
        pairs = [(a, b) for a in range(N) for b in range(a + 1, N)]
        combos = list(itertools.product(range(3), repeat=len(pairs)))
        if N == 4 and quick:
            combos = rng.sample(combos, 300)
        for c in combos:
            M = [[0] * N for _ in range(N)]
            for (a, b), v in zip(pairs, c):
                M[a][b] = v
                M[b][a] = rng.randint(0, 5)
            objs = [Obj(i, i) for i in range(N)]
            yield f"exh{N}", objs, matrix_dist(M), M
    if not quick:
        N = 5
        pairs = [(a, b) for a in range(N) for b in range(a + 1, N)]
        for c in itertools.product(range(2), repeat=len(pairs)):
            M = [[0] * N for _ in range(N)]
            for (a, b), v in zip(pairs, c):
                M[a][b] = v * (1 + (a + b) % 2)
                M[b][a] = 7
            yield "exh5", [Obj(i, i) for i in range(N)], matrix_dist(M), M
    # (4) boundary: all equal, all different, one far outlier, duplicates of the first / last object
    for vals in ([5] * 4, [1, 2, 3, 4, 5], [1, 2, 3, 1000], [7, 1, 7, 2, 7], [1, 2, 3, 3], [3, 3, 1, 2], [0, 0], [9],
                 [1, 2, 2, 1, 2, 1], [4, 1, 4, 1, 4, 1, 5], [-3, 3, 0, -3, 3]):
        objs = [Obj(i, v) for i, v in enumerate(vals)]
        for nm, fn in DISTS:
            yield f"bnd_{nm}", objs, fn, None
    # (3) structured random: value sequences with duplicates and ties under the named distance functions
    for _ in range(500 if quick else 2500):
        N = rng.choice([2, 3, 4, 5, 6, 8, 12] if quick else [2, 3, 4, 5, 6, 8, 12, 20, 40])
        spread = rng.choice([2, 3, N, 2 * N, 10 * N])
        vals = [rng.randint(-spread, spread) if rng.random() < 0.3 else rng.randint(0, spread) for _ in range(N)]
        nm, fn = rng.choice(DISTS)
        yield f"rnd_{nm}", [Obj(i, v) for i, v in enumerate(vals)], fn, None
    # random matrices: asymmetric, not metric, many zeros and ties
    for _ in range(500 if quick else 2500):
        N = rng.choice([2, 3, 4, 5, 6, 9] if quick else [2, 3, 4, 5, 6, 9, 15, 30])
        hi = rng.choice([1, 2, 3, N, 100, 10 ** 6, 2 ** 62])
        zf = rng.choice([0.0, 0.1, 0.3])
        M = [[0 if (a == b or rng.random() < zf) else rng.randint(0 if hi < 4 else 1, hi) for b in range(N)] for a in range(N)]
        yield "rnd_matrix", [Obj(i, i) for i in range(N)], matrix_dist(M), M


def add_seq(ck: Check, ops, meta, stream, objs, fn, M, p, h, pmodel=None, expect_ok=False):
    """one call of from_sequence_and_distance: correspondence line + the property's clauses on the result"""
    N = len(objs)
    if M is None:
        M = full_matrix(objs, fn)
    Mi = M if all(isinstance(v, int) and not isinstance(v, bool) for r in M for v in r) else dense_int_matrix(M)
    inst, iout = impl_from_sequence(objs, fn, p, h)
    ck.count(stream)
    ck.count("seq_ok" if inst is not None else "seq_" + iout)
    # everything needed to re-run the case (`./check C20 --replay`): the order-isomorphic integer distance table
    ctx = {"kind": "seq", "stream": stream, "values": [o.val for o in objs], "M": Mi, "p": p, "h": h,
           "expect_ok": expect_ok}
    if expect_ok:
        # C: totality (theorem dedupe_total + constructor guards): valid parameters and distances must yield an instance
        ck.spec(inst is not None, "total", f"no instance is derived ({iout}) although every distance is a valid "
                "finite non-negative number and flow power / horizon are in range", ctx)
    if pmodel is not None or isinstance(p, int):
        line = f"o1I {p if pmodel is None else pmodel} {h} ; {fmt_matrix(Mi)}"
        ops.append(line)
        meta.append(("o1I", stream, iout, None))
        ck.case(line, nontrivial=inst is not None)
    else:
        ck.count("float_power")
    if inst is None:
        return
    n = inst.n
    if n < N:
        ck.count("purged")
    # ---- C: de-duplication clause on the implementation's tags
    objs_l = [int(t[0]) for t, _ in inst.tags]
    reps_l = [int(k) for _, k in inst.tags]
    kept = []
    for r in range(n):
        grp = [o for o, k in zip(objs_l, reps_l) if k == r]
        kept.append(min(grp) if grp else 10 ** 9)
    line = f"o1D {fmt_matrix(Mi)} ; {fmt_ints(kept)} ; {fmt_ints(objs_l)} ; {fmt_ints(reps_l)}"
    ops.append(line)
    meta.append(("o1D", stream, None, dict(ctx, tags=list(zip(objs_l, reps_l)))))
    # ---- C: flow clauses on the implementation's matrices; D = distances of the kept objects, earlier object first
    if all(k < N for k in kept):
        D = [[0 if a == b else (Mi[kept[a]][kept[b]] if kept[a] < kept[b] else Mi[kept[b]][kept[a]])
              for b in range(n)] for a in range(n)]
        strict = 1 if (isinstance(p, int) or pmodel is not None) else 0
        line = (f"o1C {h} {strict} ; {fmt_matrix(D)} ; {fmt_matrix(inst.distances.tolist())} ; "
                f"{fmt_matrix(inst.flows.tolist())}")
        ops.append(line)
        meta.append(("o1C", stream, None, dict(ctx, D=D if n <= 12 else f"<{n}>",
                                               flows=inst.flows.tolist() if n <= 12 else f"<{n}>")))
        ck.count("dbl_path" if _has_fractional(D, h) else "plain_path")


def add_ctor(ck: Check, ops, meta, D, p, h):
    """the constructor alone on an arbitrary matrix"""
    n, m = len(D), len(D[0])
    inst, iout = impl_ctor(D, p, h)
    line = f"o1K {p} {h} ; {fmt_matrix(D)}"
    ops.append(line)
    meta.append(("o1K", "ctor" if m == n else "ctor_nonsquare", iout, None))
    ck.count("ctor" if m == n else "ctor_nonsquare")
    if any(len(r) != m for r in D):
        ck.count("ctor_ragged")
    ck.case(line, nontrivial=inst is not None)
    if inst is not None and m == n:
        line = (f"o1C {h} 1 ; {fmt_matrix(D)} ; {fmt_matrix(inst.distances.tolist())} ; "
                f"{fmt_matrix(inst.flows.tolist())}")
        ops.append(line)
        meta.append(("o1C", "ctor", None, {"kind": "ctor", "D": D, "p": p, "h": h, "flows": inst.flows.tolist()}))


def eval_instance_ops(ck: Check, ops, meta) -> None:
    outs = ck.model(ops)
    for line, (op, stream, iout, ctx), mout in zip(ops, meta, outs):
        if op == "o1I":
            ck.compare(stream, line, sel(mout, ("n", "hor", "dist", "flows", "maps")), iout)
        elif op == "o1K":
            if stream == "ctor_nonsquare" and "-" in kv(mout).get("flows", ""):
                # a wider-than-high matrix can give a negative base; the QAP super-constructor then wraps the
                # negative flow into an unsigned type -- outside the domain of the property (square matrices)
                ck.count("ctor_nonsquare_negative_flow(skipped)")
                continue
            ck.compare(stream, line, sel(mout, ("n", "hor", "dist", "flows")), iout)
        elif op == "o1D":
            ck.spec(mout == "spec=true", "dedupe", "mappings/tags violate the de-duplication clause "
                    "(every object exactly once, mapped to itself or to the first kept object at distance zero; "
                    "kept objects pairwise at positive distance): " + mout, ctx)
        elif op == "o1C":
            clause = kv(mout).get("spec", mout)
            ck.spec(clause == "ok", "flows_" + clause, f"flow/distance matrices violate clause '{clause}'", ctx)


def instance_streams(ck: Check) -> None:
    rng = ck.rng
    ops, meta = [], []
    for stream, objs, fn, M in gen_sequences(ck):
        N = len(objs)
        if stream.startswith("exh"):
            hs = range(1, N + 3)
            ps = (1, 2) if N >= 4 else (1, 2, 3, 4)
        elif stream.startswith("bnd"):
            hs = range(1, N + 3)
            ps = (1, 3)
        else:
            hs = (rng.randint(1, N + 2),)
            ps = (None,)
        for h in hs:
            for p in ps:
                if p is None:
                    p = safe_power(rng, N, h, ck.quick)
                add_seq(ck, ops, meta, stream, objs, fn, M, p, h, expect_ok=True)
        if not stream.startswith("exh") and rng.random() < 0.3:
            # float powers: outside the model, property clauses are *tested* on the implementation
            add_seq(ck, ops, meta, stream + "_fp", objs, fn, M, rng.choice([1.5, 0.5, 2.5, 1.25, 3.0]),
                    rng.randint(1, N + 2), expect_ok=True)
    # ---- parameter guards and error paths
    objs = [Obj(i, v) for i, v in enumerate([1, 2, 4, 4, 9])]
    for p in (0, -1, 1, 62, 63, 64, 99, 100, 101):
        add_seq(ck, ops, meta, "guard_p", objs, d_abs, None, p, 3)
    add_seq(ck, ops, meta, "guard_p", objs, d_abs, None, 2.0, 3, pmodel=2)
    for h in (0, -5, 1, 10 ** 12, 10 ** 12 + 1):
        add_seq(ck, ops, meta, "guard_h", objs, d_abs, None, 2, h)
    e100 = 10000000000000000159028911097599180468360808563945281389781327557747838772170381060813469985856815104
    for bad in (-1, -10 ** 30, 10 ** 101, e100 + 1, 10 ** 400):
        for pos in ((0, 1), (0, 4), (2, 3), (3, 4), (1, 0), (4, 2)):
            M = full_matrix(objs, d_abs)
            M[pos[0]][pos[1]] = bad
            add_seq(ck, ops, meta, "guard_d", [Obj(i, i) for i in range(5)], matrix_dist(M), M, 1, 3)
    # ---- the constructor alone on arbitrary matrices (zeros off the diagonal, asymmetric, not square)
    for _ in range(400 if ck.quick else 3000):
        n = rng.choice([1, 2, 3, 4, 5, 7])
        hi = rng.choice([1, 2, 3, 10])
        m = n if rng.random() < 0.9 else rng.choice([max(1, n - 1), n + 1, n + 2])
        D = [[rng.randint(0, hi) for _ in range(m)] for _ in range(n)]
        h = rng.randint(1, n + 2)
        add_ctor(ck, ops, meta, D, safe_power(rng, max(n, m), h, ck.quick), h)
    for D in ([[0, 1], [1]], [[0, 1, 2], [1, 0], [1, 2, 0]], [[0], [1, 0]]):   # ragged: np.array refuses
        add_ctor(ck, ops, meta, D, 1, 2)
    eval_instance_ops(ck, ops, meta)


def _has_fractional(D, h):
    n = len(D)
    for i in range(n):
        for j in range(n):
            if i == j:
                continue
            lt = sum(1 for v in D[i] if v < D[i][j])
            eq = sum(1 for v in D[i] if v == D[i][j])
            r2 = 2 * lt + eq - 1
            if r2 % 2 == 1 and r2 <= 2 * h:
                return True
    return False


# --------------------------------------------------------------------------- swap distance streams
_MAL_SCRIPT = r"""
import json, signal, sys
sys.path.insert(0, sys.argv[2])
import numpy as np
from moptipyapps.order1d.distances import swap_distance
bounds = sys.argv[3] == "1"
f = swap_distance if bounds else swap_distance.py_func
class Timeout(Exception):
    pass
def _alarm(*_):
    raise Timeout()
signal.signal(signal.SIGALRM, _alarm)
f(np.array([0, 1], dtype=np.int64), np.array([1, 0], dtype=np.int64))   # compile outside the timed region
out = []
for _, p1, p2 in json.load(open(sys.argv[1])):
    try:
        signal.setitimer(signal.ITIMER_REAL, 10.0)   # interrupts the plain-Python kernel only
        out.append(str(int(f(np.array(p1, dtype=np.int64), np.array(p2, dtype=np.int64)))))
    except IndexError:
        out.append("OOB")
    except Timeout:
        out.append("DIVERGE")
    finally:
        signal.setitimer(signal.ITIMER_REAL, 0)
print(json.dumps(out))
"""


def run_malformed(ck: Check, cases, bounds: bool):
    """Run the implementation on malformed arrays in a child process (a kernel that never returns
    -- possible only for changed code, the model excludes it for the modelled code -- cannot
    hang the check): plain Python kernel (stray indices raise IndexError) unless numba checks bounds."""
    import json
    import subprocess
    import sys
    from .common import REPO, WORK
    f = ck.work / "malformed.json"
    f.write_text(json.dumps(cases))
    env = dict(os.environ)
    if bounds:
        # numba's on-disk cache does not distinguish NUMBA_BOUNDSCHECK settings: a kernel cached without
        # checks would be loaded and read foreign memory, so the checked build gets a cache of its own
        env["NUMBA_CACHE_DIR"] = str(WORK / "numba-c20-boundscheck")
    try:
        p = subprocess.run([sys.executable, "-c", _MAL_SCRIPT, str(f), str(REPO), "1" if bounds else "0"],
                           capture_output=True, text=True, timeout=240, env=env, check=False)
        out = json.loads(p.stdout.strip().splitlines()[-1])
        if len(out) == len(cases):
            return out
    except subprocess.TimeoutExpired:
        return ["DIVERGE(timeout)"] * len(cases)
    except (ValueError, IndexError):
        pass
    return ["<child failed>"] * len(cases)


def swap_streams(ck: Check) -> None:
    import numpy as np
    from moptipyapps.order1d.distances import swap_distance
    rng = ck.rng
    quick = ck.quick
    bounds = os.environ.get("NUMBA_BOUNDSCHECK", "0") == "1"

    def call(f, p1, p2):
        try:
            return str(int(f(np.array(p1, dtype=np.int64), np.array(p2, dtype=np.int64))))
        except IndexError:
            return "OOB"

    # ---- does the compiled kernel return at all?  (its inner loop is a `while`: a changed kernel can cycle for ever, and
    # compiled code cannot be interrupted from Python.)  A sample of VALID pairs first runs in a forked child that
    # announces each pair; if the child does not finish, the pair in flight is the failing input and the in-process
    # streams below are not attempted.
    from .common import run_in_child
    canary = [(list(a), list(b)) for n in range(0, 5) for a in itertools.permutations(range(n))
              for b in itertools.permutations(range(n))]
    for n in (5, 6, 7, 9, 16, 33, 128, 200):
        for _ in range(6):
            a, b = list(range(n)), list(range(n))
            rng.shuffle(a)
            rng.shuffle(b)
            canary.append((a, b))
        canary.append((list(range(n)), list(range(1, n)) + [0]))     # one n-cycle

    def _canary():
        for a, b in canary:
            ck.in_flight({"kind": "swap", "p1": a, "p2": b})
            swap_distance(np.array(a, dtype=np.int64), np.array(b, dtype=np.int64))
        return len(canary)
    done, _ = run_in_child(_canary, 180 if quick else 600)
    ck.count("swap_canary_pairs", len(canary))
    if not done:
        ck.spec(False, "swap_does_not_return", "swap_distance did not return on a pair of permutations (child process killed "
                "after its time limit; the model's walk ends after at most n steps on every permutation)", ck.read_in_flight())
        return
    # ---- malformed stream first: the implementation is only run where the model does not diverge, and
    # (unless numba checks bounds) as plain Python, so that a stray index raises instead of reading foreign memory
    mal = []
    for _ in range(800 if quick else 4000):
        n = rng.randint(1, 6)
        p1 = list(range(n))
        rng.shuffle(p1)
        if rng.random() < 0.3:
            off = rng.randint(-5, 5)
            p1 = [3 * v + off for v in p1]         # pairwise different, but not 0..n-1
        kind = rng.choice(["short", "long", "range", "neg", "dup", "ok"])
        p2 = list(range(n))
        rng.shuffle(p2)
        if kind == "short":
            p2 = p2[:rng.randint(0, n - 1)]
        elif kind == "long":
            p2 = p2 + [rng.randint(0, n)]
        elif kind == "range":
            p2[rng.randrange(n)] = rng.choice([n, n + 1, -n - 1, 10 ** 6])
        elif kind == "neg":
            k = rng.randrange(n)
            p2[k] = p2[k] - n
        elif kind == "dup":
            p2[rng.randrange(n)] = rng.randrange(n)
        mal.append((kind, p1, p2))
    lines = [f"o1S {fmt_ints(p1)} ; {fmt_ints(p2)}" for _, p1, p2 in mal]
    outs = ck.model(lines)
    todo = [(k, p1, p2) for (k, p1, p2), mout in zip(mal, outs) if mout != "DIVERGE"]
    impl_out = run_malformed(ck, todo, bounds)
    it = iter(impl_out)
    for (kind, p1, p2), line, mout in zip(mal, lines, outs):
        ck.count("swap_mal_" + kind)
        ck.case(line, nontrivial=False)
        if mout == "DIVERGE":
            ck.count("swap_model_diverge(not run)")
            continue
        if mout == "OOB":
            ck.count("swap_model_oob")
        ck.compare("swap_malformed", line, kv(mout).get("val", mout), next(it))

    ops, meta = [], []
    arr = {}

    def a(p):
        t = tuple(p)
        if t not in arr:
            arr[t] = np.array(t, dtype=np.int64)
        return arr[t]

    # ---- exhaustive: all pairs of permutations up to length 5 (quick) / 6 (thorough)
    for n in range(0, 6 if quick else 7):
        perms = list(itertools.permutations(range(n)))
        sources = perms
        if quick and n == 5:
            sources = rng.sample(perms, 60)
        for p1 in sources:
            a1 = a(p1)
            s1 = fmt_ints(p1)
            for p2 in perms:
                v = int(swap_distance(a1, a(p2)))
                ops.append(f"o1S {s1} ; {fmt_ints(p2)}")
                meta.append(("pair", n, v, p1, p2))
        ck.count(f"swap_allpairs_n{n}", len(sources) * len(perms))
    # ---- minimum number of transpositions by breadth-first enumeration (Lean driver), compared with the implementation
    for n in range(1, 6 if quick else 8):
        perms = list(itertools.permutations(range(n)))
        if n <= (4 if quick else 6):
            sources = perms
        else:
            sources = [tuple(range(n))] + rng.sample(perms, 20 if quick else (200 if n == 7 else 60))
        for p1 in sources:
            a1 = a(p1)
            vals = [int(swap_distance(a1, np.array(p2, dtype=np.int64))) for p2 in perms]
            ops.append(f"o1B {fmt_ints(p1)}")
            meta.append(("bfs", n, vals, p1, None))
        ck.count(f"swap_bfs_sources_n{n}", len(sources))
    # ---- random pairs up to length 200; sometimes p1 = arbitrary pairwise different keys
    for _ in range(1500 if quick else 8000):
        n = rng.choice([1, 2, 3, 4, 5, 6, 7, 8, 9, 10, 11, 12, 16, 33, 64, 100, 127, 128, 129, 200, 256, 257])
        p1 = list(range(n))
        rng.shuffle(p1)
        p2 = list(p1)
        kind = rng.choice(["random", "few", "cycle", "same"])
        if kind == "random":
            rng.shuffle(p2)
        elif kind == "few":
            for _ in range(rng.randint(1, 5)):
                i, j = rng.randrange(n), rng.randrange(n)
                p2[i], p2[j] = p2[j], p2[i]
        elif kind == "cycle":
            k = rng.randrange(n)
            p2 = p2[k:] + p2[:k]
        # permutations arrive in the integer type of their space (int8 up to 127 elements, ...): every storage type
        dt = rng.choice([t for t, lim in ((np.int8, 127), (np.uint8, 255), (np.int16, 32767), (np.int32, 2**31 - 1),
                                          (np.int64, 2**63 - 1)) if n - 1 <= lim])
        v = int(swap_distance(np.array(p1, dtype=dt), np.array(p2, dtype=dt)))
        ops.append(f"o1S {fmt_ints(p1)} ; {fmt_ints(p2)}")
        meta.append(("pair", n, v, p1, p2))
        ck.count("swap_random_" + kind)
        ck.count("swap_dtype_" + np.dtype(dt).name)
    eval_swap_ops(ck, ops, meta)


def eval_swap_ops(ck: Check, ops, meta) -> None:
    outs = ck.model(ops)
    for line, (kind, n, v, p1, p2), mout in zip(ops, meta, outs):
        if kind == "pair":
            d = kv(mout)
            ck.case(line)
            ck.compare("swap_pairs", line, d.get("val", mout), str(v))
            # C: the value is n minus the number of cycles of p1[k] -> p2[k] (Lean specification `numCycles`)
            cyc = d.get("cyc", "na")
            ck.spec(cyc != "na" and v == n - int(cyc), "swap_cycles",
                    f"swap_distance={v} but n - cycles = {n} - {cyc}", {"kind": "swap", "p1": list(p1), "p2": list(p2)})
        else:
            perms = list(itertools.permutations(range(n)))
            bfs = kv(mout).get("bfs", "").split(",")
            ck.case(line)
            ok = len(bfs) == len(perms)
            bad = None
            if ok:
                for q, b, w in zip(perms, bfs, v):
                    if b != str(w):
                        ok, bad = False, (q, b, w)
                        break
            ck.spec(ok, "mintransp", "swap_distance differs from the minimum number of transpositions found by "
                    f"breadth-first enumeration: {bad}", {"kind": "bfs", "p1": list(p1), "p2": list(bad[0]) if bad else None,
                                                          "bfs_min": bad[1] if bad else None, "impl": bad[2] if bad else None})
            ck.extra.setdefault("exhaustive_enumeration", {})
            key = f"bfs_len{n}"
            ck.extra["exhaustive_enumeration"][key] = ck.extra["exhaustive_enumeration"].get(key, 0) + len(perms)


def streams(ck: Check) -> None:
    """Correspondence (B) and spec oracle (C) for the ordering instances and the swap-distance kernel."""
    swap_streams(ck)
    instance_streams(ck)


def replay(path: str) -> int:
    """`./check C20 --replay replays/C20-….json`: re-run the recorded failing inputs on the implementation and
    re-evaluate the property's clauses on them; exit 1 if any still fails."""
    import json
    import numpy as np
    rec = json.loads(open(path).read())
    ck = Check("C20", "quick", 0)
    ops, meta, sops, smeta = [], [], [], []
    for v in rec.get("violations", []):
        c = v.get("case") or {}
        kind = c.get("kind")
        print(f"replaying {v.get('key')}: {kind}")
        if kind == "seq":
            M = c["M"]
            add_seq(ck, ops, meta, c.get("stream", "replay"), [Obj(i, i) for i in range(len(M))], matrix_dist(M), M,
                    c["p"], c["h"], expect_ok=c.get("expect_ok", False))
        elif kind == "ctor":
            add_ctor(ck, ops, meta, c["D"], c["p"], c["h"])
        elif kind in ("swap", "bfs") and c.get("p1") is not None:
            from moptipyapps.order1d.distances import swap_distance
            p1 = c["p1"]
            if kind == "swap":
                val = int(swap_distance(np.array(p1, dtype=np.int64), np.array(c["p2"], dtype=np.int64)))
                sops.append(f"o1S {fmt_ints(p1)} ; {fmt_ints(c['p2'])}")
                smeta.append(("pair", len(p1), val, p1, c["p2"]))
            else:
                perms = list(itertools.permutations(range(len(p1))))
                vals = [int(swap_distance(np.array(p1, dtype=np.int64), np.array(q, dtype=np.int64))) for q in perms]
                sops.append(f"o1B {fmt_ints(p1)}")
                smeta.append(("bfs", len(p1), vals, p1, None))
    eval_instance_ops(ck, ops, meta)
    eval_swap_ops(ck, sops, smeta)
    for m in ck.corr_mismatch:
        print("correspondence:", m)
    for v in ck.spec_violations:
        print("VIOLATION (replayed)", v["key"], v["what"], v["case"])
    print(f"[C20 replay] spec checks={ck.spec_checked} still failing={len(ck.spec_violations)} "
          f"correspondence mismatches={len(ck.corr_mismatch)}")
    return 1 if ck.spec_violations else 0


def check(ck: Check) -> None:
    ck.rule = ("instances: exhaustive small scope (every upper-triangular distance table over {0,1,2} for N<=3, N=4 sampled "
               "(quick) / all (thorough), N=5 over {0,1,2}-patterns (thorough), each x horizons 1..N+2 x integer powers; the lower "
               "triangle holds values the code must never read) + boundary value sequences (all equal, all different, outlier, "
               "duplicates of first/last) x 8 distance functions (metric, non-metric, non-transitive zero, asymmetric, exact and "
               "inexact floats) x horizons 1..N+2 + structured random sequences and random asymmetric matrices with zeros and ties "
               "(powers with exact float results, both the doubled and the plain rank path) + parameter/distance guards + the "
               "constructor alone on arbitrary (also non-square, ragged) matrices + float powers (clauses tested on the "
               "implementation only). swap distance: malformed arrays (wrong length, out-of-range, negative, duplicate entries, "
               "non-range keys) in a child process, all pairs of permutations up to length 5 (quick: 60 sources for 5) / 6 "
               "(thorough), breadth-first minimum from every source up to length 4 (quick) / 6 (thorough) and sampled sources "
               "for length 5 / 7, random pairs of length 1..12, 16, 33, 64, 100, 200. A case is one protocol line; non-trivial = "
               "accepted instance / evaluated kernel; distinct by line hash")
    ck.assumptions += [
        "scipy.stats.rankdata(method='average') - 1, doubled, equals rank2 = 2*#{smaller} + #{equal} - 1 (external; checked "
        "through every compared flow matrix on both rank paths)",
        "distances are numbers numpy stores without loss (int64 or float64, compared exactly); integer distances of 2^63 and more "
        "become float64/object arrays and are outside the model (the guard 0 <= d <= 1e100 itself is modelled and compared)",
        "float arithmetic multiplier*(max_val-f+1)**p is exact: integer powers with (2*max_val+2)^p < 2^53 (libm pow exact on "
        "exactly representable results); between 2^53 and 2^63 the code rounds (not modelled), from 2^63 on it raises (modelled); "
        "float powers (1.5, ...) are outside the model: the property's clauses are TESTED on the implementation",
        "the QAP super-constructor stores distances and flows value for value and raises nothing for in-range values (C09)",
        "np.argsort returns the unique sorting index list for pairwise different keys; numba compiles swap_distance as written "
        "(int64 arithmetic, negative indices wrap around); a `while` walk of more than 2n steps never ends",
        "get_tags / tag checks, instance names and logging are outside the model; objects are identified by their position",
    ]
    ck.notes += [
        "minimum number of transpositions: PROVED for all lengths (swapDistance_is_min_transpositions); the breadth-first "
        "enumeration over the Cayley graph (coverage.exhaustive_enumeration) is an additional test of the implementation, "
        "labelled enumeration, not proof",
        "float flow powers: test only (spec oracle on implementation outputs; bonus clauses insidepos/strict not applied)",
    ]
    ck.not_proved += NOT_PROVED
    modules, theorems = ["Props.C20"], list(THEOREMS)
    # tie between source and model: lean/Gen/SwapDistance.lean is regenerated from the CURRENT source of swap_distance (the
    # `while` loop by fuel, np.argsort as a parameter); Props/C20Gen.lean proves it equal to the hand-written model
    try:
        from .translate import loop2lean
        ck.gen_begin()   # released at the end of ck.lean
        loop2lean.emit_swap_distance(common.REPO, common.LEAN)
        modules.append("Props.C20Gen")
        theorems += ["C20Gen.swap_distance_eq_model", "C20Gen.swap_distance_fuel_ge", "C20Gen.swap_distance_perm"]
    except Exception as e:  # noqa: BLE001 - source outside the translatable subset: the obligation cannot be regenerated
        ck.proof_failures.append(f"translator loop2lean: swap_distance is not translatable, the theorems C20Gen.swap_distance_* "
                                 f"could not be re-checked against the source: {e!r}")
    ck.lean(modules, theorems)
    streams(ck)
