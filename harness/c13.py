"""C13 — compiled kernels never access memory outside their arrays (DESIGN.md section 6).

(A) the `noOOB` theorems of every modelled kernel (valid input => the checked model returns `some`),
(B/C) every other property's correspondence + spec streams re-run in separate processes with numba's global
bounds checking enabled (NUMBA_BOUNDSCHECK=1, own cache dir): an IndexError on an input the public spaces
accept is a violation; model `OOB` <=> implementation IndexError on the malformed streams.
"""
from __future__ import annotations

import json
import os
import subprocess
import sys
from concurrent.futures import ThreadPoolExecutor

from . import common
from .common import ROOT, WORK, Check

# property module -> (Lean modules, noOOB / index-range theorems)
KERNELS = {
    "C01": (["Props.C01"], ["Ibl.decode1_feasible", "Ibl.decode2_feasible", "Ibl.packing_values_fit_dtype"]),
    "C02": (["Props.C02"], ["BinObj.noOOB", "BinObj.noOOB_inSpace", "BinObj.oob_iff"]),
    "C05": (["Props.C05"], ["Tsp.tourLen?_noOOB"]),
    "C06": (["Props.C06"], ["TspEa.rev_if_not_worse_noOOB", "TspEa.ea_noOOB", "TspEa.rev_if_h_not_worse_noOOB",
                            "TspEa.fea_noOOB", "TspEa.fea_h_index_in_range"]),
    "C07": (["Props.C07"], ["TtpErrors.countErrors_noOOB"]),
    "C08": (["Props.C08"], ["TtpLength.planLength?_noOOB"]),
    "C09": (["Props.C09"], ["Qap.qapEval_noOOB"]),
    "C10": (["Props.C10"], ["Ode.jCompute_fills_exactly"]),
    "C14": (["Props.C14"], ["IblSpec.decode1_eq_nextFit", "IblSpec.decode2_eq_firstFit"]),
    "C15": (["Props.C15"], ["GameEnc.mapGames_noOOB"]),
    "C16": (["Props.C16", "Props.C16Ann"], ["C16.controller_indices_in_range", "C16.system_indices_in_range",
                                            "AnnGen.annGen_indices_in_range"]),
    "C20": (["Props.C20"], ["Order1d.swapDistance_noOOB"]),
}
EXTRA_BUILD = ["drv_c16ann"]


def check(ck: Check) -> None:
    ck.rule = ("every stream of the properties " + ", ".join(sorted(KERNELS)) + " re-run under NUMBA_BOUNDSCHECK=1 in separate "
               "processes (own numba cache); a case is one case of those streams; counts are summed over the sub-runs")
    ck.assumptions += ["NUMBA_BOUNDSCHECK=1 only adds IndexError to the compiled kernels (numba documentation)",
                       "kernels are compiled per process from the current source (own cache dir .work/numba-bc)"]
    ck.not_proved += ["min-ANN controllers: the search loops are float-controlled and not modelled; their (all literal) array "
                      "accesses are extracted from the source on every run and proved in range (C13.minAnn_indices_in_range)",
                      "kernels of properties whose checks are not integrated yet are listed in MANIFEST notes"]
    modules, theorems = [], []
    for p, (mods, ths) in sorted(KERNELS.items()):
        modules += [m for m in mods if m not in modules]
        theorems += ths
    # lean/Gen/*.lean (imported by Props.C16) must reflect the CURRENT tree before anything is built: re-run the translator
    ck.gen_begin()   # released at the end of ck.lean
    try:
        from . import c16
        c16.meta(ck)
    except Exception as e:  # noqa: BLE001 - an untranslatable kernel is reported by ./check C16; here it is a proof failure
        ck.proof_failures.append(f"translator (lean/Gen) could not be regenerated: {e!r}")
    # the literal subscripts of the min-ANN kernels and their registered dimensions -> lean/Gen/MinAnnIdx.lean
    try:
        from .translate import minann_idx
        data = minann_idx.emit(common.REPO, common.LEAN)
        ck.count("minann_kernels", len(data["registrations"]))
        modules.append("Props.C13")
        theorems.append("C13.minAnn_indices_in_range")
    except Exception as e:  # noqa: BLE001
        ck.proof_failures.append(f"min-ANN index extraction (harness/translate/minann_idx.py) failed: {e!r}")
    drvs = [f"drv_{p.lower()}" for p in KERNELS] + EXTRA_BUILD
    ck.drv = drvs[0]
    ck.drv_root = "Driver.C01Main"
    ck.lean(modules, theorems, build_extra=drvs[1:])
    if "Props.C13" in modules:   # informational shape facts: a failure is a note, never a violation (see Props/C13Shape.lean)
        r = subprocess.run(["lake", "build", "Props.C13Shape"], cwd=common.LEAN, capture_output=True, text=True, check=False)
        ck.notes.append("min-ANN shape facts (Props.C13Shape: parameters exactly declared, slices state-sized): "
                        + ("hold" if r.returncode == 0 else "DO NOT hold on this tree (informational; not a C13 violation)"))
    outdir = WORK / "C13"
    outdir.mkdir(parents=True, exist_ok=True)
    env = dict(os.environ, NUMBA_BOUNDSCHECK="1")

    def run(p: str):
        out = outdir / f"{p}.json"
        if out.exists():
            out.unlink()
        r = subprocess.run([sys.executable, "-m", "harness.c13_worker", p, ck.tier, str(ck.seed), str(out)],
                           cwd=ROOT, env=env, capture_output=True, text=True, check=False)
        if out.exists():
            return p, json.loads(out.read_text()), r
        return p, None, r

    with ThreadPoolExecutor(max_workers=min(8, len(KERNELS))) as ex:
        results = list(ex.map(run, sorted(KERNELS)))
    for p, res, r in results:
        if res is None:
            ck.proof_failures.append(f"bounds-checked sub-run of {p} produced no result: {(r.stdout + r.stderr)[-800:]}")
            continue
        ck.evaluations += res["evaluations"]
        ck.corr_compared += res["compared"]
        ck.spec_checked += res["spec_checked"]
        ck.count(f"cases_{p}", res["evaluations"])
        for i in range(res["distinct"]):
            ck.distinct.add(f"{p}:{i}")
        ck.samples += [f"{p}: {s}" for s in res["samples"][:1]]
        if res["error"]:
            oob = "IndexError" in res["error"]
            ck.spec(False, f"oob_{p}" if oob else f"crash_{p}", res["error"][-600:], {"property": p})
        for m in res["mismatch"]:
            if "OOB" in str(m.get("impl")) or "IndexError" in str(m.get("impl")):
                ck.spec(False, f"oob_{p}", f"IndexError under bounds checking where the model stays inside: {str(m)[:500]}", m)
            else:
                ck.corr_mismatch.append(dict(m, stream=f"{p}/{m.get('stream')}"))
        for v in res["spec_violations"]:
            key = v.get("key", "")
            txt = json.dumps(v, default=str)
            if "IndexError" in txt or "OOB" in txt or "oob" in key or "index" in key.lower():
                ck.spec(False, f"oob_{p}", f"{key}: {v.get('what')}", v.get("case"))
            else:   # a different property's violation seen again under bounds checking: reported there, noted here
                ck.notes.append(f"{p} reports {key} (not an out-of-bounds access; see ./check {p})")
        for pf in res["proof_failures"]:
            ck.proof_failures.append(f"{p}: {pf}")
