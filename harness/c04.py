"""C04 — packing validation accepts exactly the feasible packings; text round trip (DESIGN.md section 6)."""
from __future__ import annotations

import itertools
import re
import warnings

from .common import Check, cmat, fmt_ints, fmt_matrix, kv

THEOREMS = [
    "PackVal.validate_ok_iff", "PackVal.accepts_iff_validate", "PackVal.dtype_exists", "PackVal.mult_check_suffices",
    "PackVal.bins_contiguous_iff", "PackVal.overlap_loop_iff_pairwise", "PackVal.validate_no_oob",
    "PackVal.toStr_tokens", "PackVal.fromStr_toStr", "PackVal.fromStr_validates",
]

#: compare the error *kind* (which check fired first) strictly; False = only accept/reject is a correspondence failure
STRICT_KIND = True

DTYPES = ["int8", "uint8", "int16", "uint16", "int32", "uint32", "int64", "uint64"]


# ------------------------------------------------------------------ implementation side
class Ctx:
    """One instance: the real objects and the protocol header."""

    def __init__(self, W, H, items):
        from moptipyapps.binpacking2d.instance import Instance
        from moptipyapps.binpacking2d.packing_space import PackingSpace
        self.W, self.H, self.items = int(W), int(H), [[int(v) for v in it] for it in items]
        self.inst = Instance("x", self.W, self.H, self.items)
        self.twin = None
        self.space = PackingSpace(self.inst)
        self.hdr = f"{self.W} {self.H} ; {fmt_matrix(self.items)}"
        self.n = int(self.inst.n_items)
        self.dt = str(self.inst.dtype)

    def other(self):
        """an equal but distinct instance object (`inst is not x.instance`)"""
        if self.twin is None:
            from moptipyapps.binpacking2d.instance import Instance
            self.twin = Instance("x", self.W, self.H, self.items)
        return self.twin


def fits(rows, dt) -> bool:
    import numpy as np
    ii = np.iinfo(dt)
    return all(ii.min <= v <= ii.max for r in rows for v in r)


def mk_packing(cx: Ctx, rows, n_bins, dt=None, own=True):
    """A `Packing` object with arbitrary contents (shape, dtype, attributes); None if not representable."""
    import numpy as np
    from moptipyapps.binpacking2d.packing import Packing
    dt = dt or cx.dt
    ncol = len(rows[0]) if rows else 6
    if any(len(r) != ncol for r in rows) or not fits(rows, dt):
        return None
    p = np.ndarray.__new__(Packing, (len(rows), ncol), np.dtype(dt))
    if rows:
        p[...] = np.array(rows, dtype=np.dtype(dt))
    p.instance = cx.inst if own else cx.other()
    p.n_bins = n_bins
    return p


_IDX = re.compile(r"index\s+(\d+)")


def err_kind(e: Exception) -> str:
    """Map the message of the exception raised by `validate` to the model's error enum."""
    m = str(e)
    idx = _IDX.findall(m)
    if m.startswith("x.instance must be"):
        return "inst"
    if m.startswith("inst.dtype = "):
        return "dtype"
    if m.startswith("x.shape="):
        return "shape"
    if m.startswith(("bin_width=", "bin_height=")):
        return "binSize"
    if m.startswith("Encountered invalid id="):
        return f"id:{idx[0]}"
    if m.startswith("Encountered invalid bin-id="):
        return f"bin:{idx[0]}"
    if m.startswith("Invalid item coordinates"):
        return f"degenerate:{idx[0]}"
    if "extend outside of the bin" in m:
        return f"outside:{idx[0]}"
    if "mean width=" in m:
        return f"dims:{idx[0]}"
    if "thus intersects with item" in m:
        return f"overlap:{idx[1]}:{idx[0]}"
    mm = re.match(r"Item (-?\d+) should occur", m)
    if mm:
        return f"mult:{mm.group(1)}"
    if m.startswith("Inconsistent use of bins"):
        return "bins"
    if m.startswith("x.n_bins="):
        return "nBins"
    if "empty sequence" in m or "iterable argument is empty" in m:
        return "noBins"
    return "other:" + type(e).__name__ + ":" + m[:60]


def impl_validate(cx: Ctx, p) -> str:
    try:
        cx.space.validate(p)
    except (ValueError, TypeError) as e:
        return err_kind(e)
    except Exception as e:  # noqa: BLE001 - anything else (IndexError, OverflowError, ...) is a rejection of its own kind
        return "other:" + type(e).__name__
    return "ok"


def val_line(cx: Ctx, rows, n_bins, dt, own) -> str:
    return f"val {cx.hdr} ; {1 if own else 0} {DTYPES.index(dt)} {n_bins} ; {fmt_matrix(rows)}"


# ------------------------------------------------------------------ generators
def guillotine(rng, W, H, cuts):
    rects = [(0, 0, W, H)]
    for _ in range(cuts):
        k = rng.randrange(len(rects))
        l, b, r, t = rects[k]
        horiz = rng.random() < 0.5
        if horiz and r - l >= 2:
            c = rng.randint(l + 1, r - 1) if rng.random() < 0.7 else rng.choice([l + 1, r - 1])
            rects[k:k + 1] = [(l, b, c, t), (c, b, r, t)]
        elif t - b >= 2:
            c = rng.randint(b + 1, t - 1) if rng.random() < 0.7 else rng.choice([b + 1, t - 1])
            rects[k:k + 1] = [(l, b, r, c), (l, c, r, t)]
    return rects


def gen_layout(rng, quick, big=False):
    """An instance derived from an independently generated feasible layout.

    Guillotine cuts of each bin, some pieces dropped (waste), a sparse last bin, item types in
    random orientation (so rows are rotated w.r.t. their type), equal types merged or kept as
    duplicates, rows shuffled, bin labels permuted.  Returns (W, H, items, rows, n_bins)."""
    # The Instance constructor cuts every item into squares (w // h of them) and loops over min(W, H) / 2
    # values: one bin side and all aspect ratios must stay moderate, so in a huge bin the layout lives in
    # a small window placed at a random offset (far right / top included).
    if big:
        W = rng.choice([10 ** 9, 10 ** 9 + 1, 3 * 10 ** 9, 10 ** 12 - 1, 10 ** 12, rng.randint(10 ** 9, 10 ** 12)])
        H = rng.choice([1, 2, 5, rng.randint(1, 50), rng.randint(50, 1500)])
        ww = rng.choice([H, 2 * H, rng.randint(1, 3000), 1])
    else:
        W = rng.choice([1, 2, 3, 4, 5, 7, 10, 20, 50, 100, 127, 1000, 40000])
        H = rng.choice([1, 2, 3, 4, 5, 7, 10, 20, 50, 100, 126, 1000])
        ww = W
    x0s = [0, W - ww, rng.randint(0, W - ww)]
    swap = rng.random() < 0.5
    nb = rng.choice([1, 1, 2, 2, 3, 4] if quick else [1, 2, 3, 4, 5, 7])
    placed = []
    for b in range(1, nb + 1):
        cuts = rng.randint(0, 5 if quick else 9)
        if b == nb and nb > 1 and rng.random() < 0.5:
            cuts = rng.randint(0, 1)
        x0 = rng.choice(x0s)
        rects = [(l + x0, bt, r + x0, t) for (l, bt, r, t) in guillotine(rng, ww, H, cuts)]
        keep = [r for r in rects if rng.random() < 0.8] or [rng.choice(rects)]
        if b == nb and nb > 1 and rng.random() < 0.5:
            keep = [rng.choice(keep)]                      # sparse last bin
        if swap:
            keep = [(bt, l, t, r) for (l, bt, r, t) in keep]
        placed += [(b, *r) for r in keep]
    if swap:
        W, H = H, W
    # item types
    types, rows = [], []
    merge = rng.random() < 0.6
    for (b, l, bt, r, t) in placed:
        w, h = r - l, t - bt
        if rng.random() < 0.5:
            w, h = h, w                                    # the type is the rotated rectangle
        tid = None
        if merge or rng.random() < 0.3:
            for k, ty in enumerate(types):
                if (ty[0], ty[1]) == (w, h) or (rng.random() < 0.5 and (ty[1], ty[0]) == (w, h)):
                    tid = k
                    break
        if tid is None:
            types.append([w, h, 0])
            tid = len(types) - 1
        types[tid][2] += 1
        rows.append([tid, b, l, bt, r, t])
    perm = list(range(len(types)))
    rng.shuffle(perm)                                      # perm[old] = new position
    items = [None] * len(types)
    for old, new in enumerate(perm):
        items[new] = types[old]
    relabel = list(range(1, nb + 1))
    rng.shuffle(relabel)
    rows = [[perm[r[0]] + 1, relabel[r[1] - 1], *r[2:]] for r in rows]
    rng.shuffle(rows)
    return W, H, items, rows, nb


def gen_random_instance(rng, quick):
    W = rng.choice([3, 5, 10, 20, 60, 100, 1000, 2750])
    H = rng.choice([3, 5, 10, 20, 50, 120, 1000, 1220])
    k = rng.randint(1, 5 if quick else 8)
    items = []
    for _ in range(k):
        w = rng.randint(1, W)
        h = rng.randint(1, H)
        if rng.random() < 0.3:
            w, h = h, w
            if w > max(W, H) or h > max(W, H) or (w > min(W, H) and h > min(W, H)):
                w, h = h, w
        items.append([w, h, rng.randint(1, 3 if quick else 6)])
    return W, H, items


def corruptions(rng, cx: Ctx, rows, nb):
    """Yield (class, rows', n_bins', dtype', own') — every single-field corruption class of the property."""
    n, W, H, items = len(rows), cx.W, cx.H, cx.items
    nt = len(items)
    cp = lambda: [list(r) for r in rows]

    def pick():
        return rng.randrange(n)
    # --- wrong size
    for _ in range(2):
        i = pick()
        for col, d in ((4, 1), (4, -1), (5, 1), (5, -1), (2, 1), (3, 1)):
            c = cp()
            c[i][col] += d
            yield "size±1", c, nb, cx.dt, True
    # one side equals the *other* item side, the rectangle shrunk so that nothing else can object
    for i in range(n):
        w, h, _ = items[rows[i][0] - 1]
        rw, rh = rows[i][4] - rows[i][2], rows[i][5] - rows[i][3]
        cands = []
        for side in {w, h}:
            if side <= rw:
                cands += [(side, k) for k in {1, rh - 1, rh // 2, rng.randint(1, rh)} if 1 <= k <= rh]
            if side <= rh:
                cands += [(k, side) for k in {1, rw - 1, rw // 2, rng.randint(1, rw)} if 1 <= k <= rw]
        rng.shuffle(cands)
        for (nw, nh) in cands[:3]:
            if (nw, nh) in ((w, h), (h, w)):
                continue
            c = cp()
            c[i][4] = c[i][2] + nw
            c[i][5] = c[i][3] + nh
            yield "size-one-side-matches", c, nb, cx.dt, True
        if i >= 3 and rng.random() < 0.7:
            break
    i = pick()
    c = cp()
    c[i][4] = c[i][2] + (rows[i][5] - rows[i][3])
    c[i][5] = c[i][3] + (rows[i][4] - rows[i][2])
    yield "rotated-in-place", c, nb, cx.dt, True
    for col in (4, 5):
        c = cp()
        i = pick()
        c[i][col] = c[i][col - 2]
        yield "degenerate", c, nb, cx.dt, True
    # --- ids
    for v in (0, nt + 1, -1):
        c = cp()
        c[pick()][0] = v
        yield "id-range", c, nb, cx.dt, True
    if nt > 1:
        for _ in range(2):
            i = pick()
            c = cp()
            c[i][0] = rng.choice([k for k in range(1, nt + 1) if k != rows[i][0]])
            yield "id-swapped", c, nb, cx.dt, True
        # same dimensions, other id: right total count, one id too often, one too rarely / missing
        for i in range(n):
            w, h, _ = items[rows[i][0] - 1]
            tw = [k + 1 for k, it in enumerate(items) if k + 1 != rows[i][0] and sorted(it[:2]) == sorted((w, h))]
            if tw:
                c = cp()
                c[i][0] = rng.choice(tw)
                yield "id-same-dims", c, nb, cx.dt, True
                break
        if n >= 2:
            i, j = rng.sample(range(n), 2)
            c = cp()
            c[i][0], c[j][0] = c[j][0], c[i][0]
            yield "ids-exchanged", c, nb, cx.dt, True
    # --- position
    for _ in range(3):
        i = pick()
        dx, dy = rng.choice([(1, 0), (-1, 0), (0, 1), (0, -1)])
        c = cp()
        c[i][2] += dx
        c[i][4] += dx
        c[i][3] += dy
        c[i][5] += dy
        yield "shift±1", c, nb, cx.dt, True
    i = pick()
    c = cp()
    c[i][4] -= c[i][2] + 1
    c[i][2] = -1
    yield "left-of-bin", c, nb, cx.dt, True
    i = pick()
    c = cp()
    c[i][3] += H - c[i][5] + 1
    c[i][5] = H + 1
    yield "above-bin", c, nb, cx.dt, True
    if n >= 2:
        i, j = rng.sample(range(n), 2)
        c = cp()
        c[i][2:] = c[j][2:]
        yield "copy-of-other-row-coords", c, nb, cx.dt, True
        c = cp()
        c[i][1] = c[j][1]
        yield "moved-to-other-bin", c, nb, cx.dt, True
    # --- bins
    for v in (0, -1, n + 1, n, nb + 1, nb + 2):
        c = cp()
        c[pick()][1] = v
        yield "bin-value", c, nb, cx.dt, True
    c = [[r[0], r[1] + 1, *r[2:]] for r in rows]
    yield "bins-from-2", c, nb, cx.dt, True
    if nb >= 2:
        g = rng.randint(1, nb - 1)
        c = [[r[0], r[1] + (1 if r[1] > g else 0), *r[2:]] for r in rows]
        yield "bin-gap", c, nb, cx.dt, True
        yield "bin-gap", c, nb + 1, cx.dt, True
    for v in (nb + 1, nb - 1, 0, -1, n, 1):
        if v != nb:
            yield "n_bins", cp(), v, cx.dt, True
    # --- dtype, instance, shape
    for dt in DTYPES:
        if dt != cx.dt:
            yield "dtype", cp(), nb, dt, True
    yield "other-instance", cp(), nb, cx.dt, False
    yield "shape", cp()[:-1], nb, cx.dt, True
    yield "shape", cp() + [list(rows[pick()])], nb, cx.dt, True
    yield "shape", [r[:5] for r in rows], nb, cx.dt, True
    yield "shape", [r + [0] for r in rows], nb, cx.dt, True
    yield "shape", [], nb, cx.dt, True
    # --- multi-field
    for _ in range(4):
        c = cp()
        for _ in range(rng.randint(2, 4)):
            i, col = pick(), rng.randrange(6)
            how = rng.random()
            if how < 0.4:
                c[i][col] += rng.choice([-2, -1, 1, 2])
            elif how < 0.7:
                c[i][col] = rows[pick()][col]
            else:
                c[i][col] = rng.choice([0, 1, 2, nb, n, W, H, W - 1, H - 1])
        yield "multi", c, rng.choice([nb, nb, nb + 1, max(r[1] for r in c)]), cx.dt, True


def decode_cases(ck: Check, quick):
    """(a) packings produced by the real encodings from random signed permutations."""
    import numpy as np
    from moptipyapps.binpacking2d.encodings.ibl_encoding_1 import ImprovedBottomLeftEncoding1
    from moptipyapps.binpacking2d.encodings.ibl_encoding_2 import ImprovedBottomLeftEncoding2
    from moptipyapps.binpacking2d.packing import Packing
    rng = ck.rng
    out = []
    for k in range(40 if quick else 400):
        W, H, items = gen_random_instance(rng, quick)
        try:
            cx = Ctx(W, H, items)
        except ValueError:
            ck.count("decode_inst_rejected")
            continue
        for enc in (ImprovedBottomLeftEncoding1, ImprovedBottomLeftEncoding2):
            x = cx.inst.get_standard_item_sequence()
            rng.shuffle(x)
            x = np.array([v if rng.random() < 0.5 else -v for v in x], dtype=cx.inst.dtype)
            y = Packing(cx.inst)
            enc(cx.inst).decode(x, y)
            out.append(("decode", cx, [[int(v) for v in r] for r in y.tolist()], int(y.n_bins)))
    return out


def base_cases(ck: Check):
    """Feasible packings (by construction); each is also the seed of the corruption stream."""
    rng, quick = ck.rng, ck.quick
    out = []
    # boundary: the witnesses of the two repaired defects and hand-made small cases
    out.append(("boundary", Ctx(20, 20, [[10, 5, 1]]), [[1, 1, 0, 0, 10, 5]], 1))
    out.append(("boundary", Ctx(20, 20, [[10, 5, 1]]), [[1, 1, 3, 2, 8, 12]], 1))
    out.append(("boundary", Ctx(10, 10, [[10, 5, 2], [3, 3, 1]]),
                [[1, 1, 0, 0, 10, 5], [2, 1, 0, 5, 3, 8], [1, 2, 0, 0, 5, 10]], 2))
    out.append(("boundary", Ctx(1, 1, [[1, 1, 3]]), [[1, 2, 0, 0, 1, 1], [1, 3, 0, 0, 1, 1], [1, 1, 0, 0, 1, 1]], 3))
    out.append(("boundary", Ctx(2_000_000_000, 5, [[7, 5, 1], [5, 3, 1]]),
                [[1, 1, 0, 0, 7, 5], [2, 1, 1_999_999_995, 0, 2_000_000_000, 3]], 1))
    out.append(("boundary", Ctx(10 ** 12, 2, [[3, 2, 2]]),
                [[1, 2, 0, 0, 3, 2], [1, 1, 10 ** 12 - 3, 0, 10 ** 12, 2]], 2))
    out.append(("boundary", Ctx(3, 10 ** 9 + 1, [[3, 2, 1], [1, 1, 2]]),
                [[1, 1, 0, 10 ** 9 - 1, 3, 10 ** 9 + 1], [2, 1, 0, 0, 1, 1], [2, 1, 2, 0, 3, 1]], 1))
    for k in range(250 if quick else 2500):
        big = (k % 5 == 4)
        W, H, items, rows, nb = gen_layout(rng, quick, big)
        out.append(("layout-big" if big else "layout", Ctx(W, H, items), rows, nb))
    out += decode_cases(ck, quick)
    return out


def exhaustive_cases(ck: Check):
    """All 2x6 matrices over 0..3 for three tiny 2-item instances: a seeded slice of the 4^12 matrices, the
    sub-cube that contains every accepted matrix, and (thorough) the complete enumeration over 0..2."""
    rng, quick = ck.rng, ck.quick
    row_space = list(itertools.product(range(4), repeat=6))
    for k, (W, H, items) in enumerate(((2, 2, [[1, 2, 1], [2, 1, 1]]), (3, 2, [[1, 2, 1], [3, 1, 1]]), (2, 2, [[1, 1, 2]]))):
        cx = Ctx(W, H, items)
        for _ in range(20000 if quick else 250000):
            a, b = rng.choice(row_space), rng.choice(row_space)
            yield "exh-slice", cx, [list(a), list(b)], max(a[1], b[1])
        # the structured sub-cube that contains every accepted matrix: ids 1..2, bins 1..2, all coordinates
        coords = [(l, b, r, t) for l in range(W + 1) for b in range(H + 1) for r in range(l, W + 2) for t in range(b, H + 2)
                  if r <= 3 and t <= 3]
        if quick:
            coords = rng.sample(coords, min(len(coords), 16))
        for ia, ib in itertools.product((1, 2), repeat=2):
            for ba, bb in itertools.product((1, 2), repeat=2):
                for ca in coords:
                    for cb in coords:
                        yield "exh-cube", cx, [[ia, ba, *ca], [ib, bb, *cb]], max(ba, bb)
        if not quick and k == 0:
            for m in itertools.product(range(3), repeat=12):
                yield "exh-full-0..2", cx, [list(m[:6]), list(m[6:])], max(m[1], m[7])


# ------------------------------------------------------------------ the streams
def streams(ck: Check) -> None:
    """Correspondence (B) and spec oracle (C) for `validate`, `to_str`, `from_str`."""
    import numpy as np
    warnings.simplefilter("ignore")
    rng = ck.rng
    ops, expect = [], []

    def add_val(stream, cls, cx, rows, nb, dt, own):
        p = mk_packing(cx, rows, nb, dt, own)
        if p is None:
            ck.count("skipped:not-representable-in-dtype")
            return None
        verdict = impl_validate(cx, p)
        line = val_line(cx, rows, nb, dt, own)
        ops.append(line)
        expect.append(("val", stream, verdict, (cx, rows, nb, dt, own, cls)))
        ck.case(line, nontrivial=True)
        ck.count(f"{stream}/{cls}")
        ck.count("verdict:" + verdict.split(":")[0])
        return p, verdict

    def add_rt(stream, cx, rows, nb, p, verdict):
        """to_str / from_str(to_str) on a packing of the right shape and dtype"""
        text = cx.space.to_str(p)
        try:
            q = cx.space.from_str(text)
            res = (f"r=ok nb={q.n_bins} dt={q.dtype} own={'true' if q.instance is cx.inst else 'false'} "
                   f"rows={cmat(q.tolist())}")
            same = (q.tolist() == p.tolist() and q.n_bins == p.n_bins and q.dtype is p.dtype
                    and q.instance is p.instance and q.shape == p.shape)
        except ValueError as e:
            q, res, same = None, "r=" + err_kind(e), False
        line = f"rt {cx.hdr} ; 1 {DTYPES.index(cx.dt)} {nb} ; {fmt_matrix(rows)}"
        ops.append(line)
        expect.append(("rt", stream, f"s={text} same={'true' if same else 'false'} {res}", (cx, rows, nb, p, q, same, verdict == "ok")))
        ck.case(line)
        ck.count("rt:" + ("ok" if q is not None else "rejected"))
        if q is not None:
            # what from_str returned goes through the specification (a `val` op on the result)
            ops.append(val_line(cx, [[int(v) for v in r] for r in q.tolist()], int(q.n_bins), str(q.dtype), q.instance is cx.inst))
            expect.append(("val-of-parsed", stream, "ok", (cx, q.tolist(), int(q.n_bins), str(q.dtype), True, "from_str result")))

    def check_copy(stream, cx, rows, nb, p):
        """create() gives a packing of the instance's shape/dtype; copy() transfers rows and n_bins"""
        d = cx.space.create()
        ck.spec(d.shape == (cx.n, 6) and d.dtype is cx.inst.dtype and d.instance is cx.inst, "create_shape",
                "create() does not return a packing of shape (n_items, 6), the instance's dtype and instance",
                {"W": cx.W, "H": cx.H, "items": cx.items})
        d.fill(0)
        cx.space.copy(d, p)
        ck.spec(d.tolist() == rows and d.n_bins == nb and impl_validate(cx, d) == "ok", "copy_differs",
                "copy(dest, y) does not make dest a valid packing equal to y", {"W": cx.W, "H": cx.H, "items": cx.items,
                                                                              "rows": rows, "n_bins": nb})

    def add_lenient(stream, cx, text):
        """texts only numpy's lenient parser reads (not modelled): whatever from_str returns must be feasible"""
        try:
            q = cx.space.from_str(text)
        except ValueError:
            ck.count("fs-lenient:ERR")
            return
        ck.count("fs-lenient:ok")
        ops.append(val_line(cx, [[int(v) for v in r] for r in q.tolist()], int(q.n_bins), str(q.dtype), q.instance is cx.inst))
        expect.append(("val-of-parsed", stream, "ok", (cx, q.tolist(), int(q.n_bins), str(q.dtype), True, "from_str result (lenient text)")))

    def add_fs(stream, cx, text):
        try:
            q = cx.space.from_str(text)
            res = "ok"
        except ValueError:
            res = "ERR"
        line = f"fs {cx.hdr} ; {text.replace(';', ':')}"
        ops.append(line)
        expect.append(("fs", stream, res, None))
        ck.case(line)
        ck.count("fs:" + res)

    def flush():
        outs = ck.model(ops)
        for line, (op, stream, iout, ctx), mout in zip(ops, expect, outs):
            if op in ("val", "val-of-parsed"):
                d = kv(mout)
                cx, rows, nb, dt, own, cls = ctx
                mv = d.get("v", mout)
                # verdict and error kind are compared strictly; the row index / partner / id inside the
                # message only softly (recorded, not failing): they do not bear on the property
                if STRICT_KIND:
                    ck.compare(stream + ":" + op, line, mv.split(":")[0], iout.split(":")[0])
                else:
                    ck.compare(stream + ":" + op, line, "ok" if mv == "ok" else "ERR", "ok" if iout == "ok" else "ERR")
                    if mv.split(":")[0] != iout.split(":")[0]:
                        ck.count("soft:error-kind-differs")
                if mv != iout and mv.split(":")[0] == iout.split(":")[0]:
                    ck.count("soft:error-detail-differs")
                    if not any(n.startswith("error detail") for n in ck.notes):
                        ck.notes.append(f"error detail differs (not failing): model {mv} impl {iout} on {line[:300]}")
                if op == "val":
                    ck.compare(stream + ":idtype", line, d.get("idt", mout), cx.dt)
                    ck.compare(stream + ":instvalid", line, d.get("valid", mout), "true")
                acc = d.get("acc") == "true"
                case = {"W": cx.W, "H": cx.H, "items": cx.items, "rows": rows, "n_bins": nb, "dtype": dt,
                        "inst_dtype": cx.dt, "own_instance": own, "corruption": cls, "validate": iout}
                if len(rows) > 40:
                    case["rows"] = rows[:40] + ["…"]
                if cls == "feasible" and not acc:
                    raise AssertionError(f"generator bug: base packing is not feasible by the Lean specification: {line} -> {mout}")
                if op == "val-of-parsed":
                    ck.spec(acc, "from_str_unvalidated", "from_str returned a packing that is not feasible for the instance", case)
                elif iout == "ok":
                    ck.spec(acc, "accepts_infeasible",
                            f"validate accepted a packing that is not feasible ({cls})", case)
                else:
                    ck.spec(not acc, "rejects_feasible",
                            f"validate raised '{iout}' on a feasible packing of the right shape and type ({cls})", case)
            elif op == "rt":
                cx, rows, nb, p, q, same, valid_before = ctx
                ck.compare(stream + ":rt", line, mout, iout)
                d = kv(mout)
                case = {"W": cx.W, "H": cx.H, "items": cx.items, "rows": rows if len(rows) <= 40 else rows[:40] + ["…"],
                        "n_bins": nb, "from_str": iout[:300]}
                ck.compare(stream + ":to_str", line, d.get("s", ""), kv(iout).get("s", "?"))
                if q is not None:
                    # parsing the text form yields a packing equal to the original unless the stored n_bins was wrong
                    want_same = (nb == max(r[1] for r in rows))
                    ck.spec(same == want_same, "roundtrip_differs",
                            "from_str(to_str(y)) is not equal to y (rows, n_bins, dtype, instance)", case)
                elif valid_before:
                    ck.spec(False, "roundtrip_rejected", "from_str(to_str(y)) raised although validate(y) succeeded", case)
            else:
                ck.compare(stream + ":fs", line, "ok" if mout.startswith("r=ok") else "ERR", iout)
        # every feasible base packing must have been accepted and round-tripped: checked above through `acc`
        ops.clear()
        expect.clear()

    for stream, cx, rows, nb in exhaustive_cases(ck):
        add_val(stream, "matrix", cx, rows, nb, cx.dt, True)
        if rng.random() < 0.02:
            add_val(stream, "matrix-nb", cx, rows, rng.randint(0, 3), cx.dt, True)
        if len(ops) >= 200000:
            flush()
    flush()
    bases = base_cases(ck)
    for stream, cx, rows, nb in bases:
        ck.count(f"base:{stream}")
        ck.count(f"inst_dtype:{cx.dt}")
        ck.count("n_items:" + ("1" if cx.n == 1 else "2-5" if cx.n <= 5 else "6-20" if cx.n <= 20 else ">20"))
        r = add_val(stream, "feasible", cx, rows, nb, cx.dt, True)
        if r is not None:
            add_rt(stream, cx, rows, nb, r[0], r[1])
            check_copy(stream, cx, rows, nb, r[0])
            text = cx.space.to_str(r[0])
            toks = text.split(";")
            add_fs(stream, cx, ";".join(toks[:-1]))
            add_fs(stream, cx, ";".join(toks + ["1"]))
            add_fs(stream, cx, ";".join(toks + toks[:6]))
            add_fs(stream, cx, ";".join(toks[:6]))
            add_lenient(stream, cx, " ; ".join(toks))
            add_lenient(stream, cx, text + ";")
            add_lenient(stream, cx, text + ";zzz")
            add_lenient(stream, cx, ";".join("+" + t for t in toks))
            add_lenient(stream, cx, ";".join(toks[6:] + toks[:6]))          # rows rotated: still a packing
            add_lenient(stream, cx, ";".join(reversed(toks)))
            bad = list(toks)
            bad[rng.randrange(len(bad) - 1)] = rng.choice(["x", "", "1x", "--1"])
            add_fs(stream, cx, ";".join(bad))
        k = 0
        for cls, c, nb2, dt, own in corruptions(rng, cx, rows, nb):
            r = add_val(stream, cls, cx, c, nb2, dt, own)
            k += 1
            if r is not None and dt == cx.dt and own and len(c) == cx.n and all(len(x) == 6 for x in c) and k % 3 == 0:
                add_rt(stream, cx, c, nb2, r[0], r[1])
        if len(ops) >= 200000:
            flush()
    # the witnesses of the two repaired defects, verbatim
    cx = Ctx(20, 20, [[10, 5, 1]])
    for r in ([1, 1, 0, 0, 5, 7], [1, 1, 0, 0, 7, 10], [1, 1, 0, 0, 5, 5], [1, 1, 0, 0, 10, 10], [1, 1, 0, 0, 5, 10],
              [1, 1, 0, 0, 10, 7], [1, 1, 2, 3, 7, 4], [1, 1, 0, 0, 10, 5], [1, 1, 10, 15, 20, 20]):
        add_val("boundary", "5x7-for-10x5", cx, [r], 1, cx.dt, True)
    for (W, H) in ((10 ** 9, 7), (10 ** 9 + 1, 7), (7, 10 ** 9 + 1), (10 ** 12, 7), (7, 10 ** 12)):
        cx = Ctx(W, H, [[3, 2, 1]])
        for r in ([1, 1, 0, 0, 3, 2], [1, 1, W - 2, H - 3, W, H], [1, 1, W - 3, H - 2, W, H], [1, 1, W - 2, H - 3, W + 1, H]):
            add_val("boundary", "bin-side>1e9", cx, [r], 1, cx.dt, True)
    flush()


def check(ck: Check) -> None:
    ck.rule = ("boundary witnesses (5x7 for 10x5, bins up to 1e12) + feasible layouts built independently (guillotine cuts, waste, "
               "rotated types, duplicate types, shuffled rows, permuted bin labels, sparse last bin; every 5th with bin sides in "
               "(1e9,1e12]) + packings decoded by the real ImprovedBottomLeftEncoding1/2 from random signed permutations; for each "
               "base packing every single-field corruption class of the property and random multi-field corruptions; exhaustive "
               "slices of all 2x6 matrices over 0..3 on three 2-item instances; text round trip and malformed texts. A case is one "
               "protocol line (instance, dtype tag, n_bins, rows); distinct by line hash; all cases reach the validator")
    ck.assumptions += [
        "np.ndarray/Packing attribute plumbing (x.instance, x.dtype, x.shape, x.n_bins) is read as the model's Packing record; "
        "isinstance checks (Packing, int) are outside the model",
        "dtype identity `inst.dtype is not x.dtype` equals dtype equality (numpy builtin dtypes are singletons)",
        "pycommons.check_int_range(v, name, lo, hi) raises iff v outside lo..hi",
        "moptipy int_range_to_dtype behaves as Base.dtypeFor (instance dtype compared on every case)",
        "collections.Counter.items() iterates in first-insertion order; set min/max/len",
        "np.fromstring(text, dtype, sep=';') on text produced by to_str returns the values; its lenient handling of other "
        "texts (blanks, '+', trailing ';', silent stop at garbage, wrap-around outside the dtype) is NOT modelled: the model's "
        "tokenizer is strict; only wrong-count / garbage texts (both reject) are compared",
        "np.nditer over a C-contiguous Packing yields the values row by row; str() of an integer scalar is its decimal form",
    ]
    ck.not_proved += [
        "np.fromstring's parser is external: the Lean round trip is proved at character level for the model's own strict "
        "tokenizer (splitSemi/String.toInt?); that numpy reads to_str output to the same values is correspondence-checked only",
        "values that do not fit the packing's dtype cannot occur in a real Packing; the model quantifies over unbounded Int rows",
        "isinstance(x, Packing) / isinstance(x.n_bins, int) (TypeError paths) are not modelled",
        "matrices of dimension other than 2 (x.ndim != 2) are not representable in the model's list-of-rows packing",
    ]
    ck.lean(["Props.C04"], THEOREMS)
    streams(ck)


def replay(path: str) -> int:
    """Re-run the cases of a replay file against the real validator and the Lean specification."""
    import json
    from .common import Check
    ck = Check("C04", "quick", 0)
    obj = json.load(open(path))
    bad = 0
    for v in obj.get("violations", []):
        c = v["case"]
        if "rows" not in c or "…" in c["rows"]:
            print("not replayable (truncated):", v["key"])
            continue
        cx = Ctx(c["W"], c["H"], c["items"])
        dt, own, nb = c.get("dtype", cx.dt), c.get("own_instance", True), c["n_bins"]
        p = mk_packing(cx, c["rows"], nb, dt, own)
        verdict = impl_validate(cx, p) if p is not None else "not-representable"
        out = ck.model([val_line(cx, c["rows"], nb, dt, own)])[0]
        acc = kv(out).get("acc") == "true"
        agree = (verdict == "ok") == acc
        bad += 0 if agree else 1
        print(f"{v['key']}: real validate -> {verdict}; Lean model/spec -> {out}; {'agree' if agree else 'VIOLATION reproduced'}")
    return 1 if bad else 0
