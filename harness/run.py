"""Entry point: `python -m harness.run Cxx [--tier quick|thorough] [--replay FILE]`."""
from __future__ import annotations

import argparse
import importlib
import os
import sys
import traceback

from . import common


# properties whose thorough-scope streams are affordable on every change to their anchored files (a few minutes)
DEEP_ON_CHANGE = {"C01", "C02", "C04", "C05", "C06", "C08", "C09", "C10", "C16", "C19", "C20"}


def generic_replay(mod, prop: str, tier: str, path: str) -> int:
    """Re-run the check with the seed recorded in the replay file and report whether the recorded failure recurs.

    Replay files are written by `Check.finish`; their name ends in `-<seed>.json`. All generators are seeded, so the
    same seed regenerates the same cases against the current /repo tree.
    """
    import json
    import re
    from pathlib import Path
    rec = json.loads(Path(path).read_text())
    m = re.search(r"-(\d+)\.json$", path)
    seed = int(m.group(1)) if m else 0
    keys = sorted({v.get("key", "") for v in rec.get("violations", [])}) or rec.get("no_longer_checks", [])
    print(f"[{prop}] replaying {path}: kind={rec.get('kind')} seed={seed} recorded={keys}")
    for v in rec.get("violations", [])[:3]:
        print(f"  recorded: {v.get('key')}: {v.get('what')}\n    case: {json.dumps(v.get('case'), default=str)[:600]}")
    ck = common.Check(prop, tier, seed)
    mod.check(ck)
    now = sorted({v.get("key", "") for v in ck.spec_violations})
    print(f"[{prop}] on the current tree: violations={now} proof_failures={len(ck.proof_failures)} "
          f"correspondence_mismatches={len(ck.corr_mismatch)}")
    again = bool(set(now) & set(keys)) or (rec.get("kind") == "unproved" and bool(ck.proof_failures or ck.corr_mismatch))
    print(f"[{prop}] recorded failure {'REPRODUCED' if again else 'not reproduced'}")
    return 1 if again else 0


def main() -> int:
    ap = argparse.ArgumentParser()
    ap.add_argument("prop")
    ap.add_argument("--tier", default=os.environ.get("VERIF_TIER", "quick"), choices=["quick", "thorough"])
    ap.add_argument("--replay", default=None)
    a = ap.parse_args()
    seed = int(os.environ.get("VERIF_SEED", "0") or 0)
    prop = a.prop.upper()
    mod = importlib.import_module(f"harness.{prop.lower()}")
    common.setup_env(getattr(mod, "NUMBA_MODE", "jit"))
    for k, v in getattr(mod, "ENV", {}).items():
        os.environ[k] = v
    if a.replay:
        if hasattr(mod, "replay"):
            return mod.replay(a.replay)
        return generic_replay(mod, prop, a.tier, a.replay)
    ck = common.Check(prop, a.tier, seed)
    # has the code the model mirrors been edited since the model was validated?  (harness/anchors.py)
    try:
        from . import anchors
        ch = anchors.changed(prop)
    except Exception:  # noqa: BLE001 - the fingerprint is advisory, never a verdict
        ch = []
    ck.extra["anchored_files_changed_since_model_validation"] = ch
    if ch:
        ck.notes.append("anchored source changed since the model was validated: " + ", ".join(ch))
        if a.tier == "quick" and prop in DEEP_ON_CHANGE and os.environ.get("VERIF_NO_DEEP") != "1":
            ck.quick = False      # widen the correspondence / oracle streams to the thorough scope for this run
            ck.notes.append("correspondence streams widened to the thorough scope because of that change")
    try:
        mod.check(ck)
    except Exception as e:  # noqa: BLE001
        # The harness calls the real code and hooks into some of its private names; when it dies (a renamed attribute, a
        # changed signature, an exception of the real code on a path no stream guards), the correspondence between model
        # and implementation was NOT established for this tree: the property is no longer shown to hold.  That is
        # reported as such - with the concrete failing inputs found before the failure, if any - and never as silence.
        tb = traceback.format_exc()
        sys.stderr.write(tb)
        last = traceback.extract_tb(e.__traceback__)[-1]
        ck.proof_failures.append(f"correspondence harness of {prop} did not complete: {type(e).__name__}: {e} "
                                 f"(at {last.filename.split('/')[-1]}:{last.lineno} {last.name}); traceback tail: {tb[-1500:]}")
    return ck.finish()


if __name__ == "__main__":
    sys.exit(main())
