"""Entry point: `python -m harness.run Cxx [--tier quick|thorough] [--replay FILE]`."""
from __future__ import annotations

import argparse
import importlib
import os
import sys
import traceback

from . import common


def main() -> int:
    ap = argparse.ArgumentParser()
    ap.add_argument("prop")
    ap.add_argument("--tier", default=os.environ.get("VERIF_TIER", "quick"), choices=["quick", "thorough"])
    ap.add_argument("--replay", default=None)
    a = ap.parse_args()
    seed = int(os.environ.get("VERIF_SEED", "0") or 0)
    prop = a.prop.upper()
    mod = importlib.import_module(f"harness.{prop.lower()}")
    common.setup_env(getattr(mod, "NUMBA_MODE", "jit"))
    for k, v in getattr(mod, "ENV", {}).items():
        os.environ[k] = v
    if a.replay:
        return mod.replay(a.replay)
    ck = common.Check(prop, a.tier, seed)
    try:
        mod.check(ck)
    except Exception:  # an internal error of the machinery is not a verdict: exit 2
        traceback.print_exc()
        print(f"[{prop}] internal error in the check machinery", file=sys.stderr)
        return 2
    return ck.finish()


if __name__ == "__main__":
    sys.exit(main())
