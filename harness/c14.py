"""C14 — the two IBL decoders follow the documented bottom-left rule, statelessly (DESIGN.md section 6).

B  correspondence: every decode call (also those that only build up history) is replayed by the Lean model
   (`dec1`/`dec2` of Model/Ibl.lean) on exactly the memory the call found: destination rows, `bin_starts`, `bin_ends`.
C  spec oracle: the implementation's packing must equal, row by row (all six columns) and in `n_bins`, the packing that
   the executable Lean SPECIFICATION (`IblSpec.nextFit` / `IblSpec.firstFit`, written from the documentation; ops `nf`/`ff`)
   prescribes for (instance, permutation) — keys `rule_enc1`, `rule_enc2`; and the result of a decode that follows a
   history of other decodes on the same encoder object / destination must equal that of a fresh encoder and a fresh
   destination — key `stateless`.
"""
from __future__ import annotations

import itertools

from . import c01
from .common import Check, cmat, fmt_ints, fmt_matrix, kv

THEOREMS = [
    "IblSpec.minDown_eq_dropDown", "IblSpec.minLeft_eq_slideLeft", "IblSpec.settle_eq_settleSpec",
    "IblSpec.settleSpec_terminates", "IblSpec.settleSpec_unique_rest",
    "IblSpec.orient_eq_dims", "IblSpec.window2_eq_bin",
    "IblSpec.decode1_eq_nextFit", "IblSpec.decode2_eq_firstFit",
    "IblSpec.decode2_stateless", "IblSpec.decode_sequence_stateless",
]


# ----------------------------------------------------------------------------------------------------------------
# generators for the corner cases of the rule (overhangs, exact touching, supports, ties, bin-sized items)
# ----------------------------------------------------------------------------------------------------------------
def _valid(W, H, items):
    lo, hi = min(W, H), max(W, H)
    return all(1 <= w <= hi and 1 <= h <= hi and not (w > lo and h > lo) for w, h, _ in items)


def overhang_case(rng, big=False):
    """column A at the left wall, low blocker D, support S (higher than D) up to the right wall, overhang B resting on A
    with free space beneath, then a narrow C whose height makes its top touch B's bottom while it stands on S: C slides
    left under B until its right edge reaches S's left end and must then FALL onto D (its top touching B's bottom)."""
    sc = rng.choice([1, 1, 2, 3]) if not big else rng.choice([5, 40, 1000])
    aw, dw = rng.randint(2, 4), rng.randint(1, 2)
    cw = rng.randint(1, dw)
    sw = rng.randint(cw + 1, cw + 3)
    W = aw + dw + sw
    dh = rng.randint(1, 2)
    sh = dh + rng.randint(1, 2)
    ch = rng.randint(1, 3)
    ah = sh + ch                     # C on S has its top at A's top = B's bottom
    bh = rng.randint(1, 2)
    bw_lo, bw_hi = max(W - aw + 1, aw + dw - cw + 1), W - cw
    if bw_lo > bw_hi:
        return None
    bw = rng.randint(bw_lo, bw_hi)
    H = ah + bh + rng.randint(0, 2)
    its = [[aw, ah], [dw, dh], [sw, sh], [bw, bh], [cw, ch]]
    its = [[w * sc, h * sc] for w, h in its]
    W, H = W * sc, H * sc
    x = [1, 2, 3, 4, 5]
    extra = []
    for _ in range(rng.randint(0, 2)):   # a few more small items afterwards (they meet the new landscape)
        extra.append([rng.randint(1, max(1, W // 3)), rng.randint(1, max(1, H // 4))])
    items = [[w, h, 1] for w, h in its + extra]
    x += list(range(6, 6 + len(extra)))
    # optionally fill a first bin completely so that the scene plays in bin 2 (enc 1: bin_start > 0; enc 2: second window)
    if rng.random() < 0.4:
        items.append([W, H, 1])
        x = [len(items)] + x
    # write some ids negated with swapped dimensions: same rectangles, other sign path
    for i, it in enumerate(items):
        if rng.random() < 0.3 and _valid(W, H, [[it[1], it[0], 1]]) and not (it[1] > W or it[0] > H) \
                and not (it[0] > W or it[1] > H):
            it[0], it[1] = it[1], it[0]
            x = [-v if abs(v) == i + 1 else v for v in x]
    if not _valid(W, H, items):
        return None
    return W, H, items, x


def support_case(rng):
    """a staircase of supports with equal and different heights next to each other: the sliding item has several items
    directly beneath it (ties), stops at the left end of the rightmost one, falls or not depending on the next step"""
    n = rng.randint(2, 4)
    ws = [rng.randint(1, 3) for _ in range(n)]
    hs = [rng.randint(1, 3) for _ in range(n)]
    if rng.random() < 0.6:          # ties: neighbouring supports of equal height
        j = rng.randrange(n - 1)
        hs[j + 1] = hs[j]
    W = sum(ws) + rng.randint(0, 2)
    H = max(hs) + rng.randint(2, 5)
    items = [[w, h, 1] for w, h in zip(ws, hs)]
    x = list(range(1, n + 1))
    for _ in range(rng.randint(1, 3)):      # sliders
        items.append([rng.randint(1, max(1, W // 2)), rng.randint(1, 2), 1])
        x.append(len(items))
    if rng.random() < 0.5:                  # an item as wide as the bin on top (or one as high as the bin first)
        items.append([W, 1, 1])
        x.append(len(items))
    if rng.random() < 0.3:
        items.append([1, H, 1])
        x.insert(rng.randint(0, len(x)), len(items))
    if not _valid(W, H, items):
        return None
    return W, H, items, x


def tetris_case(rng, quick):
    """small coordinates, many unit-wide / unit-high and a few wide items: dense in exact touching, overhangs and ties"""
    W, H = rng.randint(4, 9), rng.randint(4, 10)
    n = rng.randint(4, 7 if quick else 9)
    items = []
    for _ in range(n):
        k = rng.random()
        if k < 0.3:
            w, h = rng.randint(max(1, W // 2), W), rng.randint(1, 2)
        elif k < 0.55:
            w, h = rng.randint(1, 2), rng.randint(max(1, H // 3), max(1, (2 * H) // 3))
        else:
            w, h = rng.randint(1, 3), rng.randint(1, 3)
        items.append([w, h, 1 if rng.random() < 0.8 else 2])
    if not _valid(W, H, items):
        return None
    return W, H, items, c01.signed_perm(rng, items)


def gen_corner(ck: Check):
    """Yield (stream, W, H, items, list of x)."""
    rng, q = ck.rng, ck.quick
    # the canonical overhang scene and ALL orders/signs of its five items (thorough) or a sample of them (quick)
    W, H, items = 10, 12, [[5, 6, 1], [1, 1, 1], [4, 2, 1], [7, 2, 1], [1, 4, 1]]
    yield "overhang", W, H, items, [[1, 2, 3, 4, 5], [1, 2, 3, 4, -5], [2, 1, 3, 4, 5], [1, 3, 2, 4, 5], [4, 1, 2, 3, 5]]
    allp = list(c01.all_signed_perms(items))
    yield "overhang-perms", W, H, items, rng.sample(allp, 150 if q else len(allp))
    # the 4x4 overhang with a touching (but resting) item, and the docstring example of Liu & Teng
    yield "overhang", 4, 4, [[2, 2, 1], [3, 1, 1], [1, 2, 1], [1, 1, 2]], \
        [[1, 2, 3, 4, 4], [1, 2, 4, 3, 4], [1, 2, 4, 4, 3], [-1, 2, -3, 4, -4]]
    yield "docstring", 30, 30, [[10, 20, 5], [5, 5, 5]], [[1, -1, 2, -2, 1, -2, -2, -1, -1, 2]]
    for _ in range(150 if q else 1500):
        c = overhang_case(rng)
        if c:
            W, H, items, x = c
            xs = [x]
            if rng.random() < 0.5:     # also a disturbed order
                x2 = list(x)
                i, j = rng.randrange(len(x2)), rng.randrange(len(x2))
                x2[i], x2[j] = x2[j], x2[i]
                xs.append(x2)
            yield "overhang", W, H, items, xs
    for _ in range(4 if q else 60):
        c = overhang_case(rng, big=True)
        if c:
            yield "overhang-big", c[0], c[1], c[2], [c[3]]
    for _ in range(150 if q else 1500):
        c = support_case(rng)
        if c:
            W, H, items, x = c
            xs = [x, [-v for v in x]]
            x3 = list(x)
            rng.shuffle(x3)
            xs.append(x3)
            yield "supports", W, H, items, xs
    for _ in range(500 if q else 6000):
        c = tetris_case(rng, q)
        if c:
            W, H, items, x = c
            yield "tetris", W, H, items, [x] + [c01.signed_perm(rng, items) for _ in range(2)]
    # items as wide / as high as the bin, in all orders
    for W, H, items in ((5, 4, [[5, 1, 2], [1, 4, 1], [2, 2, 1]]), (3, 6, [[3, 2, 1], [1, 6, 2], [2, 3, 1]]),
                        (4, 4, [[4, 4, 1], [4, 1, 1], [1, 4, 1], [2, 2, 1]])):
        allp = list(c01.all_signed_perms(items))
        yield "bin-sized", W, H, items, allp if not q else rng.sample(allp, 40)


def gen_all(ck: Check):
    yield from gen_corner(ck)
    cap = 48 if ck.quick else 64      # C01 decodes ALL signed permutations of its small instances once; here every
    for stream, W, H, items, xs in c01.gen_instances(ck):   # permutation costs 4-7 decodes, so sample them
        if len(xs) > cap:
            xs = ck.rng.sample(xs, cap)
        yield stream, W, H, items, xs


# ----------------------------------------------------------------------------------------------------------------
def streams(ck: Check) -> None:
    import numpy as np
    from moptipyapps.binpacking2d.encodings.ibl_encoding_1 import ImprovedBottomLeftEncoding1
    from moptipyapps.binpacking2d.encodings.ibl_encoding_2 import ImprovedBottomLeftEncoding2
    from moptipyapps.binpacking2d.instance import Instance
    from moptipyapps.binpacking2d.packing import Packing
    rng = ck.rng
    ENC = (ImprovedBottomLeftEncoding1, ImprovedBottomLeftEncoding2)
    ops: list[str] = []
    ctx: list = []

    def scratch(enc):
        return enc._ImprovedBottomLeftEncoding2__bin_starts, enc._ImprovedBottomLeftEncoding2__bin_ends

    def one_decode(stream, W, H, items, inst, enc, ei, x, y, role, hist_len, fresh):
        """one `decode` call on whatever memory is there; logs the model op (B) and the spec op (C)"""
        n = inst.n_items
        y0 = [[int(v) for v in r] for r in y]
        head = c01.fmt_inst(W, H, items)
        if ei == 1:
            bs, be = scratch(enc)
            line = f"dec2 {head} ; {fmt_ints(x)} ; {fmt_matrix(y0)} ; {fmt_ints(bs)} ; {fmt_ints(be)}"
        else:
            line = f"dec1 {head} ; {fmt_ints(x)} ; {fmt_matrix(y0)}"
        enc.decode(np.array(x, dtype=inst.dtype if rng.random() < 0.5 else np.int64), y)
        rows = [[int(v) for v in r] for r in y]
        nb = int(y.n_bins)
        case = {"W": W, "H": H, "items": items, "x": list(x), "encoding": ei + 1, "history_len": hist_len}
        ops.append(line)
        ctx.append(("dec", stream, case, (rows, nb), None))
        ops.append(f"{'ff' if ei == 1 else 'nf'} {head} ; {fmt_ints(x)}")
        ctx.append(("spec", stream, case, (rows[:n], nb), fresh))
        ck.case(line, nontrivial=len(x) > 1)
        ck.count(f"{role}_enc{ei + 1}")
        return rows[:n], nb

    def flush():
        """run the Lean driver on the ops collected so far and evaluate B and C for them"""
        outs = ck.model(ops, drv="drv_c14")
        for line, (kind, stream, case, (rows, nb), fresh), mout in zip(ops, ctx, outs):
            d = kv(mout)
            e = case["encoding"]
            if kind == "dec":
                ck.compare(stream, line[:400], f"{d.get('rows', mout)} {d.get('nbins')}", f"{cmat(rows)} {nb}")
                continue
            info = dict(case, impl_rows=rows, impl_n_bins=nb, spec=mout[:600])
            if d.get("valid") != "true" or d.get("sperm") != "true":
                ck.compare(stream, line[:400], mout[:200], "valid=true sperm=true (generator must produce valid inputs)")
                continue
            ok_rule = d.get("rows") == cmat(rows) and d.get("nbins") == str(nb)
            if fresh is not None and fresh != (rows, nb):
                # the result depends on what was in memory before the call
                ck.spec(False, "stateless", f"encoding {e}: decoding after a history of {case['history_len']} other "
                        f"decodings (dirty destination / scratch arrays) differs from a fresh decode of the same permutation",
                        dict(info, fresh_rows=fresh[0], fresh_n_bins=fresh[1]))
            else:
                ck.spec(True, "stateless", "", None)
            ck.spec(ok_rule, f"rule_enc{e}",
                    f"encoding {e} does not produce the packing prescribed by the documented bottom-left rule "
                    f"(Lean spec IblSpec.{'nextFit' if e == 1 else 'firstFit'})", info)
        ops.clear()
        ctx.clear()

    for stream, W, H, items, xs in gen_all(ck):
        ck.count(stream)
        if len(ops) > 60000:
            flush()
        try:
            inst = Instance("i", W, H, items)
        except (ValueError, TypeError):
            ck.count("ctor_err")
            continue
        n = inst.n_items
        encs = [ENC[0](inst), ENC[1](inst)]
        y = Packing(inst)                       # ONE destination for all decodings of this instance, both encoders
        y[:, :] = np.array(c01.dirty_rows(rng, n, W, H, n), dtype=np.int64).astype(inst.dtype)
        for a in scratch(encs[1]):
            a[:] = 0                            # np.empty content is arbitrary; give the first call a defined input
        heavy = n > 40
        for x in xs:
            for ei in (0, 1):
                # the reference: a fresh encoder object and a fresh destination
                fenc, fy = ENC[ei](inst), Packing(inst)
                fy[:, :] = 0
                if ei == 1:
                    for a in scratch(fenc):
                        a[:] = 0
                fresh = one_decode(stream, W, H, items, inst, fenc, ei, x, fy, "fresh", 0, None)
                # the history: 0-3 decodes of OTHER permutations on the shared encoder object and destination
                hl = 0 if heavy else rng.choice((0, 1, 1, 2, 3))
                for _ in range(hl):
                    other = c01.signed_perm(rng, items)
                    k = rng.random()
                    hei = ei if k < 0.7 else 1 - ei       # mostly the same encoder; sometimes the other one dirties y
                    one_decode(stream, W, H, items, inst, encs[hei], hei, other, y, "history", -1, None)
                # the memory the decode under test finds: as the history left it, or garbage
                k = rng.random()
                if k < 0.35:
                    y[:, :] = np.array(c01.dirty_rows(rng, n, W, H, rng.randint(1, n)), dtype=np.int64).astype(inst.dtype)
                    ck.count("dest_garbage")
                else:
                    ck.count("dest_as_left")
                if ei == 1:
                    if rng.random() < 0.35:
                        bs, be = scratch(encs[1])
                        bs[:] = np.array([rng.randint(0, n) for _ in range(n)]).astype(inst.dtype)
                        be[:] = np.array([rng.randint(0, n) for _ in range(n)]).astype(inst.dtype)
                        ck.count("scratch_garbage")
                    else:
                        ck.count("scratch_as_left")
                ck.count(f"history_{hl}")
                res = one_decode(stream, W, H, items, inst, encs[ei], ei, x, y, "target", hl, fresh)
                ck.count(f"bins_{min(res[1], 5)}{'+' if res[1] >= 5 else ''}")
    flush()



def check(ck: Check) -> None:
    ck.rule = ("corner-case generators (overhang scenes incl. all orders/signs of the canonical 5-item scene [sampled in quick], "
               "support staircases with ties, dense small-coordinate 'tetris' instances, bin-sized items) + the C01 generator "
               "(sampled exhaustive small scope with ALL signed permutations, dtype thresholds, random, shipped); every "
               "permutation decoded by both encodings (a) with a fresh encoder and destination and (b) after a history of 0-3 "
               "decodes of other permutations on one shared encoder object and one shared destination, destination and scratch "
               "arrays as left or overwritten with garbage; every call replayed by the Lean model on the memory it found and "
               "compared with the Lean specification; non-trivial = more than one item; distinct by protocol line")
    ck.assumptions += [
        "numba compiles the kernels as written (int64 arithmetic on loaded values; no wrap: range theorems of C01)",
        "rows >= i of the destination are never read by the kernels (loop bounds; exercised by dirty destinations)",
        "the documentation is read as formalised in lean/Model/IblSpec.lean (falls stop at the highest top edge of items "
        "sharing x-range that are not above; left slides stop at the wall, at an item to the left sharing y-range, or where "
        "the right edge reaches the left end of an item directly beneath)",
    ]
    ck.lean(["Props.C14"], THEOREMS)
    streams(ck)
