"""C18 defect: write/read round trip failed for distances in (1e12, 1e15]: Instance accepts them, to_stream writes them,
but the TSPLIB tokeniser rejected integer tokens beyond +-1e12."""
import numpy as np
from moptipyapps.tsp.instance import Instance, _from_stream
inst = Instance("x", 0, np.array([[0, 2 * 10**12], [2 * 10**12, 0]], dtype=np.int64))
text = []
inst.to_stream(text.append)
try:
    back = _from_stream(iter(text), None)
    assert np.asarray(back).tolist() == np.asarray(inst).tolist()
    print("round trip ok")
except ValueError as e:
    print("ROUND TRIP FAILS (defect):", e); raise SystemExit(1)
