"""C13 defect: a plan in which the last team is listed against itself indexes temp_1 one past its end."""
import os, sys
os.environ["NUMBA_BOUNDSCHECK"] = "1"
os.environ.setdefault("NUMBA_CACHE_DIR", "/verif/.work/numba-bc-demo")
import numpy as np
from moptipyapps.ttp.errors import count_errors
y = np.array([[2, -1, 4, 4]], int)   # team 4 "plays at home against team 4"
try:
    e = count_errors(y, 1, 3, 1, 3, 1, 2, np.empty(6, int), np.empty((4, 4), int))
    print("errors =", e)
    assert e > 0
except IndexError as ex:
    print("IndexError (defect):", ex); raise SystemExit(1)
