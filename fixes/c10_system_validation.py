"""C10 defect: System.__init__ accepted negative / NaN gamma and non-positive / NaN simulation times
(`(not isfinite(v)) and v > ...` only rejects +inf): negative figure of merit, backwards integration."""
import numpy as np
from moptipyapps.dynamic_control.system import System
st = np.array([[1.0, 0.0]])
bad = []
for k, v in (("gamma", -1.0), ("gamma", float("nan")), ("test_time", -5.0), ("training_time", float("nan")),
             ("test_time", 0.0)):
    kw = {"gamma": v} if k == "gamma" else {"gamma": 0.1, k: v}
    try:
        System("x", 2, 1, 0, -1, **kw, test_starting_states=st, training_starting_states=st)
        bad.append((k, v))
    except ValueError:
        pass
print("accepted invalid:", bad)
raise SystemExit(1 if bad else 0)
