"""C19 reproduction: PackingResult / PackingStatistics CSV round trip renames the bin-bound keys.
run: /venv/bin/python repro_binbounds_keys.py     (expects exit 1 on the unrepaired tree)"""
import os, sys, tempfile
sys.path.insert(0, os.environ.get("VERIF_REPO", "/repo"))
from moptipy.evaluation.end_results import EndResult
from moptipyapps.binpacking2d import packing_result as pr
from moptipyapps.binpacking2d import packing_statistics as ps

er = EndResult("a1", "inst1", "binCount", "ibl1", 1234, 5, 3, 4, 10, 20, None, None, None)
bb = {"bins.lowerBound": 2, "bins.lowerBound.geometric": 2, "bins.lowerBound.damv": 1}  # = keys of _DEFAULT_BOUNDS
r = pr.PackingResult(er, 10, 5, 100, 50, {"binCount": 5}, {"binCount.lowerBound": 1, "binCount.upperBound": 10}, bb)
d = tempfile.mkdtemp()
pr.to_csv([r], d + "/r.csv")
back = list(pr.from_csv(d + "/r.csv"))[0]
print("written :", dict(r.bin_bounds))
print("readback:", dict(back.bin_bounds))
st = []
ps.from_packing_results([r], st.append)
ps.to_csv(st, d + "/s.csv")
sback = list(ps.from_csv(d + "/s.csv"))[0]
print("stat written :", dict(st[0].bin_bounds))
print("stat readback:", dict(sback.bin_bounds))
ok = dict(back.bin_bounds) == bb and dict(sback.bin_bounds) == bb
# second generation: the renamed keys are no longer in scope and are lost / make the reader fail
try:
    pr.to_csv([back], d + "/r2.csv")
    print("2nd generation:", dict(list(pr.from_csv(d + "/r2.csv"))[0].bin_bounds))
except Exception as e:  # noqa
    print("2nd generation fails:", type(e).__name__, e)
sys.exit(0 if ok else 1)
