"""C09 defect: the storage type was chosen from the upper bound only, so matrix entries above it were truncated."""
import numpy as np
from moptipyapps.qap.instance import Instance
d = np.array([[0, 300], [70000, 0]], np.int64)
f = np.zeros((2, 2), np.int64)
i = Instance(d, f)
print(i.distances.dtype, i.distances.tolist())
ok = i.distances.tolist() == d.tolist()
# second form: a given upper bound (e.g. a best-known solution) below the largest entry
d2 = np.array([[0, 1], [1, 0]], np.int64); f2 = np.array([[0, 1000], [0, 0]], np.int64)
i2 = Instance(d2, f2, upper_bound=1000)
i3 = Instance(np.array([[0, 0, 1], [0, 0, 1], [1, 1, 0]], np.int64), np.array([[0, 500, 0], [500, 0, 0], [0, 0, 0]], np.int64), upper_bound=100)
print(i3.flows.dtype, i3.flows.tolist())
ok = ok and i3.flows.tolist() == [[0, 500, 0], [500, 0, 0], [0, 0, 0]]
if not ok:
    print("stored matrices differ from the given ones (defect)"); raise SystemExit(1)
