"""C16 defect: 3-/4-anchor partially linear controllers compared every anchor with the FIRST anchor's distance."""
import numpy as np
from moptipyapps.dynamic_control.controllers.partially_linear import partially_linear
from moptipyapps.dynamic_control.systems.stuart_landau import STUART_LANDAU_4
cs = {c.name: c for c in partially_linear(STUART_LANDAU_4)}
c = cs["linear_3"]
# state (0,0); anchors: a1=(10,0) d=100 ; a2=(1,0) d=1 (nearest) ; a3=(5,0) d=25 (< d(a1) but > d(a2))
p = np.array([10, 0, 1, 1,   1, 0, 2, 2,   5, 0, 3, 3], float)
out = np.zeros(1)
c.controller(np.array([1.0, 1.0]) * 0 + np.array([0.5, 0.25]), 0.0, p, out)
# nearest anchor of (0.5,0.25) is a2 -> law 2*(s0+s1) = 1.5 ; defect gives law 3 -> 2.25
print("out =", out[0])
if out[0] != 1.5:
    print("not the nearest anchor's law (defect)"); raise SystemExit(1)
