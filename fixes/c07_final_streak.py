"""C07 defect: a streak still open on the last day was never compared with the minimum streak length."""
import numpy as np
from moptipyapps.ttp.errors import count_errors
# two teams, 4 days: A: away, home, away(x)...  construct: team 1 plays H A A H? use min=2
# plan (days x teams): day0: 1 home vs 2 ; day1: 1 away ; day2: 1 away ; day3: 1 home  -> final home streak of length 1 < 2
y = np.array([[2, -1], [-2, 1], [-2, 1], [2, -1]], int)
full = count_errors(y, 2, 4, 2, 4, 0, 8, np.empty(1, int), np.empty((2, 2), int))
# the first streak (length 1, home for team 1; away for team 2) is counted: 1 + 1; the final ones must be counted too: +1 +1
print("errors =", full)
if full != 4:
    print("final streaks not counted (defect)"); raise SystemExit(1)
