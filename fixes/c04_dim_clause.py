"""C04 defect: PackingSpace.validate accepted a 5x7 rectangle for a 10x5 item."""
import numpy as np
from moptipyapps.binpacking2d.instance import Instance
from moptipyapps.binpacking2d.packing import Packing
from moptipyapps.binpacking2d.packing_space import PackingSpace
inst = Instance("x", 20, 20, [[10, 5, 1]])
p = Packing(inst)
p[0, :] = [1, 1, 0, 0, 5, 7]   # id, bin, left, bottom, right, top -> 5 wide, 7 high
p.n_bins = 1
try:
    PackingSpace(inst).validate(p)
    print("ACCEPTED (defect)"); raise SystemExit(1)
except ValueError as e:
    print("rejected:", str(e)[:60])
