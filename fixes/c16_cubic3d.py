"""C16 defect: the 3-D cubic controller declares 19 parameters but never used the last one (monomial s0*s1*s2 missing)."""
import numpy as np
from moptipyapps.dynamic_control.controllers.cubic import cubic
from moptipyapps.dynamic_control.systems.lorenz import LORENZ_4
c = cubic(LORENZ_4)
out = np.zeros(1)
p = np.zeros(c.param_dims); p[18] = 1.0
c.controller(np.array([2.0, 3.0, 5.0]), 0.0, p, out)
print("param_dims", c.param_dims, "f(2,3,5; e18) =", out[0])
if out[0] != 30.0:
    print("parameter 18 has no effect / s0*s1*s2 missing (defect)"); raise SystemExit(1)
