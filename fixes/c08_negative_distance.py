"""C08/C05 defect: the TSP/TTP Instance constructor accepted negative distances, for which the declared
bounds of the travel-length objective and the bye-penalty clause fail."""
import numpy as np
from moptipyapps.ttp.instance import Instance
from moptipyapps.ttp.game_plan import GamePlan
from moptipyapps.ttp.plan_length import GamePlanLength
M = np.array([[0, 5, -3, 5], [1, 0, 5, 1], [1, 1, 0, 1], [1, 1, 1, 0]])
try:
    inst = Instance("neg4", M, list("abcd"), 1, 1, 3, 1, 3, 1, 3)
except ValueError as e:
    print("rejected:", str(e)[:70]); raise SystemExit(0)
f = GamePlanLength(inst)
x = GamePlan(inst); x[:] = [[-3, 1, 1, 1], [2, 1, 1, 1], [2, 1, 1, 1]]
print("accepted; plan length", f.evaluate(x), "< lower bound", f.lower_bound(), "(defect)")
raise SystemExit(1)
