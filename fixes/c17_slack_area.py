"""C17 defect: slack cuts never reduced current_area, so >= 2 slack pairs could cut the total item area
down to (min_bins-1)*bin_area or less and the decoded instance needed fewer bins than the template."""
import numpy as np
from moptipyapps.binpacking2d.instance import Instance
from moptipyapps.binpacking2d.instgen.instance_space import InstanceSpace
from moptipyapps.binpacking2d.instgen.inst_decoding import InstanceDecoder
tpl = Instance("tpl", 10, 10, [[5, 5, 3], [10, 5, 1], [5, 10, 1], [3, 3, 2]])
space = InstanceSpace(tpl)
dec = InstanceDecoder(space)
print("template: n_items", tpl.n_items, "min_bins", space.min_bins)
rng = np.random.default_rng(7)
bad = None
for slack in (2, 3, 4):
    d = 2 * (tpl.n_items - space.min_bins) + 2 * slack
    for _ in range(400):
        x = rng.uniform(-1, 1, d)
        y = []
        dec.decode(x, y)
        r = y[0]
        if r.lower_bound_bins != space.min_bins or r.total_item_area <= (space.min_bins - 1) * 100:
            bad = (slack, x.tolist(), r.total_item_area, r.lower_bound_bins)
            break
    if bad:
        break
if bad:
    print("slack pairs", bad[0], "area", bad[2], "lower_bound_bins", bad[3], "(defect)")
    raise SystemExit(1)
print("all decoded instances keep the template's bin need")
