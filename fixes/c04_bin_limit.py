"""C04 defect: validate rejected every packing of an instance whose bin is wider than 1e9 (Instance allows 1e12)."""
from moptipyapps.binpacking2d.instance import Instance
from moptipyapps.binpacking2d.packing import Packing
from moptipyapps.binpacking2d.packing_space import PackingSpace
inst = Instance("x", 2_000_000_000, 10, [[10, 5, 1]])
p = Packing(inst)
p[0, :] = [1, 1, 0, 0, 10, 5]
p.n_bins = 1
try:
    PackingSpace(inst).validate(p)
    print("accepted")
except ValueError as e:
    print("REJECTED feasible packing (defect):", str(e)[:80]); raise SystemExit(1)
