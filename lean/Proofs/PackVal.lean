import Model.PackVal
import Proofs.ListLemmas
import Std.Data.String.ToInt
/-!
Helper lemmas for C04 (`Props/C04.lean`): the validator model accepts exactly `Pack.Feasible`.
Core + Std only.
-/
namespace PackVal
open Base Pack ListLemmas

/-! ### instance lookups -/

theorem item?_succ (I : Inst) (i : Nat) : I.item? ((i : Int) + 1) = I.items[i]? := by
  unfold Inst.item?
  have h : ¬ ((i : Int) + 1 ≤ 0) := by omega
  simp only [h, if_false]
  congr 1
  omega

theorem item?_some_range (I : Inst) (id : Int) (it : Item) (h : I.item? id = some it) :
    1 ≤ id ∧ id ≤ (I.nTypes : Int) ∧ it ∈ I.items := by
  unfold Inst.item? at h
  split at h
  · simp at h
  · have hm := List.mem_of_getElem? h
    have hl := (List.getElem?_eq_some_iff.mp h).1
    unfold Inst.nTypes
    refine ⟨by omega, by omega, hm⟩

theorem item?_of_range (I : Inst) (id : Int) (h1 : 1 ≤ id) (h2 : id ≤ (I.nTypes : Int)) :
    ∃ it, I.item? id = some it := by
  unfold Inst.item?
  unfold Inst.nTypes at h2
  have h : ¬ (id ≤ 0) := by omega
  simp only [h, if_false]
  have hl : (id - 1).toNat < I.items.length := by omega
  exact ⟨_, List.getElem?_eq_getElem hl⟩

/-! ### the row loop -/

theorem bind_ok_iff (x : Except Err Unit) (f : Unit → Except Err Unit) :
    (x >>= f) = .ok () ↔ x = .ok () ∧ f () = .ok () := by
  cases x with
  | error e => simp [bind, Except.bind]
  | ok u => cases u; simp [bind, Except.bind]

theorem checkRowsFrom_ok (I : Inst) (all : List Row) : ∀ (rest : List Row) (i : Nat),
    checkRowsFrom I all i rest = .ok () ↔
      ∀ k (h : k < rest.length), checkRow I all (i + k) rest[k] = .ok () := by
  intro rest
  induction rest with
  | nil => intro i; simp [checkRowsFrom]
  | cons a t ih =>
    intro i
    simp only [checkRowsFrom, bind_ok_iff, ih]
    constructor
    · rintro ⟨h1, h2⟩ k hk
      cases k with
      | zero => simpa using h1
      | succ k =>
        have := h2 k (by simpa using hk)
        simpa [Nat.add_assoc, Nat.add_comm 1 k] using this
    · intro h
      have h0 := h 0 (by simp)
      simp only [List.getElem_cons_zero, Nat.add_zero] at h0
      refine ⟨h0, fun k hk => ?_⟩
      have := h (k + 1) (by simpa using hk)
      simpa [Nat.add_assoc, Nat.add_comm 1 k] using this

theorem overlaps_false_iff (a c : Row) : overlaps a c = false ↔ a.Disjoint c := by
  unfold overlaps Row.Disjoint
  simp only [Bool.and_eq_false_iff, decide_eq_false_iff_not]
  omega

theorem firstOverlap_none (all : List Row) (i : Nat) (a : Row) :
    firstOverlap all i a = none ↔
      ∀ j (h : j < all.length), j ≠ i → all[j].bin = a.bin → a.Disjoint all[j] := by
  unfold firstOverlap
  rw [Option.map_eq_none_iff, List.find?_eq_none]
  constructor
  · intro h j hj hne hb
    have := h (all[j], j) (by rw [List.mem_zipIdx_iff_getElem?]; simp [hj])
    rw [← overlaps_false_iff]
    simp at this
    cases hov : overlaps a all[j] with
    | false => rfl
    | true =>
      have h3 := this hb (by omega)
      rw [h3] at hov; exact absurd hov (by simp)
  · intro h x hx
    rw [List.mem_zipIdx_iff_getElem?] at hx
    obtain ⟨hl, hx⟩ := List.getElem?_eq_some_iff.mp hx
    simp only [Bool.and_eq_true, Bool.not_eq_true', Bool.or_eq_false_iff,
      decide_eq_false_iff_not, not_and, Bool.not_eq_true, and_imp]
    intro hb hi
    rw [overlaps_false_iff, ← hx]
    exact h x.2 hl (by omega) (by rw [hx]; simpa using hb)

theorem checkRow_ok (I : Inst) (all : List Row) (i : Nat) (a : Row) :
    checkRow I all i a = .ok () ↔
      (1 ≤ a.id ∧ a.id ≤ (I.nTypes : Int)) ∧ (1 ≤ a.bin ∧ a.bin ≤ I.nItems) ∧
      (a.l < a.r ∧ a.b < a.t) ∧ (0 ≤ a.l ∧ 0 ≤ a.b ∧ a.r ≤ I.W ∧ a.t ≤ I.H) ∧
      (∃ it, I.item? a.id = some it ∧ a.HasDims it) ∧ firstOverlap all i a = none := by
  unfold checkRow
  by_cases h1 : a.id ≤ 0 ∨ a.id > (I.nTypes : Int)
  · simp only [h1, if_true]; constructor
    · intro h; cases h
    · intro h; omega
  simp only [h1, if_false]
  by_cases h2 : a.bin ≤ 0 ∨ a.bin > I.nItems
  · simp only [h2, if_true]; constructor
    · intro h; cases h
    · intro h; omega
  simp only [h2, if_false]
  by_cases h3 : a.l ≥ a.r ∨ a.b ≥ a.t
  · simp only [h3, if_true]; constructor
    · intro h; cases h
    · intro h; omega
  simp only [h3, if_false]
  by_cases h4 : a.l < 0 ∨ a.b < 0 ∨ a.r > I.W ∨ a.t > I.H
  · simp only [h4, if_true]; constructor
    · intro h; cases h
    · intro h; omega
  simp only [h4, if_false]
  obtain ⟨it, hit⟩ := item?_of_range I a.id (by omega) (by omega)
  simp only [hit]
  by_cases h5 : (a.r - a.l ≠ it.w ∨ a.t - a.b ≠ it.h) ∧ (a.r - a.l ≠ it.h ∨ a.t - a.b ≠ it.w)
  · simp only [h5]; constructor
    · intro h; cases h
    · rintro ⟨_, _, _, _, ⟨it', h6, h7⟩, _⟩
      cases h6
      unfold Row.HasDims at h7
      omega
  simp only [h5, if_false]
  have hd : a.HasDims it := by unfold Row.HasDims; omega
  cases h6 : firstOverlap all i a with
  | some j => simp
  | none =>
    simp only [true_iff]
    exact ⟨by omega, by omega, by omega, by omega, ⟨it, rfl, hd⟩, trivial⟩

theorem disjoint_symm (a c : Row) : a.Disjoint c → c.Disjoint a := by
  unfold Row.Disjoint; omega

/-- the inner overlap loop, run for every row, is pairwise disjointness inside each bin -/
theorem overlap_loop_iff_pairwise' (all : List Row) :
    (∀ i (h : i < all.length), firstOverlap all i all[i] = none) ↔
      all.Pairwise (fun a c => a.bin = c.bin → a.Disjoint c) := by
  rw [List.pairwise_iff_getElem]
  constructor
  · intro h i j hi hj hij hb
    exact (firstOverlap_none all i all[i]).mp (h i hi) j hj (by omega) hb.symm
  · intro h i hi
    rw [firstOverlap_none]
    intro j hj hne hb
    rcases Nat.lt_or_gt_of_ne hne with hlt | hgt
    · exact disjoint_symm _ _ (h j i hj hi hlt hb)
    · exact h i j hi hj hgt hb.symm

/-! ### multiplicities -/

theorem firstBadMult_none (I : Inst) (rows : List Row) :
    firstBadMult I rows = none ↔
      ∀ a ∈ rows, ∃ it, I.item? a.id = some it ∧ it.rep = (count rows a.id : Int) := by
  unfold firstBadMult
  rw [List.find?_eq_none]
  constructor
  · intro h a ha
    have := h a ha
    cases hit : I.item? a.id with
    | none => simp [hit] at this
    | some it => simp [hit] at this; exact ⟨it, rfl, this⟩
  · intro h a ha
    obtain ⟨it, h1, h2⟩ := h a ha
    simp [h1, h2]

theorem sum_map_add (l : List Nat) (f g : Nat → Int) :
    (l.map (fun i => f i + g i)).sum = (l.map f).sum + (l.map g).sum := by
  induction l with
  | nil => simp
  | cons a t ih => simp only [List.map_cons, List.sum_cons, ih]; omega

theorem sum_indicator (n j : Nat) :
    ((List.range n).map (fun i => if i = j then (1 : Int) else 0)).sum = if j < n then 1 else 0 := by
  induction n with
  | zero => simp
  | succ n ih =>
    rw [List.range_succ, List.map_append, List.sum_append, ih]
    simp only [List.map_cons, List.map_nil, List.sum_cons, List.sum_nil]
    by_cases h1 : j < n
    · have : ¬ n = j := by omega
      simp [h1, this]; omega
    · by_cases h2 : n = j
      · simp [h2]
      · have : ¬ j < n + 1 := by omega
        simp [h1, h2, this]

theorem count_cons (a : Row) (rows : List Row) (id : Int) :
    (count (a :: rows) id : Int) = (count rows id : Int) + (if a.id = id then 1 else 0) := by
  unfold count
  by_cases h : a.id = id <;> simp [h]

/-- every row carries an id in `1..n`  ⇒  the counts of the ids `1..n` add up to the row count -/
theorem sum_counts (rows : List Row) (n : Nat) (h : ∀ a ∈ rows, 1 ≤ a.id ∧ a.id ≤ (n : Int)) :
    ((List.range n).map (fun i : Nat => (count rows ((i : Int) + 1) : Int))).sum = rows.length := by
  induction rows with
  | nil =>
    have : ∀ l : List Nat, (l.map (fun _ : Nat => (0 : Int))).sum = 0 := by
      intro l; induction l with
      | nil => rfl
      | cons _ _ ih => simp [ih]
    simpa [count] using this _
  | cons a t ih =>
    have ha := h a (by simp)
    have := ih (fun b hb => h b (by simp [hb]))
    have hj : ((List.range n).map (fun i : Nat => if a.id = (i : Int) + 1 then (1 : Int) else 0)).sum = 1 := by
      have : (fun i : Nat => if a.id = (i : Int) + 1 then (1 : Int) else 0)
          = (fun i : Nat => if i = (a.id - 1).toNat then (1 : Int) else 0) := by
        funext i
        by_cases hh : a.id = (i : Int) + 1
        · have : i = (a.id - 1).toNat := by omega
          rw [if_pos hh, if_pos this]
        · have : ¬ i = (a.id - 1).toNat := by omega
          rw [if_neg hh, if_neg this]
      rw [this, sum_indicator]
      have : (a.id - 1).toNat < n := by omega
      rw [if_pos this]
    have e : (fun i : Nat => (count (a :: t) ((i : Int) + 1) : Int))
        = (fun i : Nat => (count t ((i : Int) + 1) : Int) + (if a.id = (i : Int) + 1 then 1 else 0)) := by
      funext i; exact count_cons a t _
    rw [e, sum_map_add, this, hj, List.length_cons]; omega

theorem sum_eq_of_le {α} (l : List α) (f g : α → Int) (hle : ∀ a ∈ l, f a ≤ g a)
    (hs : (l.map f).sum = (l.map g).sum) : ∀ a ∈ l, f a = g a := by
  induction l with
  | nil => simp
  | cons a t ih =>
    simp only [List.map_cons, List.sum_cons] at hs
    have h1 := hle a (by simp)
    have h2 := sum_map_le t f g (fun b hb => hle b (by simp [hb]))
    have h3 := ih (fun b hb => hle b (by simp [hb])) (by omega)
    intro b hb
    rcases List.mem_cons.mp hb with rfl | hb
    · omega
    · exact h3 b hb

theorem sum_map_range_getD (l : List Item) (f : Item → Int) :
    (l.map f).sum = ((List.range l.length).map (fun i => f (l.getD i default))).sum := by
  induction l with
  | nil => simp
  | cons a t ih =>
    rw [List.length_cons, List.range_succ_eq_map, List.map_cons, List.map_cons, List.map_map,
      List.sum_cons, List.sum_cons, ih]
    simp [Function.comp_def]

theorem count_pos_mem (rows : List Row) (id : Int) (h : 0 < count rows id) : ∃ a ∈ rows, a.id = id := by
  unfold count at h
  obtain ⟨a, ha⟩ := List.exists_mem_of_length_pos h
  rw [List.mem_filter] at ha
  exact ⟨a, ha.1, by simpa using ha.2⟩

/-- **Checking only the ids that occur suffices**: if every row id is valid, every id that occurs
occurs as often as prescribed, and there are `n_items = Σ rep` rows, then *every* id `1..n_types`
has its prescribed count (no id can be missing, as every repetition is at least 1). -/
theorem mult_check_suffices' (I : Inst) (rows : List Row)
    (hrep : ∀ it ∈ I.items, 1 ≤ it.rep) (hlen : (rows.length : Int) = I.nItems)
    (hid : ∀ a ∈ rows, 1 ≤ a.id ∧ a.id ≤ (I.nTypes : Int))
    (hocc : ∀ a ∈ rows, ∃ it, I.item? a.id = some it ∧ it.rep = (count rows a.id : Int)) :
    ∀ i ∈ List.range I.nTypes, (count rows ((i : Int) + 1) : Int) = (I.items.getD i default).rep := by
  apply sum_eq_of_le
  · intro i hi
    rw [List.mem_range] at hi
    unfold Inst.nTypes at hi
    have hg : I.items.getD i default = I.items[i] := by
      simp [List.getD_eq_getElem?_getD, List.getElem?_eq_getElem hi]
    by_cases h0 : count rows ((i : Int) + 1) = 0
    · have := hrep I.items[i] (List.getElem_mem hi)
      rw [hg, h0]; omega
    · obtain ⟨a, ha, hai⟩ := count_pos_mem rows _ (Nat.pos_of_ne_zero h0)
      obtain ⟨it, h1, h2⟩ := hocc a ha
      rw [hai, item?_succ, List.getElem?_eq_getElem hi] at h1
      cases h1
      rw [hg, h2, hai]; omega
  · rw [sum_counts rows I.nTypes hid, hlen]
    unfold Inst.nItems Inst.nTypes
    exact sum_map_range_getD I.items (·.rep)

/-! ### the set of bins -/

theorem mem_binSet (l : List Int) (v : Int) : v ∈ binSet l ↔ v ∈ l := by
  induction l with
  | nil => simp [binSet]
  | cons b t ih => simp only [binSet, List.mem_insert_iff, ih, List.mem_cons]

theorem nodup_binSet (l : List Int) : (binSet l).Nodup := by
  induction l with
  | nil => simp [binSet]
  | cons b t ih =>
    simp only [binSet]
    by_cases h : b ∈ binSet t
    · rw [List.insert_of_mem h]; exact ih
    · rw [List.insert_of_not_mem h]; exact List.nodup_cons.mpr ⟨h, ih⟩

theorem length_binSet_le (l : List Int) : (binSet l).length ≤ l.length := by
  induction l with
  | nil => simp [binSet]
  | cons b t ih =>
    simp only [binSet, List.length_cons]
    by_cases h : b ∈ binSet t
    · rw [List.insert_of_mem h]; omega
    · rw [List.insert_of_not_mem h, List.length_cons]; omega

/-- pigeonhole: a duplicate-free list of integers from `1..m` has at most `m` elements -/
theorem nodup_range_length_le : ∀ (m : Nat) (s : List Int), s.Nodup →
    (∀ v ∈ s, 1 ≤ v ∧ v ≤ (m : Int)) → s.length ≤ m := by
  intro m
  induction m with
  | zero =>
    intro s _ h
    cases s with
    | nil => simp
    | cons a t => have := h a (by simp); omega
  | succ m ih =>
    intro s hn h
    by_cases hm : ((m : Int) + 1) ∈ s
    · have h1 := ih (s.erase ((m : Int) + 1)) (hn.erase _) (fun v hv => by
        have hv' := (hn.mem_erase_iff.mp hv)
        have := h v hv'.2
        have hne : v ≠ (m : Int) + 1 := hv'.1
        omega)
      rw [List.length_erase_of_mem hm] at h1
      omega
    · have h1 := ih s hn (fun v hv => by
        have := h v hv
        have hne : v ≠ (m : Int) + 1 := fun e => hm (e ▸ hv)
        omega)
      omega

/-- a list containing all of `1..k` has at least `k` elements -/
theorem length_ge_of_range_subset : ∀ (k : Nat) (s : List Int),
    (∀ v : Int, 1 ≤ v → v ≤ (k : Int) → v ∈ s) → k ≤ s.length := by
  intro k
  induction k with
  | zero => intros; omega
  | succ k ih =>
    intro s h
    have hm : ((k : Int) + 1) ∈ s := h _ (by omega) (by omega)
    have h1 := ih (s.erase ((k : Int) + 1)) (fun v h1 h2 =>
      (List.mem_erase_of_ne (by omega)).mpr (h v h1 (by omega)))
    rw [List.length_erase_of_mem hm] at h1
    have : 0 < s.length := List.length_pos_of_mem hm
    omega

/-- a duplicate-free list of `m` integers from `1..m` contains all of `1..m` -/
theorem nodup_range_full (m : Nat) (s : List Int) (hn : s.Nodup)
    (h : ∀ v ∈ s, 1 ≤ v ∧ v ≤ (m : Int)) (hl : m ≤ s.length) :
    ∀ v : Int, 1 ≤ v → v ≤ (m : Int) → v ∈ s := by
  intro v h1 h2
  apply Classical.byContradiction
  intro hv
  have := nodup_range_length_le m (v :: s) (List.nodup_cons.mpr ⟨hv, hn⟩) (fun w hw => by
    rcases List.mem_cons.mp hw with rfl | hw
    · exact ⟨h1, h2⟩
    · exact h w hw)
  simp at this
  omega

/-- **`min = 1 ∧ max − min + 1 = len`  ⇔  the set of bins is exactly `{1..len}`** -/
theorem bins_contiguous_iff' (s : List Int) (hn : s.Nodup) (mn mx : Int)
    (hmin : s.min? = some mn) (hmax : s.max? = some mx) :
    (mn = 1 ∧ mx - mn + 1 = (s.length : Int)) ↔ ∀ v : Int, v ∈ s ↔ 1 ≤ v ∧ v ≤ (s.length : Int) := by
  rw [List.min?_eq_some_iff] at hmin
  rw [List.max?_eq_some_iff] at hmax
  obtain ⟨hmn, hmin⟩ := hmin
  obtain ⟨hmx, hmax⟩ := hmax
  constructor
  · rintro ⟨h1, h2⟩ v
    have hin : ∀ w ∈ s, 1 ≤ w ∧ w ≤ (s.length : Int) := fun w hw => by
      have := hmin w hw; have := hmax w hw; omega
    exact ⟨hin v, fun ⟨a, b⟩ => nodup_range_full s.length s hn hin (Nat.le_refl _) v a b⟩
  · intro h
    have hpos : 0 < s.length := List.length_pos_of_mem hmn
    have a1 := (h mn).mp hmn
    have a2 := (h mx).mp hmx
    have a3 := hmin 1 ((h 1).mpr ⟨by omega, by omega⟩)
    have a4 := hmax (s.length : Int) ((h _).mpr ⟨by omega, by omega⟩)
    omega

end PackVal
