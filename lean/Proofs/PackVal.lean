import Model.PackVal
import Proofs.ListLemmas
import Std.Data.String.ToInt
/-!
Helper lemmas for C04 (`Props/C04.lean`): the validator model accepts exactly `Pack.Feasible`.
Core + Std only.
-/
namespace PackVal
open Base Pack ListLemmas

/-! ### instance lookups -/

theorem item?_succ (I : Inst) (i : Nat) : I.item? ((i : Int) + 1) = I.items[i]? := by
  unfold Inst.item?
  have h : ¬ ((i : Int) + 1 ≤ 0) := by omega
  simp only [h, if_false]
  congr 1
  omega

theorem item?_some_range (I : Inst) (id : Int) (it : Item) (h : I.item? id = some it) :
    1 ≤ id ∧ id ≤ (I.nTypes : Int) ∧ it ∈ I.items := by
  unfold Inst.item? at h
  split at h
  · simp at h
  · have hm := List.mem_of_getElem? h
    have hl := (List.getElem?_eq_some_iff.mp h).1
    unfold Inst.nTypes
    refine ⟨by omega, by omega, hm⟩

theorem item?_of_range (I : Inst) (id : Int) (h1 : 1 ≤ id) (h2 : id ≤ (I.nTypes : Int)) :
    ∃ it, I.item? id = some it := by
  unfold Inst.item?
  unfold Inst.nTypes at h2
  have h : ¬ (id ≤ 0) := by omega
  simp only [h, if_false]
  have hl : (id - 1).toNat < I.items.length := by omega
  exact ⟨_, List.getElem?_eq_getElem hl⟩

/-! ### the row loop -/

theorem bind_ok_iff (x : Except Err Unit) (f : Unit → Except Err Unit) :
    (x >>= f) = .ok () ↔ x = .ok () ∧ f () = .ok () := by
  cases x with
  | error e => simp [bind, Except.bind]
  | ok u => cases u; simp [bind, Except.bind]

theorem checkRowsFrom_ok (I : Inst) (all : List Row) : ∀ (rest : List Row) (i : Nat),
    checkRowsFrom I all i rest = .ok () ↔
      ∀ k (h : k < rest.length), checkRow I all (i + k) rest[k] = .ok () := by
  intro rest
  induction rest with
  | nil => intro i; simp [checkRowsFrom]
  | cons a t ih =>
    intro i
    simp only [checkRowsFrom, bind_ok_iff, ih]
    constructor
    · rintro ⟨h1, h2⟩ k hk
      cases k with
      | zero => simpa using h1
      | succ k =>
        have := h2 k (by simpa using hk)
        simpa [Nat.add_assoc, Nat.add_comm 1 k] using this
    · intro h
      have h0 := h 0 (by simp)
      simp only [List.getElem_cons_zero, Nat.add_zero] at h0
      refine ⟨h0, fun k hk => ?_⟩
      have := h (k + 1) (by simpa using hk)
      simpa [Nat.add_assoc, Nat.add_comm 1 k] using this

theorem overlaps_false_iff (a c : Row) : overlaps a c = false ↔ a.Disjoint c := by
  unfold overlaps Row.Disjoint
  simp only [Bool.and_eq_false_iff, decide_eq_false_iff_not]
  omega

theorem firstOverlap_none (all : List Row) (i : Nat) (a : Row) :
    firstOverlap all i a = none ↔
      ∀ j (h : j < all.length), j ≠ i → all[j].bin = a.bin → a.Disjoint all[j] := by
  unfold firstOverlap
  rw [Option.map_eq_none_iff, List.find?_eq_none]
  constructor
  · intro h j hj hne hb
    have := h (all[j], j) (by rw [List.mem_zipIdx_iff_getElem?]; simp [hj])
    rw [← overlaps_false_iff]
    simp at this
    cases hov : overlaps a all[j] with
    | false => rfl
    | true =>
      have h3 := this hb (by omega)
      rw [h3] at hov; exact absurd hov (by simp)
  · intro h x hx
    rw [List.mem_zipIdx_iff_getElem?] at hx
    obtain ⟨hl, hx⟩ := List.getElem?_eq_some_iff.mp hx
    simp only [Bool.and_eq_true, Bool.not_eq_true', Bool.or_eq_false_iff,
      decide_eq_false_iff_not, not_and, Bool.not_eq_true, and_imp]
    intro hb hi
    rw [overlaps_false_iff, ← hx]
    exact h x.2 hl (by omega) (by rw [hx]; simpa using hb)

theorem checkRow_ok (I : Inst) (all : List Row) (i : Nat) (a : Row) :
    checkRow I all i a = .ok () ↔
      (1 ≤ a.id ∧ a.id ≤ (I.nTypes : Int)) ∧ (1 ≤ a.bin ∧ a.bin ≤ I.nItems) ∧
      (a.l < a.r ∧ a.b < a.t) ∧ (0 ≤ a.l ∧ 0 ≤ a.b ∧ a.r ≤ I.W ∧ a.t ≤ I.H) ∧
      (∃ it, I.item? a.id = some it ∧ a.HasDims it) ∧ firstOverlap all i a = none := by
  unfold checkRow
  by_cases h1 : a.id ≤ 0 ∨ a.id > (I.nTypes : Int)
  · simp only [h1, if_true]; constructor
    · intro h; cases h
    · intro h; omega
  simp only [h1, if_false]
  by_cases h2 : a.bin ≤ 0 ∨ a.bin > I.nItems
  · simp only [h2, if_true]; constructor
    · intro h; cases h
    · intro h; omega
  simp only [h2, if_false]
  by_cases h3 : a.l ≥ a.r ∨ a.b ≥ a.t
  · simp only [h3, if_true]; constructor
    · intro h; cases h
    · intro h; omega
  simp only [h3, if_false]
  by_cases h4 : a.l < 0 ∨ a.b < 0 ∨ a.r > I.W ∨ a.t > I.H
  · simp only [h4, if_true]; constructor
    · intro h; cases h
    · intro h; omega
  simp only [h4, if_false]
  obtain ⟨it, hit⟩ := item?_of_range I a.id (by omega) (by omega)
  simp only [hit]
  by_cases h5 : (a.r - a.l ≠ it.w ∨ a.t - a.b ≠ it.h) ∧ (a.r - a.l ≠ it.h ∨ a.t - a.b ≠ it.w)
  · simp only [h5]; constructor
    · intro h; cases h
    · rintro ⟨_, _, _, _, ⟨it', h6, h7⟩, _⟩
      cases h6
      unfold Row.HasDims at h7
      omega
  simp only [h5, if_false]
  have hd : a.HasDims it := by unfold Row.HasDims; omega
  cases h6 : firstOverlap all i a with
  | some j => simp
  | none =>
    simp only [true_iff]
    exact ⟨by omega, by omega, by omega, by omega, ⟨it, rfl, hd⟩, trivial⟩

theorem disjoint_symm (a c : Row) : a.Disjoint c → c.Disjoint a := by
  unfold Row.Disjoint; omega

/-- the inner overlap loop, run for every row, is pairwise disjointness inside each bin -/
theorem overlap_loop_iff_pairwise' (all : List Row) :
    (∀ i (h : i < all.length), firstOverlap all i all[i] = none) ↔
      all.Pairwise (fun a c => a.bin = c.bin → a.Disjoint c) := by
  rw [List.pairwise_iff_getElem]
  constructor
  · intro h i j hi hj hij hb
    exact (firstOverlap_none all i all[i]).mp (h i hi) j hj (by omega) hb.symm
  · intro h i hi
    rw [firstOverlap_none]
    intro j hj hne hb
    rcases Nat.lt_or_gt_of_ne hne with hlt | hgt
    · exact disjoint_symm _ _ (h j i hj hi hlt hb)
    · exact h i j hi hj hgt hb.symm

/-! ### multiplicities -/

theorem firstBadMult_none (I : Inst) (rows : List Row) :
    firstBadMult I rows = none ↔
      ∀ a ∈ rows, ∃ it, I.item? a.id = some it ∧ it.rep = (count rows a.id : Int) := by
  unfold firstBadMult
  rw [List.find?_eq_none]
  constructor
  · intro h a ha
    have := h a ha
    cases hit : I.item? a.id with
    | none => simp [hit] at this
    | some it => simp [hit] at this; exact ⟨it, rfl, this⟩
  · intro h a ha
    obtain ⟨it, h1, h2⟩ := h a ha
    simp [h1, h2]

theorem sum_map_add (l : List Nat) (f g : Nat → Int) :
    (l.map (fun i => f i + g i)).sum = (l.map f).sum + (l.map g).sum := by
  induction l with
  | nil => simp
  | cons a t ih => simp only [List.map_cons, List.sum_cons, ih]; omega

theorem sum_indicator (n j : Nat) :
    ((List.range n).map (fun i => if i = j then (1 : Int) else 0)).sum = if j < n then 1 else 0 := by
  induction n with
  | zero => simp
  | succ n ih =>
    rw [List.range_succ, List.map_append, List.sum_append, ih]
    simp only [List.map_cons, List.map_nil, List.sum_cons, List.sum_nil]
    by_cases h1 : j < n
    · have : ¬ n = j := by omega
      simp [h1, this]; omega
    · by_cases h2 : n = j
      · simp [h2]
      · have : ¬ j < n + 1 := by omega
        simp [h1, h2, this]

theorem count_cons (a : Row) (rows : List Row) (id : Int) :
    (count (a :: rows) id : Int) = (count rows id : Int) + (if a.id = id then 1 else 0) := by
  unfold count
  by_cases h : a.id = id <;> simp [h]

/-- every row carries an id in `1..n`  ⇒  the counts of the ids `1..n` add up to the row count -/
theorem sum_counts (rows : List Row) (n : Nat) (h : ∀ a ∈ rows, 1 ≤ a.id ∧ a.id ≤ (n : Int)) :
    ((List.range n).map (fun i : Nat => (count rows ((i : Int) + 1) : Int))).sum = rows.length := by
  induction rows with
  | nil =>
    have : ∀ l : List Nat, (l.map (fun _ : Nat => (0 : Int))).sum = 0 := by
      intro l; induction l with
      | nil => rfl
      | cons _ _ ih => simp [ih]
    simpa [count] using this _
  | cons a t ih =>
    have ha := h a (by simp)
    have := ih (fun b hb => h b (by simp [hb]))
    have hj : ((List.range n).map (fun i : Nat => if a.id = (i : Int) + 1 then (1 : Int) else 0)).sum = 1 := by
      have : (fun i : Nat => if a.id = (i : Int) + 1 then (1 : Int) else 0)
          = (fun i : Nat => if i = (a.id - 1).toNat then (1 : Int) else 0) := by
        funext i
        by_cases hh : a.id = (i : Int) + 1
        · have : i = (a.id - 1).toNat := by omega
          rw [if_pos hh, if_pos this]
        · have : ¬ i = (a.id - 1).toNat := by omega
          rw [if_neg hh, if_neg this]
      rw [this, sum_indicator]
      have : (a.id - 1).toNat < n := by omega
      rw [if_pos this]
    have e : (fun i : Nat => (count (a :: t) ((i : Int) + 1) : Int))
        = (fun i : Nat => (count t ((i : Int) + 1) : Int) + (if a.id = (i : Int) + 1 then 1 else 0)) := by
      funext i; exact count_cons a t _
    rw [e, sum_map_add, this, hj, List.length_cons]; omega

theorem sum_eq_of_le {α} (l : List α) (f g : α → Int) (hle : ∀ a ∈ l, f a ≤ g a)
    (hs : (l.map f).sum = (l.map g).sum) : ∀ a ∈ l, f a = g a := by
  induction l with
  | nil => simp
  | cons a t ih =>
    simp only [List.map_cons, List.sum_cons] at hs
    have h1 := hle a (by simp)
    have h2 := sum_map_le t f g (fun b hb => hle b (by simp [hb]))
    have h3 := ih (fun b hb => hle b (by simp [hb])) (by omega)
    intro b hb
    rcases List.mem_cons.mp hb with rfl | hb
    · omega
    · exact h3 b hb

theorem sum_map_range_getD (l : List Item) (f : Item → Int) :
    (l.map f).sum = ((List.range l.length).map (fun i => f (l.getD i default))).sum := by
  induction l with
  | nil => simp
  | cons a t ih =>
    rw [List.length_cons, List.range_succ_eq_map, List.map_cons, List.map_cons, List.map_map,
      List.sum_cons, List.sum_cons, ih]
    simp [Function.comp_def]

theorem count_pos_mem (rows : List Row) (id : Int) (h : 0 < count rows id) : ∃ a ∈ rows, a.id = id := by
  unfold count at h
  obtain ⟨a, ha⟩ := List.exists_mem_of_length_pos h
  rw [List.mem_filter] at ha
  exact ⟨a, ha.1, by simpa using ha.2⟩

/-- **Checking only the ids that occur suffices**: if every row id is valid, every id that occurs
occurs as often as prescribed, and there are `n_items = Σ rep` rows, then *every* id `1..n_types`
has its prescribed count (no id can be missing, as every repetition is at least 1). -/
theorem mult_check_suffices' (I : Inst) (rows : List Row)
    (hrep : ∀ it ∈ I.items, 1 ≤ it.rep) (hlen : (rows.length : Int) = I.nItems)
    (hid : ∀ a ∈ rows, 1 ≤ a.id ∧ a.id ≤ (I.nTypes : Int))
    (hocc : ∀ a ∈ rows, ∃ it, I.item? a.id = some it ∧ it.rep = (count rows a.id : Int)) :
    ∀ i ∈ List.range I.nTypes, (count rows ((i : Int) + 1) : Int) = (I.items.getD i default).rep := by
  apply sum_eq_of_le
  · intro i hi
    rw [List.mem_range] at hi
    unfold Inst.nTypes at hi
    have hg : I.items.getD i default = I.items[i] := by
      simp [List.getD_eq_getElem?_getD, List.getElem?_eq_getElem hi]
    by_cases h0 : count rows ((i : Int) + 1) = 0
    · have := hrep I.items[i] (List.getElem_mem hi)
      rw [hg, h0]; omega
    · obtain ⟨a, ha, hai⟩ := count_pos_mem rows _ (Nat.pos_of_ne_zero h0)
      obtain ⟨it, h1, h2⟩ := hocc a ha
      rw [hai, item?_succ, List.getElem?_eq_getElem hi] at h1
      cases h1
      rw [hg, h2, hai]; omega
  · rw [sum_counts rows I.nTypes hid, hlen]
    unfold Inst.nItems Inst.nTypes
    exact sum_map_range_getD I.items (·.rep)

/-! ### the set of bins -/

theorem mem_binSet (l : List Int) (v : Int) : v ∈ binSet l ↔ v ∈ l := by
  induction l with
  | nil => simp [binSet]
  | cons b t ih => simp only [binSet, List.mem_insert_iff, ih, List.mem_cons]

theorem nodup_binSet (l : List Int) : (binSet l).Nodup := by
  induction l with
  | nil => simp [binSet]
  | cons b t ih =>
    simp only [binSet]
    by_cases h : b ∈ binSet t
    · rw [List.insert_of_mem h]; exact ih
    · rw [List.insert_of_not_mem h]; exact List.nodup_cons.mpr ⟨h, ih⟩

theorem length_binSet_le (l : List Int) : (binSet l).length ≤ l.length := by
  induction l with
  | nil => simp [binSet]
  | cons b t ih =>
    simp only [binSet, List.length_cons]
    by_cases h : b ∈ binSet t
    · rw [List.insert_of_mem h]; omega
    · rw [List.insert_of_not_mem h, List.length_cons]; omega

/-- pigeonhole: a duplicate-free list of integers from `1..m` has at most `m` elements -/
theorem nodup_range_length_le : ∀ (m : Nat) (s : List Int), s.Nodup →
    (∀ v ∈ s, 1 ≤ v ∧ v ≤ (m : Int)) → s.length ≤ m := by
  intro m
  induction m with
  | zero =>
    intro s _ h
    cases s with
    | nil => simp
    | cons a t => have := h a (by simp); omega
  | succ m ih =>
    intro s hn h
    by_cases hm : ((m : Int) + 1) ∈ s
    · have h1 := ih (s.erase ((m : Int) + 1)) (hn.erase _) (fun v hv => by
        have hv' := (hn.mem_erase_iff.mp hv)
        have := h v hv'.2
        have hne : v ≠ (m : Int) + 1 := hv'.1
        omega)
      rw [List.length_erase_of_mem hm] at h1
      omega
    · have h1 := ih s hn (fun v hv => by
        have := h v hv
        have hne : v ≠ (m : Int) + 1 := fun e => hm (e ▸ hv)
        omega)
      omega

/-- a list containing all of `1..k` has at least `k` elements -/
theorem length_ge_of_range_subset : ∀ (k : Nat) (s : List Int),
    (∀ v : Int, 1 ≤ v → v ≤ (k : Int) → v ∈ s) → k ≤ s.length := by
  intro k
  induction k with
  | zero => intros; omega
  | succ k ih =>
    intro s h
    have hm : ((k : Int) + 1) ∈ s := h _ (by omega) (by omega)
    have h1 := ih (s.erase ((k : Int) + 1)) (fun v h1 h2 =>
      (List.mem_erase_of_ne (by omega)).mpr (h v h1 (by omega)))
    rw [List.length_erase_of_mem hm] at h1
    have : 0 < s.length := List.length_pos_of_mem hm
    omega

/-- a duplicate-free list of `m` integers from `1..m` contains all of `1..m` -/
theorem nodup_range_full (m : Nat) (s : List Int) (hn : s.Nodup)
    (h : ∀ v ∈ s, 1 ≤ v ∧ v ≤ (m : Int)) (hl : m ≤ s.length) :
    ∀ v : Int, 1 ≤ v → v ≤ (m : Int) → v ∈ s := by
  intro v h1 h2
  apply Classical.byContradiction
  intro hv
  have := nodup_range_length_le m (v :: s) (List.nodup_cons.mpr ⟨hv, hn⟩) (fun w hw => by
    rcases List.mem_cons.mp hw with rfl | hw
    · exact ⟨h1, h2⟩
    · exact h w hw)
  simp at this
  omega

/-- **`min = 1 ∧ max − min + 1 = len`  ⇔  the set of bins is exactly `{1..len}`** -/
theorem bins_contiguous_iff' (s : List Int) (hn : s.Nodup) (mn mx : Int)
    (hmin : s.min? = some mn) (hmax : s.max? = some mx) :
    (mn = 1 ∧ mx - mn + 1 = (s.length : Int)) ↔ ∀ v : Int, v ∈ s ↔ 1 ≤ v ∧ v ≤ (s.length : Int) := by
  rw [List.min?_eq_some_iff] at hmin
  rw [List.max?_eq_some_iff] at hmax
  obtain ⟨hmn, hmin⟩ := hmin
  obtain ⟨hmx, hmax⟩ := hmax
  constructor
  · rintro ⟨h1, h2⟩ v
    have hin : ∀ w ∈ s, 1 ≤ w ∧ w ≤ (s.length : Int) := fun w hw => by
      have := hmin w hw; have := hmax w hw; omega
    exact ⟨hin v, fun ⟨a, b⟩ => nodup_range_full s.length s hn hin (Nat.le_refl _) v a b⟩
  · intro h
    have hpos : 0 < s.length := List.length_pos_of_mem hmn
    have a1 := (h mn).mp hmn
    have a2 := (h mx).mp hmx
    have a3 := hmin 1 ((h 1).mpr ⟨by omega, by omega⟩)
    have a4 := hmax (s.length : Int) ((h _).mpr ⟨by omega, by omega⟩)
    omega

/-! ### shape -/

theorem rowOfList_isSome (r : List Int) : (∃ a, rowOfList r = some a) ↔ r.length = 6 := by
  constructor
  · rintro ⟨a, h⟩
    match r, h with
    | [_, _, _, _, _, _], _ => rfl
  · intro h
    match r, h with
    | [a, b, c, d, e, f], _ => exact ⟨_, rfl⟩

theorem rowsR_length (P : Packing) (h : ∀ r ∈ P.rows, r.length = 6) :
    P.rowsR.length = P.rows.length := by
  unfold Packing.rowsR
  generalize P.rows = l at h
  induction l with
  | nil => rfl
  | cons r t ih =>
    obtain ⟨a, ha⟩ := (rowOfList_isSome r).mpr (h r (by simp))
    simp only [List.filterMap_cons, ha, List.length_cons, ih (fun x hx => h x (by simp [hx]))]

theorem nItems_pos (I : Inst) (hV : I.Valid) : 1 ≤ I.nItems := by
  obtain ⟨_, _, _, _, h5, _, h7, _⟩ := hV
  unfold Inst.nItems
  cases hI : I.items with
  | nil => rw [hI] at h5; simp at h5
  | cons a t =>
    rw [hI] at h7
    have h1 := (h7 a (by simp)).2.2.2.2.1
    have h2 := sum_map_nonneg t (·.rep) (fun b hb => by have := (h7 b (by simp [hb])).2.2.2.2.1; omega)
    simp only [List.map_cons, List.sum_cons]
    omega

theorem checkMult_ok (I : Inst) (rows : List Row) :
    checkMult I rows = .ok () ↔ firstBadMult I rows = none := by
  unfold checkMult
  cases firstBadMult I rows <;> simp

theorem checkBins_ok (rows : List Row) (nBins : Int) :
    checkBins rows nBins = .ok () ↔
      ∃ mx mn, (binSet (rows.map (·.bin))).max? = some mx ∧ (binSet (rows.map (·.bin))).min? = some mn ∧
        mn = 1 ∧ mx - mn + 1 = ((binSet (rows.map (·.bin))).length : Int) ∧
        nBins = ((binSet (rows.map (·.bin))).length : Int) := by
  unfold checkBins
  generalize binSet (rows.map (·.bin)) = s
  cases h1 : s.max? with
  | none => simp [h1]
  | some mx =>
    cases h2 : s.min? with
    | none => simp [h1, h2]
    | some mn =>
      simp only [h1, h2, Option.some.injEq]
      by_cases h3 : mn ≠ 1 ∨ mx - mn + 1 ≠ (s.length : Int)
      · rw [if_pos h3]
        constructor
        · intro h; cases h
        · rintro ⟨mx', mn', rfl, rfl, h⟩; omega
      · rw [if_neg h3]
        by_cases h4 : nBins ≠ (s.length : Int)
        · rw [if_pos h4]
          constructor
          · intro h; cases h
          · rintro ⟨mx', mn', rfl, rfl, h⟩; omega
        · rw [if_neg h4]
          simp only [true_iff]
          exact ⟨mx, mn, rfl, rfl, by omega, by omega, by omega⟩

/-- the validator, unfolded into its independent checks -/
theorem validate_ok_parts (I : Inst) (P : Packing) :
    validate I P = .ok () ↔
      P.ownInst = true ∧ I.dtype? = some P.dtype ∧ P.HasShape I.nItems ∧
      (1 ≤ I.W ∧ I.W ≤ 1000000000000 ∧ 1 ≤ I.H ∧ I.H ≤ 1000000000000) ∧
      checkRowsFrom I P.rowsR 0 P.rowsR = .ok () ∧ checkMult I P.rowsR = .ok () ∧
      checkBins P.rowsR P.nBins = .ok () := by
  unfold validate
  by_cases h1 : P.ownInst = false
  · simp [h1]
  have h1' : P.ownInst = true := by simpa using h1
  by_cases h2 : I.dtype? ≠ some P.dtype
  · simp [h1, h2]
  by_cases h3 : ¬ P.HasShape I.nItems
  · simp [h1, h2, h3]
  by_cases h4 : I.W < 1 ∨ I.W > 1000000000000 ∨ I.H < 1 ∨ I.H > 1000000000000
  · simp only [h1, h2, h3, h4, if_true, if_false]
    constructor
    · intro h; cases h
    · intro h; omega
  rw [if_neg h1, if_neg h2, if_neg h3, if_neg h4]
  have h2' : I.dtype? = some P.dtype := by simpa using h2
  have h3' : P.HasShape I.nItems := by simpa using h3
  simp only [bind_ok_iff]
  exact ⟨fun h => ⟨h1', h2', h3', by omega, h⟩, fun h => h.2.2.2.2⟩

/-- what the row loop, the multiplicity counter and the bin checks accept is exactly
`Pack.Feasible`, for rows of the right number -/
theorem checks_iff_feasible (I : Inst) (hV : I.Valid) (rows : List Row) (nBins : Int)
    (hlen : (rows.length : Int) = I.nItems) :
    (checkRowsFrom I rows 0 rows = .ok () ∧ checkMult I rows = .ok () ∧
      checkBins rows nBins = .ok ()) ↔ Feasible I rows nBins := by
  have hrep : ∀ it ∈ I.items, 1 ≤ it.rep := fun it hit => (hV.2.2.2.2.2.2.1 it hit).2.2.2.2.1
  have hwh : ∀ it ∈ I.items, 1 ≤ it.w ∧ 1 ≤ it.h := fun it hit =>
    ⟨(hV.2.2.2.2.2.2.1 it hit).1, (hV.2.2.2.2.2.2.1 it hit).2.2.1⟩
  have hnpos := nItems_pos I hV
  rw [checkRowsFrom_ok, checkMult_ok, firstBadMult_none, checkBins_ok]
  have hs := nodup_binSet (rows.map (·.bin))
  have hsm := mem_binSet (rows.map (·.bin))
  have hsl := length_binSet_le (rows.map (·.bin))
  generalize binSet (rows.map (·.bin)) = s at hs hsm hsl ⊢
  rw [List.length_map] at hsl
  unfold Feasible
  constructor
  · rintro ⟨hrows, hmult, mx, mn, hmx, hmn, hb⟩
    have hrow : ∀ k (h : k < rows.length), checkRow I rows k rows[k] = .ok () := by
      intro k h; simpa using hrows k h
    simp only [checkRow_ok] at hrow
    have hmem : ∀ a ∈ rows, ∃ k, ∃ h : k < rows.length, rows[k] = a :=
      fun a ha => List.getElem_of_mem ha
    have hset := (bins_contiguous_iff' s hs mn mx hmn hmx).mp ⟨hb.1, hb.2.1⟩
    refine ⟨hlen, ?_, ?_, ?_, ?_, ?_, ?_⟩
    · intro a ha
      obtain ⟨k, hk, rfl⟩ := hmem a ha
      exact (hrow k hk).2.2.2.2.1
    · intro a ha
      obtain ⟨k, hk, rfl⟩ := hmem a ha
      exact (hrow k hk).2.2.2.1
    · exact mult_check_suffices' I rows hrep hlen
        (fun a ha => by obtain ⟨k, hk, rfl⟩ := hmem a ha; exact (hrow k hk).1) hmult
    · rw [← overlap_loop_iff_pairwise']
      intro i hi
      exact (hrow i hi).2.2.2.2.2
    · intro a ha
      have := (hset a.bin).mp ((hsm a.bin).mpr (List.mem_map.mpr ⟨a, ha, rfl⟩))
      omega
    · intro j hj
      rw [List.mem_range] at hj
      have : ((j : Int) + 1) ∈ s := (hset _).mpr ⟨by omega, by omega⟩
      obtain ⟨a, ha, hab⟩ := List.mem_map.mp ((hsm _).mp this)
      exact ⟨a, ha, hab⟩
  · rintro ⟨_, f2, f3, f4, f5, f6, f7⟩
    have hne : rows ≠ [] := by intro h; rw [h] at hlen; simp at hlen; omega
    obtain ⟨a0, ha0⟩ := List.exists_mem_of_ne_nil rows hne
    have hk1 : 1 ≤ nBins := by have := f6 a0 ha0; omega
    -- the set of bins is exactly 1..nBins
    have hset : ∀ v : Int, v ∈ s ↔ 1 ≤ v ∧ v ≤ nBins := by
      intro v
      rw [hsm, List.mem_map]
      constructor
      · rintro ⟨a, ha, rfl⟩; exact f6 a ha
      · intro hv
        obtain ⟨a, ha, hab⟩ := f7 (v - 1).toNat (by rw [List.mem_range]; omega)
        exact ⟨a, ha, by omega⟩
    have hcard : (s.length : Int) = nBins := by
      have h1 := nodup_range_length_le nBins.toNat s hs (fun v hv => by have := (hset v).mp hv; omega)
      have h2 := length_ge_of_range_subset nBins.toNat s (fun v h1 h2 => (hset v).mpr ⟨h1, by omega⟩)
      omega
    have hs0 : s ≠ [] := by intro h; rw [h] at hcard; simp at hcard; omega
    obtain ⟨mx, hmx⟩ : ∃ mx, s.max? = some mx := by
      cases h : s.max? with
      | none => exact absurd (List.max?_eq_none_iff.mp h) hs0
      | some mx => exact ⟨mx, rfl⟩
    obtain ⟨mn, hmn⟩ : ∃ mn, s.min? = some mn := by
      cases h : s.min? with
      | none => exact absurd (List.min?_eq_none_iff.mp h) hs0
      | some mn => exact ⟨mn, rfl⟩
    have hb := (bins_contiguous_iff' s hs mn mx hmn hmx).mpr (fun v => by rw [hset, hcard])
    refine ⟨?_, ?_, mx, mn, hmx, hmn, hb.1, hb.2, hcard.symm⟩
    · intro k hk
      simp only [Nat.zero_add, checkRow_ok]
      have hk' := List.getElem_mem hk
      obtain ⟨it, hit, hd⟩ := f2 _ hk'
      have hr := item?_some_range I _ it hit
      have hpos := hwh it hr.2.2
      have hin := f3 _ hk'
      have hbin := f6 _ hk'
      refine ⟨⟨hr.1, hr.2.1⟩, ⟨hbin.1, by omega⟩, ?_, hin, ⟨it, hit, hd⟩, ?_⟩
      · unfold Row.HasDims at hd; omega
      · exact (overlap_loop_iff_pairwise' rows).mpr f5 k hk
    · intro a ha
      obtain ⟨it, hit, _⟩ := f2 a ha
      refine ⟨it, hit, ?_⟩
      have hr := item?_some_range I _ it hit
      have hi : (a.id - 1).toNat < I.nTypes := by omega
      have h4 := f4 (a.id - 1).toNat (List.mem_range.mpr hi)
      have e : (((a.id - 1).toNat : Nat) : Int) + 1 = a.id := by omega
      rw [e] at h4
      have hit' := hit
      rw [← e, item?_succ] at hit'
      unfold Inst.nTypes at hi
      rw [List.getD_eq_getElem?_getD, hit'] at h4
      simp only [Option.getD_some] at h4
      rw [← h4]; rfl

/-! ### text form -/

theorem splitSemi_ne_nil (cs : List Char) : splitSemi cs ≠ [] := by
  induction cs with
  | nil => simp [splitSemi]
  | cons c t ih =>
    unfold splitSemi
    split
    · simp
    · split <;> simp

theorem splitSemi_token (t : List Char) (h : ';' ∉ t) : splitSemi t = [t] := by
  induction t with
  | nil => rfl
  | cons c t ih =>
    have hc : c ≠ ';' := fun e => h (by simp [e])
    have ht : ';' ∉ t := fun e => h (by simp [e])
    simp only [splitSemi, hc, if_false, ih ht]

theorem splitSemi_append (t rest : List Char) (h : ';' ∉ t) :
    splitSemi (t ++ ';' :: rest) = t :: splitSemi rest := by
  induction t with
  | nil => simp [splitSemi]
  | cons c t ih =>
    have hc : c ≠ ';' := fun e => h (by simp [e])
    have ht : ';' ∉ t := fun e => h (by simp [e])
    simp only [List.cons_append, splitSemi, hc, if_false, ih ht]

/-- splitting the `;`-joined text gives back the tokens (at least one token, none containing `;`) -/
theorem splitSemi_joinSemi (toks : List (List Char)) (hne : toks ≠ []) (h : ∀ t ∈ toks, ';' ∉ t) :
    splitSemi (joinSemi toks) = toks := by
  induction toks with
  | nil => exact absurd rfl hne
  | cons t ts ih =>
    cases ts with
    | nil => simpa [joinSemi] using splitSemi_token t (h t (by simp))
    | cons t' ts' =>
      simp only [joinSemi]
      rw [splitSemi_append t _ (h t (by simp)), ih (by simp) (fun x hx => h x (by simp [hx]))]

theorem repr_no_semi (v : Int) : ';' ∉ v.repr.toList := by
  have hd : ∀ n : Nat, ';' ∉ (Nat.repr n).toList := by
    intro n hn
    simp only [Nat.repr, String.toList_ofList] at hn
    have := Nat.isDigit_of_mem_toDigits (by decide) (by decide) hn
    exact absurd this (by decide)
  cases v with
  | ofNat m => exact hd m
  | negSucc m =>
    intro hn
    simp only [Int.repr, String.toList_append, List.mem_append] at hn
    rcases hn with hn | hn
    · exact absurd hn (by decide)
    · exact hd _ hn

theorem parse_repr (v : Int) : (String.ofList v.repr.toList).toInt? = some v := by
  rw [String.ofList_toList]; exact Int.toInt?_repr v

theorem mapM_parse (l : List Int) :
    (l.map (fun v => v.repr.toList)).mapM (fun t => (String.ofList t).toInt?) = some l := by
  induction l with
  | nil => rfl
  | cons a t ih => simp [List.mapM_cons, ih]

/-- the text form is the `;`-separated decimal values, row by row, and parses back to them -/
theorem parseInts_toStr (P : Packing) (h : P.flat ≠ []) : parseInts (toStr P) = some P.flat := by
  unfold parseInts toStr
  rw [String.toList_ofList, splitSemi_joinSemi _ (by simpa using h)
    (fun t ht => by obtain ⟨v, _, rfl⟩ := List.mem_map.mp ht; exact repr_no_semi v)]
  exact mapM_parse _

theorem reshape6_flatten (rows : List (List Int)) (h : ∀ r ∈ rows, r.length = 6) :
    reshape6 rows.flatten = some rows := by
  induction rows with
  | nil => rfl
  | cons r t ih =>
    have hr := h r (by simp)
    match r, hr with
    | [a, b, c, d, e, f], _ =>
      simp [reshape6, ih (fun x hx => h x (by simp [hx]))]

theorem reshape6_rows (vals : List Int) : ∀ rows, reshape6 vals = some rows → ∀ r ∈ rows, r.length = 6 := by
  induction vals using reshape6.induct with
  | case1 => intro rows h; cases h; simp
  | case2 a b c d e f rest ih =>
    intro rows h
    simp only [reshape6, Option.map_eq_some_iff] at h
    obtain ⟨rs, h1, rfl⟩ := h
    intro r hr
    rcases List.mem_cons.mp hr with rfl | hr
    · rfl
    · exact ih rs h1 r hr
  | case3 l h1 h2 => intro rows h; simp [reshape6] at h

theorem bins_of_rows (rows : List (List Int)) (h : ∀ r ∈ rows, r.length = 6) :
    rows.map (fun r => r.getD 1 0) = (rows.filterMap rowOfList).map (·.bin) := by
  induction rows with
  | nil => rfl
  | cons r t ih =>
    have hr := h r (by simp)
    match r, hr with
    | [a, b, c, d, e, f], _ =>
      have := ih (fun x hx => h x (by simp [hx]))
      simp only [List.map_cons, List.filterMap_cons, rowOfList, this]
      rfl

theorem max?_congr (l₁ l₂ : List Int) (h : ∀ v, v ∈ l₁ ↔ v ∈ l₂) : l₁.max? = l₂.max? := by
  cases h1 : l₁.max? with
  | none =>
    rw [List.max?_eq_none_iff] at h1
    subst h1
    cases l₂ with
    | nil => rfl
    | cons a t => exact absurd ((h a).mpr (by simp)) (by simp)
  | some m =>
    rw [List.max?_eq_some_iff] at h1
    exact (List.max?_eq_some_iff.mpr ⟨(h m).mp h1.1, fun b hb => h1.2 b ((h b).mpr hb)⟩).symm

theorem fromStr_toStr' (I : Inst) (P : Packing) (h : validate I P = .ok ()) :
    fromStr I (toStr P) = .ok P := by
  obtain ⟨h1, h2, h3, _, _, _, hbins⟩ := (validate_ok_parts I P).mp h
  rw [checkBins_ok] at hbins
  obtain ⟨mx, mn, hmx, hmn, hb1, hb2, hb3⟩ := hbins
  have hmx' : (P.rows.map (fun r => r.getD 1 0)).max? = some mx := by
    rw [bins_of_rows P.rows h3.2, ← hmx]
    exact max?_congr _ _ (fun v => (mem_binSet _ v).symm)
  have hrows : P.rows ≠ [] := by
    intro e; rw [e] at hmx'; simp at hmx'
  have hflat : P.flat ≠ [] := by
    unfold Packing.flat
    cases hr : P.rows with
    | nil => exact absurd hr hrows
    | cons r t =>
      have := h3.2 r (by rw [hr]; simp)
      match r, this with
      | [a, b, c, d, e, f], _ => simp
  unfold fromStr
  rw [parseInts_toStr P hflat]
  simp only [Packing.flat, reshape6_flatten P.rows h3.2]
  rw [if_neg (by simpa using h3.1)]
  simp only [h2, hmx']
  have hP : (⟨true, P.dtype, P.rows, mx⟩ : Packing) = P := by
    cases P with
    | mk o d r n =>
      simp only at h1 hb3 ⊢
      subst h1
      congr 1
      omega
  rw [hP, h]
  rfl

theorem fromStr_validates' (I : Inst) (s : String) (Q : Packing) (h : fromStr I s = .ok Q) :
    validate I Q = .ok () := by
  unfold fromStr at h
  split at h
  · cases h
  · split at h
    · cases h
    · split at h
      · cases h
      · split at h
        · cases h
        · split at h
          · cases h
          · rename_i mx _
            revert h
            generalize hP : (⟨true, _, _, mx⟩ : Packing) = P'
            intro h
            dsimp only at h
            cases hv : validate I P' with
            | error e => rw [hv] at h; cases h
            | ok u =>
              rw [hv] at h
              simp only [Except.map] at h
              cases h
              cases u
              exact hv

theorem checkRow_no_oob (I : Inst) (all : List Row) (i : Nat) (a : Row) :
    checkRow I all i a ≠ .error .oob := by
  unfold checkRow
  intro h
  by_cases h1 : a.id ≤ 0 ∨ a.id > (I.nTypes : Int)
  · rw [if_pos h1] at h; cases h
  rw [if_neg h1] at h
  by_cases h2 : a.bin ≤ 0 ∨ a.bin > I.nItems
  · rw [if_pos h2] at h; cases h
  rw [if_neg h2] at h
  by_cases h3 : a.l ≥ a.r ∨ a.b ≥ a.t
  · rw [if_pos h3] at h; cases h
  rw [if_neg h3] at h
  by_cases h4 : a.l < 0 ∨ a.b < 0 ∨ a.r > I.W ∨ a.t > I.H
  · rw [if_pos h4] at h; cases h
  rw [if_neg h4] at h
  obtain ⟨it, hit⟩ := item?_of_range I a.id (by omega) (by omega)
  simp only [hit] at h
  split at h
  · cases h
  · split at h <;> cases h

theorem checkRowsFrom_no_oob (I : Inst) (all : List Row) : ∀ (rest : List Row) (i : Nat),
    checkRowsFrom I all i rest ≠ .error .oob := by
  intro rest
  induction rest with
  | nil => intro i h; cases h
  | cons a t ih =>
    intro i h
    simp only [checkRowsFrom] at h
    cases h1 : checkRow I all i a with
    | error e =>
      rw [h1] at h
      simp only [bind, Except.bind] at h
      cases h
      exact checkRow_no_oob I all i a h1
    | ok u =>
      rw [h1] at h
      simp only [bind, Except.bind] at h
      exact ih (i + 1) h

theorem checkBins_no_oob (rows : List Row) (nBins : Int) : checkBins rows nBins ≠ .error .oob := by
  unfold checkBins
  intro h
  dsimp only at h
  split at h
  · split at h
    · cases h
    · split at h <;> cases h
  · cases h

/-- every array read of the validator stays inside the instance matrix / the packing:
the model never answers `oob` (C13 for `validate`) -/
theorem validate_no_oob' (I : Inst) (P : Packing) : validate I P ≠ .error .oob := by
  unfold validate
  intro h
  by_cases c1 : P.ownInst = false
  · rw [if_pos c1] at h; cases h
  rw [if_neg c1] at h
  by_cases c2 : I.dtype? ≠ some P.dtype
  · rw [if_pos c2] at h; cases h
  rw [if_neg c2] at h
  by_cases c3 : ¬ P.HasShape I.nItems
  · rw [if_pos c3] at h; cases h
  rw [if_neg c3] at h
  by_cases c4 : I.W < 1 ∨ I.W > 1000000000000 ∨ I.H < 1 ∨ I.H > 1000000000000
  · rw [if_pos c4] at h; cases h
  rw [if_neg c4] at h
  dsimp only at h
  cases h1 : checkRowsFrom I P.rowsR 0 P.rowsR with
  | error e =>
    rw [h1] at h
    simp only [bind, Except.bind] at h
    cases h
    exact checkRowsFrom_no_oob I _ _ _ h1
  | ok u =>
    have hrow := (checkRowsFrom_ok I P.rowsR P.rowsR 0).mp (by cases u; exact h1)
    rw [h1] at h
    simp only [bind, Except.bind] at h
    cases h2 : checkMult I P.rowsR with
    | error e =>
      rw [h2] at h
      simp only at h
      cases h
      unfold checkMult at h2
      split at h2
      · rename_i a ha
        have hmem := List.mem_of_find?_eq_some ha
        obtain ⟨k, hk, rfl⟩ := List.getElem_of_mem hmem
        have := (checkRow_ok I _ _ _).mp (hrow k hk)
        obtain ⟨it, hit, _⟩ := this.2.2.2.2.1
        rw [hit] at h2
        cases h2
      · cases h2
    | ok u2 =>
      rw [h2] at h
      exact checkBins_no_oob P.rowsR P.nBins h

/-- a feasible packing uses at most as many bins as it has rows -/
theorem feasible_bins_le (I : Inst) (rows : List Row) (k : Int) (h : Feasible I rows k) :
    k ≤ (rows.length : Int) := by
  obtain ⟨_, _, _, _, _, _, f7⟩ := h
  have := length_ge_of_range_subset k.toNat (rows.map (·.bin)) (fun v h1 h2 => by
    obtain ⟨a, ha, hab⟩ := f7 (v - 1).toNat (by rw [List.mem_range]; omega)
    exact List.mem_map.mpr ⟨a, ha, by omega⟩)
  rw [List.length_map] at this
  omega

theorem feasibleFast_eq (I : Inst) (rows : List Row) (k : Int) :
    feasibleFast I rows k = feasibleB I rows k := by
  unfold feasibleFast
  split
  · rename_i hk
    unfold feasibleB
    symm
    rw [decide_eq_false_iff_not]
    intro h
    have := feasible_bins_le I rows k h
    omega
  · rfl

theorem acceptsB_iff (I : Inst) (P : Packing) : acceptsB I P = true ↔ Accepts I P := by
  unfold acceptsB Accepts
  rw [feasibleFast_eq]
  unfold feasibleB
  simp only [Bool.and_eq_true, decide_eq_true_eq]
  constructor
  · rintro ⟨⟨⟨a, b⟩, c⟩, d⟩; exact ⟨a, b, c, d⟩
  · rintro ⟨a, b, c, d⟩; exact ⟨⟨⟨a, b⟩, c⟩, d⟩

theorem foldl_maxSize_le (items : List Item) (B : Int) : ∀ acc : Int, acc ≤ B →
    (∀ it ∈ items, it.w ≤ B ∧ it.h ≤ B) →
    items.foldl (fun m it => max (max m it.w) it.h) acc ≤ B := by
  induction items with
  | nil => intro acc h _; simpa using h
  | cons a t ih =>
    intro acc h hb
    simp only [List.foldl_cons]
    have := hb a (by simp)
    exact ih _ (by omega) (fun it hit => hb it (by simp [hit]))

theorem foldl_maxSize_ge (items : List Item) : ∀ acc : Int,
    acc ≤ items.foldl (fun m it => max (max m it.w) it.h) acc := by
  induction items with
  | nil => intro acc; simp
  | cons a t ih =>
    intro acc
    simp only [List.foldl_cons]
    have := ih (max (max acc a.w) a.h)
    omega

/-- every instance the constructor accepts has a storage type (so `create()` works and the dtype
clause of the property is satisfiable) -/
theorem dtype?_isSome' (I : Inst) (hV : I.Valid) : ∃ t, I.dtype? = some t := by
  obtain ⟨h1, h2, h3, h4, _, _, h7, h8⟩ := hV
  have hms : I.maxSize ≤ I.maxDim := by
    unfold Inst.maxSize
    apply foldl_maxSize_le
    · unfold Inst.maxDim; omega
    · intro it hit; have := h7 it hit; omega
  have hms0 : -1 ≤ I.maxSize := foldl_maxSize_ge I.items (-1)
  have hnp := nItems_pos I ⟨h1, h2, h3, h4, ‹_›, ‹_›, h7, h8⟩
  have hmd : I.maxDim ≤ 1000000000000 := by unfold Inst.maxDim; omega
  have hmd1 : 1 ≤ I.maxDim := by unfold Inst.maxDim; omega
  unfold Inst.dtype? dtypeFor
  generalize hX : max (I.maxDim + I.maxSize + 1) (I.nItems + 1) = X
  have hX1 : 0 ≤ X := by omega
  have hX2 : X ≤ 9223372036854775807 := by omega
  rw [if_neg (by omega)]
  rw [← Option.isSome_iff_exists, List.find?_isSome]
  exact ⟨DType.int64, by simp [DType.all], by simp [DType.lo, DType.hi, hX2]⟩

end PackVal
