import Model.MinAnn
import Mathlib.Algebra.Order.Field.Basic
import Mathlib.Tactic.Linarith
import Mathlib.Tactic.Ring
import Mathlib.Tactic.NormNum
/-!
Invariants of the bracketing / golden-section search of `min_ann.py`, over an arbitrary linearly
ordered field with exact arithmetic and *arbitrary* `nextafter` substitutes `up`, `dn` that only
satisfy `x ≤ up x`, `dn x ≤ x`.
-/
set_option linter.unusedSectionVars false

namespace MinAnn

variable {K : Type} [Field K] [LinearOrder K] [IsStrictOrderedRing K]

/-- exact field arithmetic, `<` decided by the linear order, `up`/`dn` given -/
def fieldNum (up dn : K → K) : Num K :=
  ⟨(· + ·), (· - ·), (· * ·), (· / ·), fun a b => decide (a < b), up, dn⟩

/-- what the proof needs to know about the literals: the first estimate lies in the interval,
the bracketing grid `lo2, lo2 + step, …` hits `hi` exactly after `n` steps, `PHI ≥ 1`, `tol ≥ 0` -/
structure Consts.Ok (C : Consts K) (n : ℕ) : Prop where
  lo_le_x0 : C.lo ≤ C.x0
  x0_le_hi : C.x0 ≤ C.hi
  lo_le_lo2 : C.lo ≤ C.lo2
  grid : C.hi = C.lo2 + (n : K) * C.step
  step_pos : 0 < C.step
  tol_nonneg : 0 ≤ C.tol
  phi_ge_one : 1 ≤ C.phi

/-- a point of the bracketing grid -/
def OnGrid (C : Consts K) (n : ℕ) (x : K) : Prop := ∃ k : ℕ, k ≤ n ∧ x = C.lo2 + (k : K) * C.step

theorem OnGrid.bounds {C : Consts K} {n : ℕ} (hC : C.Ok n) {x : K} (h : OnGrid C n x) :
    C.lo ≤ x ∧ x ≤ C.hi := by
  obtain ⟨k, hk, rfl⟩ := h
  have h1 : (0 : K) ≤ (k : K) * C.step := mul_nonneg (Nat.cast_nonneg k) hC.step_pos.le
  have h2 : (k : K) * C.step ≤ (n : K) * C.step :=
    mul_le_mul_of_nonneg_right (Nat.cast_le.mpr hk) hC.step_pos.le
  have := hC.lo_le_lo2
  rw [hC.grid]
  constructor <;> linarith

/-- trace invariant: every evaluated point is inside the interval, `x_best` is one of them,
`f_best` is its value and no evaluated point is better -/
structure Tr (C : Consts K) (f : K → K) (st : S K) : Prop where
  evals_in : ∀ p ∈ st.evals, C.lo ≤ p ∧ p ≤ C.hi
  best_mem : st.xBest ∈ st.evals
  best_val : st.fBest = f st.xBest
  best_min : ∀ p ∈ st.evals, st.fBest ≤ f p

section consider
variable (up dn : K → K) (f : K → K)

theorem consider_snd (st : S K) (x : K) : (consider (fieldNum up dn) f st x).2 = f x := by
  unfold consider; dsimp only; split <;> rfl

theorem consider_fields (st : S K) (x : K) :
    let r := (consider (fieldNum up dn) f st x).1
    r.xA = st.xA ∧ r.fA = st.fA ∧ r.xB = st.xB ∧ r.fB = st.fB ∧ r.xC = st.xC ∧ r.fC = st.fC ∧
    r.xLow = st.xLow ∧ r.evals = st.evals ++ [x] := by
  unfold consider; dsimp only; split <;> simp

theorem consider_tr {C : Consts K} {st : S K} (h : Tr C f st) {x : K}
    (hx : C.lo ≤ x ∧ x ≤ C.hi) : Tr C f (consider (fieldNum up dn) f st x).1 := by
  unfold consider
  dsimp only
  split
  · rename_i hlt
    have hlt' : f x < st.fBest := by simpa [fieldNum] using hlt
    refine ⟨?_, by simp, rfl, ?_⟩
    · intro p hp
      simp only [List.mem_append, List.mem_singleton] at hp
      rcases hp with hp | rfl
      · exact h.evals_in p hp
      · exact hx
    · intro p hp
      simp only [List.mem_append, List.mem_singleton] at hp
      rcases hp with hp | rfl
      · exact le_trans hlt'.le (h.best_min p hp)
      · exact le_refl _
  · rename_i hlt
    have hlt' : st.fBest ≤ f x := by simpa [fieldNum] using hlt
    refine ⟨?_, ?_, h.best_val, ?_⟩
    · intro p hp
      simp only [List.mem_append, List.mem_singleton] at hp
      rcases hp with hp | rfl
      · exact h.evals_in p hp
      · exact hx
    · simp only [List.mem_append, List.mem_singleton]; exact Or.inl h.best_mem
    · intro p hp
      simp only [List.mem_append, List.mem_singleton] at hp
      rcases hp with hp | rfl
      · exact h.best_min p hp
      · exact hlt'

end consider

/-- geometric invariant of the outer loop -/
structure Geo (C : Consts K) (n : ℕ) (st : S K) : Prop where
  xA_ge : C.lo ≤ st.xA
  xLow_ge : C.lo ≤ st.xLow
  xB_grid : OnGrid C n st.xB
  xC_grid : OnGrid C n st.xC

theorem Tr.congr {C : Consts K} {f : K → K} {st st' : S K} (h : Tr C f st)
    (h1 : st'.evals = st.evals) (h2 : st'.xBest = st.xBest) (h3 : st'.fBest = st.fBest) :
    Tr C f st' := by
  refine ⟨?_, ?_, ?_, ?_⟩
  · rw [h1]; exact h.evals_in
  · rw [h1, h2]; exact h.best_mem
  · rw [h2, h3]; exact h.best_val
  · rw [h1, h3]; exact h.best_min

variable (up dn : K → K) (f : K → K)

theorem init_spec {C : Consts K} {n : ℕ} (hC : C.Ok n) :
    Tr C f (init (fieldNum up dn) C f) ∧ Geo C n (init (fieldNum up dn) C f) ∧
    [C.x0, C.lo, C.lo2] <+: (init (fieldNum up dn) C f).evals := by
  have hlo2 : OnGrid C n C.lo2 := ⟨0, Nat.zero_le _, by simp⟩
  have hlo : C.lo ≤ C.lo ∧ C.lo ≤ C.hi := ⟨le_refl _, le_trans hC.lo_le_x0 hC.x0_le_hi⟩
  let st0 : S K := { xBest := C.x0, fBest := f C.x0, xA := C.lo, fA := f C.x0, xB := C.lo2,
                     fB := f C.x0, xC := C.lo2, fC := f C.x0, xLow := C.lo, evals := [C.x0] }
  have t0 : Tr C f st0 := by
    refine ⟨?_, by simp [st0], rfl, ?_⟩
    · intro p hp
      have : p = C.x0 := by simpa [st0] using hp
      subst this
      exact ⟨hC.lo_le_x0, hC.x0_le_hi⟩
    · intro p hp
      have : p = C.x0 := by simpa [st0] using hp
      subst this
      exact le_refl _
  have t1 := consider_tr up dn f t0 hlo
  obtain ⟨a1, _, a3, _, a5, _, a7, a8⟩ := consider_fields up dn f st0 C.lo
  let st1 : S K := { (consider (fieldNum up dn) f st0 C.lo).1 with
    fA := (consider (fieldNum up dn) f st0 C.lo).2 }
  have t1' : Tr C f st1 := t1.congr rfl rfl rfl
  have t2 := consider_tr up dn f t1' (hlo2.bounds hC)
  obtain ⟨b1, _, b3, _, b5, _, b7, b8⟩ := consider_fields up dn f st1 C.lo2
  have hinit : init (fieldNum up dn) C f =
      { (consider (fieldNum up dn) f st1 C.lo2).1 with
        fB := (consider (fieldNum up dn) f st1 C.lo2).2,
        fC := (consider (fieldNum up dn) f st1 C.lo2).2 } := rfl
  rw [hinit]
  refine ⟨t2.congr rfl rfl rfl, ⟨?_, ?_, ?_, ?_⟩, ?_⟩
  · show C.lo ≤ (consider (fieldNum up dn) f st1 C.lo2).1.xA
    rw [b1]; show C.lo ≤ (consider (fieldNum up dn) f st0 C.lo).1.xA
    rw [a1]
  · show C.lo ≤ (consider (fieldNum up dn) f st1 C.lo2).1.xLow
    rw [b7]; show C.lo ≤ (consider (fieldNum up dn) f st0 C.lo).1.xLow
    rw [a7]
  · show OnGrid C n (consider (fieldNum up dn) f st1 C.lo2).1.xB
    rw [b3]; show OnGrid C n (consider (fieldNum up dn) f st0 C.lo).1.xB
    rw [a3]; exact hlo2
  · show OnGrid C n (consider (fieldNum up dn) f st1 C.lo2).1.xC
    rw [b5]; show OnGrid C n (consider (fieldNum up dn) f st0 C.lo).1.xC
    rw [a5]; exact hlo2
  · show [C.x0, C.lo, C.lo2] <+: (consider (fieldNum up dn) f st1 C.lo2).1.evals
    rw [b8]; show [C.x0, C.lo, C.lo2] <+: (consider (fieldNum up dn) f st0 C.lo).1.evals ++ [C.lo2]
    rw [a8]
    exact ⟨[], by simp [st0]⟩

theorem bracket_spec {C : Consts K} {n : ℕ} (hC : C.Ok n) :
    ∀ (fuel : Nat) (st st' : S K) (b : Bool), Tr C f st → Geo C n st →
      bracket (fieldNum up dn) C f fuel st = some (st', b) →
      Tr C f st' ∧ Geo C n st' ∧ st.evals <+: st'.evals := by
  intro fuel
  induction fuel with
  | zero => intro st st' b _ _ h; simp [bracket] at h
  | succ fuel ih =>
    intro st st' b ht hg h
    unfold bracket at h
    split at h
    · rename_i hlt
      have hlt' : st.xB < C.hi := by simpa [fieldNum] using hlt
      -- the next grid point
      have hxc : OnGrid C n (st.xB + C.step) := by
        obtain ⟨k, hk, hkx⟩ := hg.xB_grid
        refine ⟨k + 1, ?_, by rw [hkx]; push_cast; ring⟩
        rw [hkx, hC.grid] at hlt'
        have h1 : (k : K) * C.step < (n : K) * C.step := by linarith
        have h2 : (k : K) < (n : K) := lt_of_mul_lt_mul_right h1 hC.step_pos.le
        have : k < n := Nat.cast_lt.mp h2
        omega
      have hadd : (fieldNum up dn).add st.xB C.step = st.xB + C.step := rfl
      rw [hadd] at h
      have t1 := consider_tr up dn f ht (hxc.bounds hC)
      obtain ⟨a1, a2, a3, a4, a5, a6, a7, a8⟩ := consider_fields up dn f st (st.xB + C.step)
      have hp : st.evals <+: (consider (fieldNum up dn) f st (st.xB + C.step)).1.evals := by
        rw [a8]; exact List.prefix_append _ _
      dsimp only at h
      split at h
      · simp only [Option.some.injEq, Prod.mk.injEq] at h
        obtain ⟨rfl, _⟩ := h
        exact ⟨t1.congr rfl rfl rfl,
          ⟨by show C.lo ≤ (consider (fieldNum up dn) f st (st.xB + C.step)).1.xA
              rw [a1]; exact hg.xA_ge,
           by show C.lo ≤ (consider (fieldNum up dn) f st (st.xB + C.step)).1.xLow
              rw [a7]; exact hg.xLow_ge,
           by show OnGrid C n (consider (fieldNum up dn) f st (st.xB + C.step)).1.xB
              rw [a3]; exact hg.xB_grid, hxc⟩, hp⟩
      · have key := fun hT hG => ih _ st' b hT hG h
        obtain ⟨r1, r2, r3⟩ := key (t1.congr rfl rfl rfl)
          ⟨by dsimp only; rw [a3]; exact (hg.xB_grid.bounds hC).1,
           by dsimp only; rw [a7]; exact hg.xLow_ge, hxc, hxc⟩
        exact ⟨r1, r2, hp.trans r3⟩
    · simp only [Option.some.injEq, Prod.mk.injEq] at h
      obtain ⟨rfl, _⟩ := h
      exact ⟨ht, hg, List.prefix_refl _⟩

theorem golden_spec {C : Consts K} {n : ℕ} (hC : C.Ok n)
    (hup : ∀ x, x ≤ up x) (hdn : ∀ x, dn x ≤ x) :
    ∀ (fuel : Nat) (st st' : S K) (xHigh : K), Tr C f st → C.lo ≤ st.xLow → xHigh ≤ C.hi →
      golden (fieldNum up dn) C f fuel st xHigh = some st' →
      Tr C f st' ∧ C.lo ≤ st'.xLow ∧ st'.xA = st.xA ∧ st'.xB = st.xB ∧ st'.xC = st.xC ∧
      st.evals <+: st'.evals := by
  intro fuel
  induction fuel with
  | zero => intro st st' xHigh _ _ _ h; simp [golden] at h
  | succ fuel ih =>
    intro st st' xHigh ht hlow hhigh h
    unfold golden at h
    dsimp only at h
    split at h
    · rename_i hlt
      have hlt' : C.tol < xHigh - st.xLow := by simpa [fieldNum] using hlt
      have hdpos : 0 < xHigh - st.xLow := lt_of_le_of_lt hC.tol_nonneg hlt'
      have hphi : 0 < C.phi := lt_of_lt_of_le zero_lt_one hC.phi_ge_one
      have hq0 : 0 < (xHigh - st.xLow) / C.phi := div_pos hdpos hphi
      have hq1 : (xHigh - st.xLow) / C.phi ≤ xHigh - st.xLow := div_le_self hdpos.le hC.phi_ge_one
      have e0 : (fieldNum up dn).div ((fieldNum up dn).sub xHigh st.xLow) C.phi
          = (xHigh - st.xLow) / C.phi := rfl
      have e1 : ∀ d, (fieldNum up dn).sub xHigh d = xHigh - d := fun _ => rfl
      have e2 : ∀ a d, (fieldNum up dn).add a d = a + d := fun _ _ => rfl
      rw [e0] at h
      simp only [e1, e2] at h
      have hcc : C.lo ≤ xHigh - (xHigh - st.xLow) / C.phi ∧
          xHigh - (xHigh - st.xLow) / C.phi ≤ C.hi := by constructor <;> linarith
      have t1 := consider_tr up dn f ht hcc
      obtain ⟨a1, _, a3, _, a5, _, a7, a8⟩ :=
        consider_fields up dn f st (xHigh - (xHigh - st.xLow) / C.phi)
      rw [a7] at h
      have hdd : C.lo ≤ st.xLow + (xHigh - st.xLow) / C.phi ∧
          st.xLow + (xHigh - st.xLow) / C.phi ≤ C.hi := by constructor <;> linarith
      have t2 := consider_tr up dn f t1 hdd
      obtain ⟨b1, _, b3, _, b5, _, b7, b8⟩ :=
        consider_fields up dn f (consider (fieldNum up dn) f st (xHigh - (xHigh - st.xLow) / C.phi)).1
          (st.xLow + (xHigh - st.xLow) / C.phi)
      have hpre : st.evals <+: (consider (fieldNum up dn) f
          (consider (fieldNum up dn) f st (xHigh - (xHigh - st.xLow) / C.phi)).1
          (st.xLow + (xHigh - st.xLow) / C.phi)).1.evals := by
        rw [b8, a8, List.append_assoc]; exact List.prefix_append _ _
      split at h
      · have hd := hdn (st.xLow + (xHigh - st.xLow) / C.phi)
        obtain ⟨r1, r2, r3, r4, r5, r6⟩ := ih _ st' _ t2 (by rw [b7, a7]; exact hlow)
          (le_trans hd hdd.2) h
        exact ⟨r1, r2, by rw [r3, b1, a1], by rw [r4, b3, a3], by rw [r5, b5, a5], hpre.trans r6⟩
      · have hu := hup (xHigh - (xHigh - st.xLow) / C.phi)
        have key := fun hT hL => ih _ st' xHigh hT hL hhigh h
        obtain ⟨r1, r2, r3, r4, r5, r6⟩ := key (t2.congr rfl rfl rfl) (le_trans hcc.1 hu)
        dsimp only at r3 r4 r5 r6
        exact ⟨r1, r2, by rw [r3, b1, a1], by rw [r4, b3, a3], by rw [r5, b5, a5], hpre.trans r6⟩
    · simp only [Option.some.injEq] at h
      subst h
      exact ⟨ht, hlow, rfl, rfl, rfl, List.prefix_refl _⟩

theorem outer_spec {C : Consts K} {n : ℕ} (hC : C.Ok n)
    (hup : ∀ x, x ≤ up x) (hdn : ∀ x, dn x ≤ x) (fuel2 : Nat) :
    ∀ (fuel : Nat) (st st' : S K) (ever : Bool), Tr C f st → Geo C n st →
      outer (fieldNum up dn) C f fuel2 fuel st ever = some st' →
      Tr C f st' ∧ st.evals <+: st'.evals := by
  intro fuel
  induction fuel with
  | zero => intro st st' ever _ _ h; simp [outer] at h
  | succ fuel ih =>
    intro st st' ever ht hg h
    unfold outer at h
    simp only [Option.bind_eq_some_iff] at h
    obtain ⟨⟨st1, found⟩, hb, h⟩ := h
    obtain ⟨t1, g1, p1⟩ := bracket_spec up dn f hC fuel2 st st1 found ht hg hb
    dsimp only at h
    split at h
    · simp only [Option.bind_eq_some_iff] at h
      obtain ⟨st2, hgo, h⟩ := h
      obtain ⟨t2, l2, e1, e2, e3, p2⟩ := golden_spec up dn f hC hup hdn fuel2
        _ st2 _ (t1.congr (st' := { st1 with xLow := up st1.xA }) rfl rfl rfl)
        (le_trans g1.xA_ge (hup _)) (le_trans (hdn _) (g1.xC_grid.bounds hC).2) hgo
      dsimp only at e1 e2 e3 p2
      have hB : OnGrid C n st2.xB := by rw [e2]; exact g1.xB_grid
      have hCg : OnGrid C n st2.xC := by rw [e3]; exact g1.xC_grid
      have key := fun hT hG => ih _ st' true hT hG h
      obtain ⟨t3, p3⟩ := key (t2.congr rfl rfl rfl) ⟨(hB.bounds hC).1, l2, hCg, hCg⟩
      exact ⟨t3, (p1.trans p2).trans p3⟩
    · split at h
      · simp only [Option.some.injEq] at h
        subst h
        exact ⟨t1, p1⟩
      · simp only [Option.map_eq_some_iff] at h
        obtain ⟨st2, hgo, rfl⟩ := h
        obtain ⟨t2, _, _, _, _, p2⟩ := golden_spec up dn f hC hup hdn fuel2 st1 st2 st1.xC t1
          g1.xLow_ge (g1.xC_grid.bounds hC).2 hgo
        exact ⟨t2.congr rfl rfl rfl, p1.trans p2⟩

end MinAnn
