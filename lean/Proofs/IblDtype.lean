import Proofs.Ibl2
import Proofs.Area
import Proofs.Base
/-! value ranges of packings vs. the storage type the instance selects (C01 dtype clause) -/
namespace Ibl
open Pack Base

theorem dtypeFor_sound_signed (I : Inst) (t : DType) (h : I.dtype? = some t) :
    t.lo ≤ 0 ∧ max (I.maxDim + I.maxSize + 1) (I.nItems + 1) ≤ t.hi := by
  unfold Inst.dtype? dtypeFor at h
  split at h
  · simp at h
  · simp at h
    have := List.find?_some h
    simp at this
    omega

theorem _root_.Pack.Inst.nTypes_le_nItems (I : Inst) (hv : I.Valid) : (I.nTypes : Int) ≤ I.nItems := by
  obtain ⟨_, _, _, _, _, _, hitems, _⟩ := hv
  unfold Inst.nTypes Inst.nItems
  have : ∀ l : List Item, (∀ b ∈ l, 1 ≤ b.rep) → (l.length : Int) ≤ (l.map (·.rep)).sum := by
    intro l
    induction l with
    | nil => intro _; simp
    | cons a t ih =>
      intro h
      simp only [List.map_cons, List.sum_cons, List.length_cons]
      have := h a (by simp)
      have := ih (fun b hb => h b (by simp [hb]))
      omega
  exact this I.items (fun b hb => (hitems b hb).2.2.2.2.1)

theorem maxSize_ge (I : Inst) : ∀ it ∈ I.items, it.w ≤ I.maxSize ∧ it.h ≤ I.maxSize := by
  unfold Inst.maxSize
  have key : ∀ (l : List Item) (init : Int),
      init ≤ l.foldl (fun m it => max (max m it.w) it.h) init ∧
      ∀ it ∈ l, it.w ≤ l.foldl (fun m it => max (max m it.w) it.h) init ∧
        it.h ≤ l.foldl (fun m it => max (max m it.w) it.h) init := by
    intro l
    induction l with
    | nil => intro init; simp
    | cons a t ih =>
      intro init
      simp only [List.foldl_cons]
      have h1 := ih (max (max init a.w) a.h)
      refine ⟨by have := h1.1; omega, ?_⟩
      intro it hit
      simp only [List.mem_cons] at hit
      rcases hit with rfl | hit
      · have := h1.1; omega
      · exact h1.2 it hit
  exact (key I.items (-1)).2

theorem bins_le_rows (I : Inst) (rows : List Row) (k : Int) (hf : Feasible I rows k) : k ≤ rows.length := by
  obtain ⟨_, _, _, _, _, hbin, hused⟩ := hf
  by_cases hk : k ≤ 0
  · omega
  · have hkey : ∀ a ∈ rows, 1 ≤ a.bin ∧ a.bin ≤ ((k.toNat : Nat) : Int) := by
      intro a ha; have := hbin a ha; omega
    have h1 := sum_by_key rows (fun a => a.bin) (fun _ => (1 : Int)) k.toNat hkey
    have hlen : ∀ l : List Row, (l.map (fun _ => (1 : Int))).sum = l.length := by
      intro l; induction l with
      | nil => rfl
      | cons a t ih => simp only [List.map_cons, List.sum_cons, List.length_cons, ih]; omega
    rw [hlen] at h1
    have h2 : ∀ (l : List Nat) (g : Nat → Int), (∀ j ∈ l, 1 ≤ g j) → (l.length : Int) ≤ (l.map g).sum := by
      intro l g
      induction l with
      | nil => intro _; simp
      | cons a t ih =>
        intro h
        simp only [List.map_cons, List.sum_cons, List.length_cons]
        have := h a (by simp)
        have := ih (fun j hj => h j (by simp [hj]))
        omega
    have h3 := h2 (List.range k.toNat)
      (fun j => ((rows.filter (fun a => a.bin = (j : Int) + 1)).map (fun _ => (1 : Int))).sum) (by
        intro j hj
        rw [hlen]
        obtain ⟨a, ha, hab⟩ := hused j hj
        have : a ∈ rows.filter (fun a => a.bin = (j : Int) + 1) := List.mem_filter.mpr ⟨ha, by simpa using hab⟩
        have := List.length_pos_of_mem this
        omega)
    rw [List.length_range] at h3
    omega

end Ibl
